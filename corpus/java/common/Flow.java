package corpus;

import java.io.ByteArrayInputStream;
import java.io.IOException;
import java.io.InputStream;

public class Flow {
	private final Object lock = new Object();
	private volatile int v; private transient long t; protected static final String S = "const"; static final long L = 1L << 40; static final double D = 1e300; static final float F = 1.5f; static final int I = -7; static final char C = 'c'; static final boolean Z = true; static final byte B = 1; static final short SH = 2;
	static int counter;
	static { counter = S.length(); }
	{ v = 1; }
	public int tryAll(int x) throws IOException {
		try { if (x == 0) throw new IllegalStateException("zero"); return 100 / x; }
		catch (ArithmeticException | IllegalStateException e) { return -1; }
		catch (RuntimeException e) { throw new IOException(e); }
		finally { counter++; }
	}
	public int resources(byte[] data) throws IOException {
		try (InputStream a = new ByteArrayInputStream(data); InputStream b = new ByteArrayInputStream(data)) { return a.read() + b.read(); }
	}
	public void sync() { synchronized (lock) { v++; synchronized (this) { t += v; } } }
	public synchronized native void nat();
	@Deprecated public strictfp double old(double x) { return x * 2; }
	public static int varargs(String fmt, Object... args) { return args.length + fmt.length(); }
	public int ternaries(int a, int b) { int c = a > b ? a : b; c += a == b ? 1 : a < b ? 2 : 3; return c; }
	public long wide() { long a0=0,a1=1,a2=2,a3=3; double d0=0,d1=1; int i4=4; a0 += a1*a2 - a3; d0 = d1 + a0; i4 += 1000; i4 -= 200; return (long) d0 + i4; }
}
