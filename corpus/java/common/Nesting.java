package corpus;

import java.util.Iterator;

public class Nesting implements Iterable<Integer> {
	private int x = 3;
	public class Inner { int y = x; public class Deep { int z = y + x; } }
	public static class StaticNested { static int s; }
	private interface Priv { void p(); }
	public Iterator<Integer> iterator() {
		return new Iterator<Integer>() {
			int i = 0;
			public boolean hasNext() { return i < x; }
			public Integer next() { return i++; }
		};
	}
	public Object local(int k) {
		class Local implements Priv { public void p() { x += k; } @Override public String toString() { return "L" + k; } }
		Local l = new Local(); l.p();
		return new Object() { @Override public int hashCode() { return k; } };
	}
	private static int secret() { return 42; }
	public static int viaNested() { return new Object() { int g() { return secret(); } }.g(); }
}
