package corpus;

import java.util.Arrays;
import java.util.Comparator;
import java.util.List;
import java.util.concurrent.Callable;
import java.util.function.BiFunction;
import java.util.function.Supplier;
import java.util.stream.Collectors;

public class Lambdas {
	private int base = 10;
	public Supplier<Integer> capturing(int x) { return () -> x + base; }
	public static Callable<String> constant() { return () -> "c"; }
	public static BiFunction<Integer, Integer, Integer> adder() { return Integer::sum; }
	public static Supplier<Lambdas> ctor() { return Lambdas::new; }
	public static Supplier<int[]> arrayCtor() { return () -> new int[3]; }
	public String join(List<String> l) { return l.stream().map(String::trim).filter(s -> !s.isEmpty()).sorted(Comparator.comparing(String::length).thenComparing(Comparator.naturalOrder())).collect(Collectors.joining(",", "[", "]")); }
	public String concat(String a, int b, long c, double d, Object o, char ch) { return a + b + c + d + o + ch + "lit\u0001" + base; }
	public Runnable nested() { return () -> { Runnable r = () -> System.out.println(base); r.run(); }; }
	public static Object[] cloneArr(Object[] a) { return a.clone(); }
	public static int[][] multi() { int[][] m = new int[3][4]; m[1][2] = 5; long[][][] q = new long[2][][]; return Arrays.copyOf(m, 3); }
}
