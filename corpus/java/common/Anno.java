package corpus;

import java.lang.annotation.ElementType;
import java.lang.annotation.Repeatable;
import java.lang.annotation.Retention;
import java.lang.annotation.RetentionPolicy;
import java.lang.annotation.Target;
import java.util.List;
import java.util.Map;

public class Anno {
	public enum Level { LOW, HIGH }
	@Retention(RetentionPolicy.RUNTIME) public @interface Rt { byte b() default 1; char c() default 'c'; double d() default 2.5; float f() default 1f; int i() default 7; long l() default 9L; short s() default 3; boolean z() default true; String str() default "s"; Level e() default Level.HIGH; Class<?> k() default Object.class; Inv nested() default @Inv("n"); int[] arr() default {1, 2}; Class<?>[] ks() default {int.class, String[].class, void.class}; }
	@Retention(RetentionPolicy.CLASS) public @interface Inv { String value(); }
	@Retention(RetentionPolicy.RUNTIME) @Target({ElementType.TYPE_USE, ElementType.TYPE_PARAMETER}) public @interface Tu { int value() default 0; }
	@Retention(RetentionPolicy.CLASS) @Target({ElementType.TYPE_USE}) public @interface Ti { }
	@Retention(RetentionPolicy.RUNTIME) @Repeatable(Tags.class) public @interface Tag { String value(); }
	@Retention(RetentionPolicy.RUNTIME) public @interface Tags { Tag[] value(); }

	@Rt(b = 2, c = 'x', d = -0.0, f = Float.NaN, i = Integer.MIN_VALUE, l = Long.MAX_VALUE, s = -1, z = false, str = "\u0000😀", e = Level.LOW, k = Map.Entry.class, nested = @Inv("deep"), arr = {}, ks = {})
	@Inv("class") @Tag("a") @Tag("b")
	public static class Target1<@Tu(1) T extends @Tu(2) Object & @Ti Comparable<@Tu(3) T>> extends @Tu(4) Object implements @Ti Runnable {
		@Rt @Inv("f") public @Tu(5) List<@Tu(6) ? extends @Ti Number> field;
		@Rt(i = 1) public <@Tu(7) U> @Tu(8) String method(@Rt(i = 2) @Inv("p0") int p0, @Inv("p1") @Tu(9) String p1, final long p2) throws @Tu(10) IllegalStateException, @Ti RuntimeException {
			@Tu(11) Object o = (@Tu(12) String) p1;
			@Ti List<@Tu(13) String> l = new java.util.@Tu(14) ArrayList<@Ti String>();
			if (o instanceof @Tu(15) String) { l.add(p1); }
			try { Runnable r = @Tu(16) Target1::new; java.util.function.Supplier<List<String>> s = java.util.ArrayList<@Tu(17) String>::new; } catch (@Tu(18) RuntimeException e) { throw e; }
			return this.<@Tu(19) String>id("x") + l;
		}
		<V> V id(V v) { return v; }
		public void run() { }
		public void receiver(@Tu(20) Target1<T> this) { }
		public @Tu(21) int @Tu(22) [] @Tu(23) [] arrays() { return null; }
	}
	public @interface WithDefault { String[] names() default {"a", "b"}; Rt rt() default @Rt; }
}
