package corpus;

import java.util.ArrayList;
import java.util.List;
import java.util.function.Function;

public class Generic {
	public static class Node<T extends Comparable<T>> {
		public T data;
		public Node(T data) { this.data = data; }
		public void setData(T d) { this.data = d; }
		public T getData() { return data; }
		public <R> Node2<R> map(Function<? super T, ? extends R> f) { return new Node2<>(f.apply(data)); }
	}
	public static class Node2<R> { R r; Node2(R r) { this.r = r; } }
	public static class MyNode extends Node<Integer> {
		public MyNode(Integer d) { super(d); }
		@Override public void setData(Integer d) { super.setData(d + 1); }
		@Override public Integer getData() { return super.getData(); }
	}
	public interface Shape { Shape copy(); double area(); }
	public static abstract class Base implements Shape, Comparable<Base> {
		@Override public Base copy() { return this; }
		@Override public int compareTo(Base o) { return Double.compare(area(), o.area()); }
	}
	public static final class Circle extends Base {
		final double r;
		Circle(double r) { this.r = r; }
		@Override public Circle copy() { return new Circle(r); }
		@Override public double area() { return Math.PI * r * r; }
	}
	public static <T extends Comparable<? super T>> T max(List<? extends T> l) {
		T best = null;
		for (T t : l) if (best == null || t.compareTo(best) > 0) best = t;
		return best;
	}
	public static List<? super Integer> sink() { return new ArrayList<Number>(); }
	@SafeVarargs public static <T> List<T> of(T... xs) { List<T> l = new ArrayList<>(); for (T x : xs) l.add(x); return l; }
}
