package corpus;

public class Switches {
	public enum Color { RED, GREEN, BLUE { @Override int weight() { return 3; } }; int weight() { return 1; } }
	public static int table(int x) { switch (x) { case 0: return 10; case 1: return 11; case 2: x++; case 3: return x; case 5: return -1; default: return 99; } }
	public static int lookup(int x) { switch (x) { case -1000000: return 1; case 7: return 2; case 1 << 20: return 3; case Integer.MAX_VALUE: return 4; default: return 0; } }
	public static int str(String s) { switch (s) { case "a": return 1; case "Aa": case "BB": return 2; case "": return 3; default: return s.hashCode(); } }
	public static int en(Color c) { switch (c) { case RED: return 1; case BLUE: return 2; default: return c.weight(); } }
	public static long loops(int n) {
		long acc = 0;
		outer:
		for (int i = 0; i < n; i++) {
			int j = 0;
			while (true) { if (j++ > i) continue outer; if ((acc & 1023) == 1023) break outer; acc += i * j; }
		}
		do { acc >>= 1; } while (acc > 100);
		return acc;
	}
	public static char chars(byte b, short s, char c, boolean z, float f, double d, long l) {
		int i = b + s + c + (z ? 1 : 0);
		f = f * 2 + i; d = d / f - l; l = (long) d ^ i; i = (int) l >>> 3;
		return (char) (i % 7 == 0 ? 'x' : f > d ? 'y' : l < 0 ? 'z' : 'w');
	}
	public static boolean cmp(Object a, Object b, int x, int y, long l, float f, double d) {
		return a == b || a != null && x < y && x <= y && x > -y && x >= 0 && l != 0 && f < 1f && d >= 2.0 && !(a instanceof String);
	}
}
