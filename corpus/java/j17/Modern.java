package corpus17;

import java.util.List;

public class Modern {
	public record Empty() { }
	public record Point(int x, @Deprecated double y) implements Comparable<Point> {
		public Point { if (x < 0) throw new IllegalArgumentException(); }
		public int compareTo(Point o) { return Integer.compare(x, o.x); }
		static Point origin() { return new Point(0, 0); }
	}
	public record Gen<T extends Number>(List<? extends T> items, T... rest) { }
	public sealed interface Expr permits Num, Add, Neg { }
	public record Num(int v) implements Expr { }
	public record Add(Expr l, Expr r) implements Expr { }
	public static final class Neg implements Expr { final Expr e; Neg(Expr e) { this.e = e; } }
	public static int eval(Expr e) {
		if (e instanceof Num n) return n.v();
		if (e instanceof Add a && a.l() != null) return eval(a.l()) + eval(a.r());
		if (e instanceof Neg g) return -eval(g.e);
		throw new AssertionError(e);
	}
	public static String text() { return """
			line one
			  "quoted" \t tab
			end\
			"""; }
	public static String sw(Object o, int k) {
		return switch (k) { case 1, 2 -> "low"; case 3 -> { String s = String.valueOf(o); yield s + k; } default -> "x" + o + k + 1L + 2.0 + 'c'; };
	}
	private int secret;
	public class InnerAccess { int peek() { return secret; } }
	interface WithPrivate { private int helper() { return 1; } default int d() { return helper(); } static int s() { return 2; } }
}
