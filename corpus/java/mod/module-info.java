module corpus.mod {
	requires transitive java.logging;
	requires static java.sql;
	exports corpusmod;
	exports corpusmod.internal to java.logging, java.sql;
	opens corpusmod.internal;
	uses java.util.spi.ToolProvider;
	provides java.util.spi.ToolProvider with corpusmod.Tool;
}
