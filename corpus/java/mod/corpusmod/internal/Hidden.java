package corpusmod.internal;
public class Hidden { public static void main(String[] a) { System.out.println(a.length); } }
