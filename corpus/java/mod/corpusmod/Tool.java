package corpusmod;
public class Tool implements java.util.spi.ToolProvider {
	public String name() { return "tool"; }
	public int run(java.io.PrintWriter out, java.io.PrintWriter err, String... args) { return args.length; }
}
