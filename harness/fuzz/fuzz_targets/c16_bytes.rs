#![no_main]
//! C16: bytes -> duke::read_class (+ write_class on acceptance) and read_class_multi into (): no panic, no abort, no huge allocation
use libfuzzer_sys::fuzz_target;

fuzz_target!(|data: &[u8]| {
	fbverif::props::c16::run_target(fbverif::props::c16::Target::DukeUnit, data);
	fbverif::props::c16::run_target(fbverif::props::c16::Target::DukeTree, data);
});
