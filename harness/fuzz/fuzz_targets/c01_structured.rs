#![no_main]
//! C01: bytes -> class model + encoding choices -> the reader must deliver exactly the model
use libfuzzer_sys::fuzz_target;

fuzz_target!(|data: &[u8]| {
	let mut obs = fbverif::engine::Obs::with_open(&["C01-empty-record", "C01-parameter-annotations"]);
	if let Err(e) = fbverif::props::c01::structured_from_bytes(data, &mut obs) {
		panic!("C01: {e}");
	}
});
