#![no_main]
//! C16: the first byte selects the text parser / descriptor parser; no panic, no abort, no huge allocation
use libfuzzer_sys::fuzz_target;

fuzz_target!(|data: &[u8]| {
	if data.is_empty() {
		return;
	}
	fbverif::props::c16::run_target(fbverif::props::c16::fuzz_text_target(data[0]), &data[1..]);
});
