#![no_main]
//! C02: a well-formed class file (strict decoder) that duke reads must be re-written to a valid file denoting the same class
use libfuzzer_sys::fuzz_target;

fuzz_target!(|data: &[u8]| {
	let mut obs = fbverif::engine::Obs::with_open(&["C02-stackmap-not-written"]);
	if let Err(e) = fbverif::props::c02::rewrite_from_bytes(data, &mut obs) {
		panic!("C02: {e}");
	}
});
