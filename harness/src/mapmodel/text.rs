//! Harness-side writers for `.tiny`, `.tinydiff` and enigma text (text quill did not produce).

use super::conv::shuffle;
use super::*;

/// comment escaping of the Tiny v2 format: backslash, newline, CR, tab, NUL
pub fn esc(s: &str) -> String {
	let mut out = String::new();
	for ch in s.chars() {
		match ch {
			'\\' => out.push_str("\\\\"),
			'\n' => out.push_str("\\n"),
			'\r' => out.push_str("\\r"),
			'\t' => out.push_str("\\t"),
			'\0' => out.push_str("\\0"),
			c => out.push(c),
		}
	}
	out
}

fn row(names: &Names) -> String {
	let mut s = String::new();
	for n in names {
		s.push('\t');
		if let Some(n) = n {
			s.push_str(n);
		}
	}
	s
}

/// Tiny v2 text of a model; `order` shuffles the order of sibling sections (0 = sorted).
pub fn tiny(m: &MapSet, order: u64) -> String {
	let mut seed = order;
	let mut out = String::from("tiny\t2\t0");
	for n in &m.ns {
		out.push('\t');
		out.push_str(n);
	}
	out.push('\n');
	let mut classes: Vec<_> = m.classes.values().collect();
	shuffle(&mut classes, &mut seed);
	for c in classes {
		out.push('c');
		out.push_str(&row(&c.names));
		out.push('\n');
		// sections of a class: comment, fields, methods in shuffled order
		let mut sections: Vec<String> = Vec::new();
		if let Some(d) = &c.doc {
			sections.push(format!("\tc\t{}\n", esc(d)));
		}
		for (k, f) in &c.fields {
			let mut s = format!("\tf\t{}{}\n", k.desc, row(&f.names));
			if let Some(d) = &f.doc {
				s.push_str(&format!("\t\tc\t{}\n", esc(d)));
			}
			sections.push(s);
		}
		for (k, me) in &c.methods {
			let mut s = format!("\tm\t{}{}\n", k.desc, row(&me.names));
			let mut sub: Vec<String> = Vec::new();
			if let Some(d) = &me.doc {
				sub.push(format!("\t\tc\t{}\n", esc(d)));
			}
			for (i, p) in &me.params {
				let mut ps = format!("\t\tp\t{}{}\n", i, row(&p.names));
				if let Some(d) = &p.doc {
					ps.push_str(&format!("\t\t\tc\t{}\n", esc(d)));
				}
				sub.push(ps);
			}
			shuffle(&mut sub, &mut seed);
			for x in sub {
				s.push_str(&x);
			}
			sections.push(s);
		}
		shuffle(&mut sections, &mut seed);
		for s in sections {
			out.push_str(&s);
		}
	}
	out
}

fn act_cols(a: &Act) -> String {
	let (x, y) = a.pair();
	format!("\t{}\t{}", x.unwrap_or(""), y.unwrap_or(""))
}
fn doc_cols(a: &Act) -> String {
	let (x, y) = a.pair();
	format!("\t{}\t{}", x.map(esc).unwrap_or_default(), y.map(esc).unwrap_or_default())
}

/// `.tinydiff` text of a diff model.
pub fn tinydiff(d: &DiffSet, order: u64) -> String {
	let mut seed = order;
	let mut out = String::from("tiny\t2\t0\n");
	let mut classes: Vec<_> = d.classes.iter().collect();
	shuffle(&mut classes, &mut seed);
	for (key, c) in classes {
		out.push_str(&format!("c\t{}{}\n", key, act_cols(&c.act)));
		let mut sections: Vec<String> = Vec::new();
		if c.doc != Act::None {
			sections.push(format!("\tc{}\n", doc_cols(&c.doc)));
		}
		for (k, f) in &c.fields {
			let mut s = format!("\tf\t{}\t{}{}\n", k.desc, k.name, act_cols(&f.act));
			if f.doc != Act::None {
				s.push_str(&format!("\t\tc{}\n", doc_cols(&f.doc)));
			}
			sections.push(s);
		}
		for (k, me) in &c.methods {
			let mut s = format!("\tm\t{}\t{}{}\n", k.desc, k.name, act_cols(&me.act));
			let mut sub: Vec<String> = Vec::new();
			if me.doc != Act::None {
				sub.push(format!("\t\tc{}\n", doc_cols(&me.doc)));
			}
			for (i, p) in &me.params {
				let mut ps = format!("\t\tp\t{}\t{}\n", i, act_cols(&p.act));
				if p.doc != Act::None {
					ps.push_str(&format!("\t\t\tc{}\n", doc_cols(&p.doc)));
				}
				sub.push(ps);
			}
			shuffle(&mut sub, &mut seed);
			for x in sub {
				s.push_str(&x);
			}
			sections.push(s);
		}
		shuffle(&mut sections, &mut seed);
		for s in sections {
			out.push_str(&s);
		}
	}
	out
}

/// Enigma text of a two-namespace model (harness side): every class whose source parent is in the
/// set is nested under it, all other classes are written at top level with their full names.
pub fn enigma(m: &MapSet) -> String {
	fn write_class(m: &MapSet, key: &str, depth: usize, top: bool, out: &mut String) {
		let c = &m.classes[key];
		let ind = "\t".repeat(depth);
		let (src, dst) = if top {
			(key.to_string(), c.names[1].clone())
		} else {
			let s = split_inner(key).map(|x| x.1).unwrap_or(key).to_string();
			let d = c.names[1].as_ref().map(|d| split_inner(d).map(|x| x.1).unwrap_or(d).to_string());
			(s, d)
		};
		out.push_str(&format!("{ind}CLASS {src}"));
		if let Some(d) = dst {
			out.push_str(&format!(" {d}"));
		}
		out.push('\n');
		if let Some(doc) = &c.doc {
			for l in doc.split('\n') {
				out.push_str(&format!("{ind}\tCOMMENT {l}\n"));
			}
		}
		for (k, f) in &c.fields {
			out.push_str(&format!("{ind}\tFIELD {}", k.name));
			if let Some(d) = &f.names[1] {
				out.push_str(&format!(" {d}"));
			}
			out.push_str(&format!(" {}\n", k.desc));
			if let Some(doc) = &f.doc {
				for l in doc.split('\n') {
					out.push_str(&format!("{ind}\t\tCOMMENT {l}\n"));
				}
			}
		}
		for (k, me) in &c.methods {
			out.push_str(&format!("{ind}\tMETHOD {}", k.name));
			if let Some(d) = &me.names[1] {
				out.push_str(&format!(" {d}"));
			}
			out.push_str(&format!(" {}\n", k.desc));
			if let Some(doc) = &me.doc {
				for l in doc.split('\n') {
					out.push_str(&format!("{ind}\t\tCOMMENT {l}\n"));
				}
			}
			for (i, p) in &me.params {
				if let Some(d) = &p.names[1] {
					out.push_str(&format!("{ind}\t\tARG {i} {d}\n"));
					if let Some(doc) = &p.doc {
						for l in doc.split('\n') {
							out.push_str(&format!("{ind}\t\t\tCOMMENT {l}\n"));
						}
					}
				}
			}
		}
		for child in m.classes.keys() {
			if let Some((p, _)) = split_inner(child) {
				if p == key {
					write_class(m, child, depth + 1, false, out);
				}
			}
		}
	}
	let mut out = String::new();
	for key in m.classes.keys() {
		let nested = split_inner(key).is_some_and(|(p, _)| m.classes.contains_key(p));
		if !nested {
			write_class(m, key, 0, true, &mut out);
		}
	}
	out
}
