//! Plain mapping model (strings + ordered maps), conversions to/from quill's trees,
//! harness-side text writers and reference operations.  Nothing here shares code with quill.

pub mod gen;
pub mod refops;
pub mod text;

use serde::{Deserialize, Serialize};
use std::collections::BTreeMap;

pub mod as_vec {
	//! serialise a BTreeMap with non-string keys as a list of pairs
	use serde::de::DeserializeOwned;
	use serde::{Deserialize, Deserializer, Serialize, Serializer};
	use std::collections::BTreeMap;
	pub fn serialize<K: Serialize + Ord, V: Serialize, S: Serializer>(m: &BTreeMap<K, V>, s: S) -> Result<S::Ok, S::Error> {
		let v: Vec<(&K, &V)> = m.iter().collect();
		v.serialize(s)
	}
	pub fn deserialize<'de, K: DeserializeOwned + Ord, V: DeserializeOwned, D: Deserializer<'de>>(d: D) -> Result<BTreeMap<K, V>, D::Error> {
		let v: Vec<(K, V)> = Vec::deserialize(d)?;
		Ok(v.into_iter().collect())
	}
}

pub type Names = Vec<Option<String>>;

#[derive(Clone, Debug, PartialEq, Eq, PartialOrd, Ord, Serialize, Deserialize)]
pub struct MemberKey {
	pub name: String,
	pub desc: String,
}

impl MemberKey {
	pub fn new(name: &str, desc: &str) -> MemberKey {
		MemberKey { name: name.to_string(), desc: desc.to_string() }
	}
}

#[derive(Clone, Debug, PartialEq, Eq, Serialize, Deserialize, Default)]
pub struct MapSet {
	pub ns: Vec<String>,
	pub classes: BTreeMap<String, MClass>,
}

#[derive(Clone, Debug, PartialEq, Eq, Serialize, Deserialize, Default)]
pub struct MClass {
	pub names: Names,
	pub doc: Option<String>,
	#[serde(with = "as_vec")]
	pub fields: BTreeMap<MemberKey, MField>,
	#[serde(with = "as_vec")]
	pub methods: BTreeMap<MemberKey, MMethod>,
}

#[derive(Clone, Debug, PartialEq, Eq, Serialize, Deserialize, Default)]
pub struct MField {
	pub names: Names,
	pub doc: Option<String>,
}

#[derive(Clone, Debug, PartialEq, Eq, Serialize, Deserialize, Default)]
pub struct MMethod {
	pub names: Names,
	pub doc: Option<String>,
	pub params: BTreeMap<usize, MParam>,
}

#[derive(Clone, Debug, PartialEq, Eq, Serialize, Deserialize, Default)]
pub struct MParam {
	pub names: Names,
	pub doc: Option<String>,
}

impl MapSet {
	pub fn n(&self) -> usize {
		self.ns.len()
	}
	pub fn count_entries(&self) -> usize {
		self.classes.values().map(|c| 1 + c.fields.len() + c.methods.values().map(|m| 1 + m.params.len()).sum::<usize>()).sum()
	}
	pub fn has_nested(&self) -> bool {
		self.classes.keys().any(|k| split_inner(k).is_some())
	}
	pub fn any_doc(&self) -> bool {
		self.classes.values().any(|c| {
			c.doc.is_some()
				|| c.fields.values().any(|f| f.doc.is_some())
				|| c.methods.values().any(|m| m.doc.is_some() || m.params.values().any(|p| p.doc.is_some()))
		})
	}
	pub fn any_member_doc(&self) -> bool {
		self.classes.values().any(|c| {
			c.fields.values().any(|f| f.doc.is_some()) || c.methods.values().any(|m| m.doc.is_some() || m.params.values().any(|p| p.doc.is_some()))
		})
	}
	/// some row has an empty cell that is followed by a non-empty cell
	pub fn has_middle_gap(&self) -> bool {
		fn gap(n: &Names) -> bool {
			(1..n.len()).any(|i| n[i].is_none() && n[i + 1..].iter().any(|x| x.is_some()))
		}
		self.classes.values().any(|c| {
			gap(&c.names) || c.fields.values().any(|f| gap(&f.names)) || c.methods.values().any(|m| gap(&m.names) || m.params.values().any(|p| gap(&p.names)))
		})
	}
	pub fn for_each_doc_mut(&mut self, mut f: impl FnMut(&mut Option<String>)) {
		for c in self.classes.values_mut() {
			f(&mut c.doc);
			for x in c.fields.values_mut() {
				f(&mut x.doc);
			}
			for m in c.methods.values_mut() {
				f(&mut m.doc);
				for p in m.params.values_mut() {
					f(&mut p.doc);
				}
			}
		}
	}
	pub fn all_docs(&self) -> Vec<&str> {
		let mut v = Vec::new();
		for c in self.classes.values() {
			v.extend(c.doc.as_deref());
			for x in c.fields.values() {
				v.extend(x.doc.as_deref());
			}
			for m in c.methods.values() {
				v.extend(m.doc.as_deref());
				for p in m.params.values() {
					v.extend(p.doc.as_deref());
				}
			}
		}
		v
	}
}

/// Reference split of a nested class name at the last `$`: both sides non-empty, the parent does
/// not end a package part (`a/$b` is not nested) and the inner part has no `/`.
pub fn split_inner(name: &str) -> Option<(&str, &str)> {
	let pos = name.rfind('$')?;
	let (parent, inner) = (&name[..pos], &name[pos + 1..]);
	if parent.is_empty() || inner.is_empty() || parent.ends_with('/') || inner.contains('/') {
		None
	} else {
		Some((parent, inner))
	}
}

pub fn nesting_depth(name: &str) -> usize {
	let mut d = 0;
	let mut cur = name;
	while let Some((p, _)) = split_inner(cur) {
		d += 1;
		cur = p;
	}
	d
}

// ---------------------------------------------------------------------------------------------
// diffs

#[derive(Clone, Debug, PartialEq, Eq, Serialize, Deserialize, Default)]
pub enum Act {
	#[default]
	None,
	Add(String),
	Remove(String),
	Edit(String, String),
}

impl Act {
	pub fn from_pair(a: Option<String>, b: Option<String>) -> Act {
		match (a, b) {
			(None, None) => Act::None,
			(None, Some(b)) => Act::Add(b),
			(Some(a), None) => Act::Remove(a),
			(Some(a), Some(b)) => Act::Edit(a, b),
		}
	}
	pub fn pair(&self) -> (Option<&str>, Option<&str>) {
		match self {
			Act::None => (None, None),
			Act::Add(b) => (None, Some(b)),
			Act::Remove(a) => (Some(a), None),
			Act::Edit(a, b) => (Some(a), Some(b)),
		}
	}
	pub fn is_change(&self) -> bool {
		match self {
			Act::None => false,
			Act::Edit(a, b) => a != b,
			_ => true,
		}
	}
	/// Edit(a,a) == None
	pub fn normalised(&self) -> Act {
		match self {
			Act::Edit(a, b) if a == b => Act::None,
			x => x.clone(),
		}
	}
	pub fn kind(&self) -> &'static str {
		match self {
			Act::None => "none",
			Act::Add(_) => "add",
			Act::Remove(_) => "remove",
			Act::Edit(_, _) => "edit",
		}
	}
}

#[derive(Clone, Debug, PartialEq, Eq, Serialize, Deserialize, Default)]
pub struct DiffSet {
	pub classes: BTreeMap<String, DClass>,
}

#[derive(Clone, Debug, PartialEq, Eq, Serialize, Deserialize, Default)]
pub struct DClass {
	pub act: Act,
	pub doc: Act,
	#[serde(with = "as_vec")]
	pub fields: BTreeMap<MemberKey, DField>,
	#[serde(with = "as_vec")]
	pub methods: BTreeMap<MemberKey, DMethod>,
}

#[derive(Clone, Debug, PartialEq, Eq, Serialize, Deserialize, Default)]
pub struct DField {
	pub act: Act,
	pub doc: Act,
}

#[derive(Clone, Debug, PartialEq, Eq, Serialize, Deserialize, Default)]
pub struct DMethod {
	pub act: Act,
	pub doc: Act,
	pub params: BTreeMap<usize, DParam>,
}

#[derive(Clone, Debug, PartialEq, Eq, Serialize, Deserialize, Default)]
pub struct DParam {
	pub act: Act,
	pub doc: Act,
}

impl DiffSet {
	pub fn normalised(&self) -> DiffSet {
		let mut d = self.clone();
		for c in d.classes.values_mut() {
			c.act = c.act.normalised();
			c.doc = c.doc.normalised();
			for f in c.fields.values_mut() {
				f.act = f.act.normalised();
				f.doc = f.doc.normalised();
			}
			for m in c.methods.values_mut() {
				m.act = m.act.normalised();
				m.doc = m.doc.normalised();
				for p in m.params.values_mut() {
					p.act = p.act.normalised();
					p.doc = p.doc.normalised();
				}
			}
		}
		d
	}
}

// ---------------------------------------------------------------------------------------------
// conversions to and from quill

pub mod conv {
	use super::*;
	use anyhow::{anyhow, bail, Context, Result};
	use duke::tree::class::ObjClassName;
	use duke::tree::field::{FieldDescriptor, FieldName, FieldNameAndDesc};
	use duke::tree::method::{MethodDescriptor, MethodName, MethodNameAndDesc, ParameterName};
	use java_string::{JavaStr, JavaString};
	use quill::tree::mappings::*;
	use quill::tree::mappings_diff::*;
	use quill::tree::names::{Names as QNames, Namespaces};
	use quill::tree::NodeInfo;

	/// The plain model keeps names in Rust strings, which cannot hold an unpaired surrogate; these two private-use characters
	/// stand for U+D800 and U+DFFF on the way into and out of quill's / duke's JavaString based types.
	pub const LONE_HI: char = '\u{E000}';
	pub const LONE_LO: char = '\u{E001}';
	pub fn js(s: &str) -> JavaString {
		if !s.contains([LONE_HI, LONE_LO]) {
			return JavaString::from(s.to_string());
		}
		let mut out = JavaString::new();
		for c in s.chars() {
			match c {
				LONE_HI => out.push_java(java_string::JavaCodePoint::from_u32(0xD800).unwrap()),
				LONE_LO => out.push_java(java_string::JavaCodePoint::from_u32(0xDFFF).unwrap()),
				c => out.push(c),
			}
		}
		out
	}
	pub fn class_name(s: &str) -> Result<ObjClassName> {
		ObjClassName::try_from(js(s))
	}
	pub fn jstr_to_string(s: &JavaStr) -> Result<String> {
		if let Ok(x) = s.as_str() {
			return Ok(x.to_string());
		}
		s.chars()
			.map(|cp| match cp.as_u32() {
				0xD800 => Ok(LONE_HI),
				0xDFFF => Ok(LONE_LO),
				v => char::from_u32(v).ok_or_else(|| anyhow!("surrogate U+{v:04X} has no stand-in in the plain model")),
			})
			.collect()
	}

	fn qnames<const N: usize, T>(names: &Names, f: impl Fn(&str) -> Result<T>) -> Result<QNames<N, T>>
	where
		T: AsRef<JavaStr> + std::fmt::Debug,
	{
		if names.len() != N {
			bail!("model row has {} names, expected {N}", names.len());
		}
		let mut v: Vec<Option<T>> = Vec::new();
		for n in names {
			v.push(match n {
				Some(n) => Some(f(n)?),
				None => None,
			});
		}
		let arr: [Option<T>; N] = v.try_into().map_err(|_| anyhow!("length"))?;
		QNames::try_from(arr)
	}

	/// deterministic shuffle driven by a generated seed (0 = keep order)
	pub fn shuffle<T>(v: &mut [T], seed: &mut u64) {
		if *seed == 0 {
			return;
		}
		for i in (1..v.len()).rev() {
			*seed = seed.wrapping_mul(6364136223846793005).wrapping_add(1442695040888963407);
			let j = ((*seed >> 33) as usize) % (i + 1);
			v.swap(i, j);
		}
	}

	/// Build quill mappings from the model; `order` drives the insertion order of every map.
	pub fn to_quill<const N: usize, Ns>(m: &MapSet, order: u64) -> Result<Mappings<N, Ns>> {
		if m.ns.len() != N {
			bail!("model has {} namespaces, expected {N}", m.ns.len());
		}
		let mut seed = order;
		let arr: [String; N] = m.ns.clone().try_into().map_err(|_| anyhow!("ns length"))?;
		let namespaces: Namespaces<N, Ns> = Namespaces::try_from(arr)?;
		let mut out: Mappings<N, Ns> = Mappings::new(MappingInfo { namespaces });
		let mut classes: Vec<(&String, &MClass)> = m.classes.iter().collect();
		shuffle(&mut classes, &mut seed);
		for (key, c) in classes {
			if c.names[0].as_deref() != Some(key.as_str()) {
				bail!("model invariant: class key {key:?} != first name {:?}", c.names[0]);
			}
			let mut qc: ClassNowodeMapping<N> = ClassNowodeMapping::new(ClassMapping { names: qnames(&c.names, class_name)? });
			qc.javadoc = c.doc.clone().map(JavadocMapping);
			let mut fields: Vec<_> = c.fields.iter().collect();
			shuffle(&mut fields, &mut seed);
			for (k, f) in fields {
				let desc = FieldDescriptor::try_from(js(&k.desc))?;
				let mut qf: FieldNowodeMapping<N> =
					FieldNowodeMapping::new(FieldMapping { desc: desc.clone(), names: qnames(&f.names, |s| FieldName::try_from(js(s)))? });
				qf.javadoc = f.doc.clone().map(JavadocMapping);
				let key = FieldNameAndDesc { desc, name: FieldName::try_from(js(&k.name))? };
				if qc.fields.insert(key, qf).is_some() {
					bail!("duplicate field key");
				}
			}
			let mut methods: Vec<_> = c.methods.iter().collect();
			shuffle(&mut methods, &mut seed);
			for (k, me) in methods {
				let desc = MethodDescriptor::try_from(js(&k.desc))?;
				let mut qm: MethodNowodeMapping<N> =
					MethodNowodeMapping::new(MethodMapping { desc: desc.clone(), names: qnames(&me.names, |s| MethodName::try_from(js(s)))? });
				qm.javadoc = me.doc.clone().map(JavadocMapping);
				let mut params: Vec<_> = me.params.iter().collect();
				shuffle(&mut params, &mut seed);
				for (index, p) in params {
					let mut qp: ParameterNowodeMapping<N> =
						ParameterNowodeMapping::new(ParameterMapping { index: *index, names: qnames(&p.names, |s| ParameterName::try_from(js(s)))? });
					qp.javadoc = p.doc.clone().map(JavadocMapping);
					qm.parameters.insert(ParameterKey { index: *index }, qp);
				}
				let key = MethodNameAndDesc { desc, name: MethodName::try_from(js(&k.name))? };
				if qc.methods.insert(key, qm).is_some() {
					bail!("duplicate method key");
				}
			}
			out.classes.insert(class_name(key)?, qc);
		}
		Ok(out)
	}

	fn names_from<const N: usize, T: AsRef<JavaStr>>(n: &QNames<N, T>) -> Result<Names> {
		let arr: &[Option<T>; N] = n.into();
		arr.iter().map(|x| x.as_ref().map(|x| jstr_to_string(x.as_ref())).transpose()).collect()
	}

	/// Project quill mappings into the model; fails when a map key disagrees with the entry's own
	/// first name / descriptor / index (an entry filed under the wrong key).
	pub fn from_quill<const N: usize, Ns>(q: &Mappings<N, Ns>) -> Result<MapSet> {
		let ns: &[String; N] = (&q.info.namespaces).into();
		let mut m = MapSet { ns: ns.to_vec(), classes: BTreeMap::new() };
		// the comment of the set itself has no slot in the plain model: the checks that speak about it (C03, C04, C08, C09,
		// C11) compare `javadoc` themselves
		for (key, c) in &q.classes {
			let key = jstr_to_string(key.as_inner())?;
			let names = names_from(&c.info.names)?;
			if names[0].as_deref() != Some(key.as_str()) {
				bail!("class filed under key {key:?} but its first name is {:?}", names[0]);
			}
			let mut mc = MClass { names, doc: c.javadoc.as_ref().map(|d| d.0.clone()), ..Default::default() };
			for (k, f) in &c.fields {
				let mk = MemberKey { name: jstr_to_string(k.name.as_inner())?, desc: jstr_to_string(k.desc.as_inner())? };
				let names = names_from(&f.info.names)?;
				if names[0].as_deref() != Some(mk.name.as_str()) || f.info.desc.as_inner() != k.desc.as_inner() {
					bail!("field filed under key {mk:?} but entry says {:?} {:?}", names[0], f.info.desc);
				}
				if mc.fields.insert(mk.clone(), MField { names, doc: f.javadoc.as_ref().map(|d| d.0.clone()) }).is_some() {
					bail!("duplicate field {mk:?}");
				}
			}
			for (k, me) in &c.methods {
				let mk = MemberKey { name: jstr_to_string(k.name.as_inner())?, desc: jstr_to_string(k.desc.as_inner())? };
				let names = names_from(&me.info.names)?;
				if names[0].as_deref() != Some(mk.name.as_str()) || me.info.desc.as_inner() != k.desc.as_inner() {
					bail!("method filed under key {mk:?} but entry says {:?} {:?}", names[0], me.info.desc);
				}
				let mut mm = MMethod { names, doc: me.javadoc.as_ref().map(|d| d.0.clone()), params: BTreeMap::new() };
				for (pk, p) in &me.parameters {
					if pk.index != p.info.index {
						bail!("parameter filed under index {} but entry says {}", pk.index, p.info.index);
					}
					mm.params.insert(pk.index, MParam { names: names_from(&p.info.names)?, doc: p.javadoc.as_ref().map(|d| d.0.clone()) });
				}
				if mc.methods.insert(mk.clone(), mm).is_some() {
					bail!("duplicate method {mk:?}");
				}
			}
			if m.classes.insert(key.clone(), mc).is_some() {
				bail!("duplicate class {key:?}");
			}
		}
		Ok(m)
	}

	fn qact<T>(a: &Act, f: impl Fn(&str) -> Result<T>) -> Result<Action<T>> {
		Ok(match a {
			Act::None => Action::None,
			Act::Add(b) => Action::Add(f(b)?),
			Act::Remove(a) => Action::Remove(f(a)?),
			Act::Edit(a, b) => Action::Edit(f(a)?, f(b)?),
		})
	}
	fn doc_act(a: &Act) -> Action<JavadocMapping> {
		match a {
			Act::None => Action::None,
			Act::Add(b) => Action::Add(JavadocMapping(b.clone())),
			Act::Remove(a) => Action::Remove(JavadocMapping(a.clone())),
			Act::Edit(a, b) => Action::Edit(JavadocMapping(a.clone()), JavadocMapping(b.clone())),
		}
	}

	pub fn diff_to_quill(d: &DiffSet, order: u64) -> Result<MappingsDiff> {
		let mut seed = order;
		let mut out = MappingsDiff::default();
		let mut classes: Vec<_> = d.classes.iter().collect();
		shuffle(&mut classes, &mut seed);
		for (key, c) in classes {
			let mut qc = ClassNowodeDiff::new(qact(&c.act, class_name)?);
			qc.javadoc = doc_act(&c.doc);
			let mut fields: Vec<_> = c.fields.iter().collect();
			shuffle(&mut fields, &mut seed);
			for (k, f) in fields {
				let mut qf = FieldNowodeDiff::new(qact(&f.act, |s| FieldName::try_from(js(s)))?);
				qf.javadoc = doc_act(&f.doc);
				qc.fields.insert(FieldNameAndDesc { desc: FieldDescriptor::try_from(js(&k.desc))?, name: FieldName::try_from(js(&k.name))? }, qf);
			}
			let mut methods: Vec<_> = c.methods.iter().collect();
			shuffle(&mut methods, &mut seed);
			for (k, me) in methods {
				let mut qm = MethodNowodeDiff::new(qact(&me.act, |s| MethodName::try_from(js(s)))?);
				qm.javadoc = doc_act(&me.doc);
				let mut params: Vec<_> = me.params.iter().collect();
				shuffle(&mut params, &mut seed);
				for (i, p) in params {
					let mut qp = ParameterNowodeDiff::new(qact(&p.act, |s| ParameterName::try_from(js(s)))?);
					qp.javadoc = doc_act(&p.doc);
					qm.parameters.insert(ParameterKey { index: *i }, qp);
				}
				qc.methods.insert(MethodNameAndDesc { desc: MethodDescriptor::try_from(js(&k.desc))?, name: MethodName::try_from(js(&k.name))? }, qm);
			}
			out.classes.insert(class_name(key)?, qc);
		}
		Ok(out)
	}

	fn mact<T: AsRef<JavaStr>>(a: &Action<T>) -> Result<Act> {
		Ok(match a {
			Action::None => Act::None,
			Action::Add(b) => Act::Add(jstr_to_string(b.as_ref())?),
			Action::Remove(a) => Act::Remove(jstr_to_string(a.as_ref())?),
			Action::Edit(a, b) => Act::Edit(jstr_to_string(a.as_ref())?, jstr_to_string(b.as_ref())?),
		})
	}
	fn mdoc(a: &Action<JavadocMapping>) -> Act {
		match a {
			Action::None => Act::None,
			Action::Add(b) => Act::Add(b.0.clone()),
			Action::Remove(a) => Act::Remove(a.0.clone()),
			Action::Edit(a, b) => Act::Edit(a.0.clone(), b.0.clone()),
		}
	}

	pub fn diff_from_quill(q: &MappingsDiff) -> Result<DiffSet> {
		let mut d = DiffSet::default();
		if q.info != Action::None {
			bail!("diff has a namespace action {:?}", q.info);
		}
		// the action for the comment of the set itself has no slot in the plain model: C04 looks at it directly
		for (key, c) in &q.classes {
			let mut dc = DClass { act: mact(&c.info)?, doc: mdoc(&c.javadoc), ..Default::default() };
			for (k, f) in &c.fields {
				dc.fields.insert(
					MemberKey { name: jstr_to_string(k.name.as_inner())?, desc: jstr_to_string(k.desc.as_inner())? },
					DField { act: mact(&f.info)?, doc: mdoc(&f.javadoc) },
				);
			}
			for (k, me) in &c.methods {
				let mut dm = DMethod { act: mact(&me.info)?, doc: mdoc(&me.javadoc), params: BTreeMap::new() };
				for (pk, p) in &me.parameters {
					dm.params.insert(pk.index, DParam { act: mact(&p.info)?, doc: mdoc(&p.javadoc) });
				}
				dc.methods.insert(MemberKey { name: jstr_to_string(k.name.as_inner())?, desc: jstr_to_string(k.desc.as_inner())? }, dm);
			}
			d.classes.insert(jstr_to_string(key.as_inner()).context("class key")?, dc);
		}
		Ok(d)
	}
}
