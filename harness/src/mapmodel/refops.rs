//! Reference operations on the plain model, written from the property statements.

use super::*;
use std::collections::{BTreeMap, BTreeSet, VecDeque};

// ---------------------------------------------------------------------------------------------
// diff / apply

/// diff(A,B) in target namespace 1; `None` when an entry lacks the target name (precondition of diff)
pub fn diff(a: &MapSet, b: &MapSet) -> Option<DiffSet> {
	diff_with(a, b, false)
}

/// What a `.tinydiff` *text* can express between A and B when entries may lack the target name: an entry present on
/// both sides and unnamed on both carries no action of its own (its children may), one that gains its name is an
/// addition of the name to the existing entry. `None` when the step cannot be written down: an entry that is dropped or
/// added without a name, or that loses its name but stays (a removal takes the subtree along).
pub fn diff_partial(a: &MapSet, b: &MapSet) -> Option<DiffSet> {
	diff_with(a, b, true)
}

fn diff_with(a: &MapSet, b: &MapSet, partial: bool) -> Option<DiffSet> {
	let name_act = move |a: Option<&Names>, b: Option<&Names>| -> Option<Act> {
		Some(match (a, b) {
			(Some(a), None) => Act::Remove(a[1].clone()?),
			(None, Some(b)) => Act::Add(b[1].clone()?),
			(Some(a), Some(b)) if partial => match (a[1].clone(), b[1].clone()) {
				(None, None) => Act::None,
				(None, Some(y)) => Act::Add(y),
				(Some(_), None) => return None,
				(Some(x), Some(y)) => Act::Edit(x, y),
			},
			(Some(a), Some(b)) => Act::Edit(a[1].clone()?, b[1].clone()?),
			(None, None) => unreachable!(),
		})
	};
	fn doc_act(a: Option<&Option<String>>, b: Option<&Option<String>>) -> Act {
		Act::from_pair(a.cloned().flatten(), b.cloned().flatten())
	}
	fn keys<K: Ord + Clone, V>(a: Option<&BTreeMap<K, V>>, b: Option<&BTreeMap<K, V>>) -> BTreeSet<K> {
		a.into_iter().flat_map(|m| m.keys()).chain(b.into_iter().flat_map(|m| m.keys())).cloned().collect()
	}
	let mut d = DiffSet::default();
	for ck in keys(Some(&a.classes), Some(&b.classes)) {
		let (ca, cb) = (a.classes.get(&ck), b.classes.get(&ck));
		let mut dc = DClass { act: name_act(ca.map(|c| &c.names), cb.map(|c| &c.names))?, doc: doc_act(ca.map(|c| &c.doc), cb.map(|c| &c.doc)), ..Default::default() };
		for fk in keys(ca.map(|c| &c.fields), cb.map(|c| &c.fields)) {
			let (fa, fb) = (ca.and_then(|c| c.fields.get(&fk)), cb.and_then(|c| c.fields.get(&fk)));
			dc.fields.insert(fk, DField { act: name_act(fa.map(|f| &f.names), fb.map(|f| &f.names))?, doc: doc_act(fa.map(|f| &f.doc), fb.map(|f| &f.doc)) });
		}
		for mk in keys(ca.map(|c| &c.methods), cb.map(|c| &c.methods)) {
			let (ma, mb) = (ca.and_then(|c| c.methods.get(&mk)), cb.and_then(|c| c.methods.get(&mk)));
			let mut dm = DMethod { act: name_act(ma.map(|f| &f.names), mb.map(|f| &f.names))?, doc: doc_act(ma.map(|f| &f.doc), mb.map(|f| &f.doc)), params: BTreeMap::new() };
			for pk in keys(ma.map(|m| &m.params), mb.map(|m| &m.params)) {
				let (pa, pb) = (ma.and_then(|m| m.params.get(&pk)), mb.and_then(|m| m.params.get(&pk)));
				dm.params.insert(pk, DParam { act: name_act(pa.map(|f| &f.names), pb.map(|f| &f.names))?, doc: doc_act(pa.map(|f| &f.doc), pb.map(|f| &f.doc)) });
			}
			dc.methods.insert(mk, dm);
		}
		d.classes.insert(ck, dc);
	}
	Some(d)
}

#[derive(Clone, Debug, PartialEq)]
pub enum Applied {
	Ok(MapSet),
	/// the statement demands refusal; the string says why
	Refuse(String),
}

#[derive(Default, Debug)]
pub struct ApplyNotes {
	/// the diff contains a node about which the statement is silent (None node on an absent target,
	/// child diffs below a removed node): either outcome of the implementation is accepted
	pub unspecified: bool,
	/// a None node addresses an absent target: even an Ok result of the implementation is unchecked
	pub none_on_absent: bool,
}

pub fn apply_opt(act: &Act, target: &Option<String>, what: &str) -> Result<Option<String>, String> {
	match act {
		Act::None => Ok(target.clone()),
		Act::Add(b) => match target {
			Some(t) => Err(format!("{what}: add {b:?} collides with existing {t:?}")),
			None => Ok(Some(b.clone())),
		},
		Act::Remove(a) => match target {
			Some(t) if t == a => Ok(None),
			Some(t) => Err(format!("{what}: remove {a:?} does not match {t:?}")),
			None => Err(format!("{what}: remove {a:?} on absent target")),
		},
		Act::Edit(a, b) => match target {
			Some(t) if t == a => Ok(Some(b.clone())),
			Some(t) => Err(format!("{what}: edit from {a:?} does not match {t:?}")),
			None => Err(format!("{what}: edit from {a:?} on absent target")),
		},
	}
}

enum NodeStep {
	Keep,
	Removed,
}

/// applies a name action to an existing row
fn apply_name(act: &Act, names: &mut Names, ns: usize, what: &str) -> Result<NodeStep, String> {
	match act {
		Act::None => Ok(NodeStep::Keep),
		Act::Remove(_) => {
			apply_opt(act, &names[ns], what)?;
			Ok(NodeStep::Removed)
		}
		_ => {
			names[ns] = apply_opt(act, &names[ns], what)?;
			Ok(NodeStep::Keep)
		}
	}
}

pub fn apply(d: &DiffSet, m: &MapSet, ns: usize, notes: &mut ApplyNotes) -> Applied {
	match apply_inner(d, m, ns, notes) {
		Ok(m) => Applied::Ok(m),
		Err(e) => Applied::Refuse(e),
	}
}

fn new_row(n: usize, first: Option<&str>, ns: usize, name: &str) -> Names {
	let mut row: Names = vec![None; n];
	row[0] = first.map(|s| s.to_string());
	row[ns] = Some(name.to_string());
	row
}

fn apply_inner(d: &DiffSet, m: &MapSet, ns: usize, notes: &mut ApplyNotes) -> Result<MapSet, String> {
	let n = m.ns.len();
	let mut out = m.clone();
	let mut first_err: Option<String> = None;
	let mut err = |e: String, first_err: &mut Option<String>| {
		if first_err.is_none() {
			*first_err = Some(e);
		}
	};
	for (ck, dc) in &d.classes {
		let what = format!("class {ck}");
		let mut class = match out.classes.remove(ck) {
			Some(mut c) => match apply_name(&dc.act, &mut c.names, ns, &what) {
				Ok(NodeStep::Keep) => c,
				Ok(NodeStep::Removed) => {
					if dc.doc != Act::None || !dc.fields.is_empty() || !dc.methods.is_empty() {
						notes.unspecified = true;
					}
					continue;
				}
				Err(e) => {
					err(e, &mut first_err);
					continue;
				}
			},
			None => match &dc.act {
				Act::Add(b) => MClass { names: new_row(n, Some(ck), ns, b), ..Default::default() },
				Act::None => {
					notes.unspecified = true;
					notes.none_on_absent = true;
					continue;
				}
				other => {
					err(format!("{what}: {} on absent target", other.kind()), &mut first_err);
					continue;
				}
			},
		};
		match apply_opt(&dc.doc, &class.doc, &format!("{what} comment")) {
			Ok(x) => class.doc = x,
			Err(e) => err(e, &mut first_err),
		}
		for (fk, df) in &dc.fields {
			let what = format!("{what} field {fk:?}");
			let mut field = match class.fields.remove(fk) {
				Some(mut f) => match apply_name(&df.act, &mut f.names, ns, &what) {
					Ok(NodeStep::Keep) => f,
					Ok(NodeStep::Removed) => {
						if df.doc != Act::None {
							notes.unspecified = true;
						}
						continue;
					}
					Err(e) => {
						err(e, &mut first_err);
						continue;
					}
				},
				None => match &df.act {
					Act::Add(b) => MField { names: new_row(n, Some(&fk.name), ns, b), doc: None },
					Act::None => {
						notes.unspecified = true;
						notes.none_on_absent = true;
						continue;
					}
					other => {
						err(format!("{what}: {} on absent target", other.kind()), &mut first_err);
						continue;
					}
				},
			};
			match apply_opt(&df.doc, &field.doc, &format!("{what} comment")) {
				Ok(x) => field.doc = x,
				Err(e) => err(e, &mut first_err),
			}
			class.fields.insert(fk.clone(), field);
		}
		for (mk, dm) in &dc.methods {
			let what = format!("{what} method {mk:?}");
			let mut method = match class.methods.remove(mk) {
				Some(mut x) => match apply_name(&dm.act, &mut x.names, ns, &what) {
					Ok(NodeStep::Keep) => x,
					Ok(NodeStep::Removed) => {
						if dm.doc != Act::None || !dm.params.is_empty() {
							notes.unspecified = true;
						}
						continue;
					}
					Err(e) => {
						err(e, &mut first_err);
						continue;
					}
				},
				None => match &dm.act {
					Act::Add(b) => MMethod { names: new_row(n, Some(&mk.name), ns, b), doc: None, params: BTreeMap::new() },
					Act::None => {
						notes.unspecified = true;
						notes.none_on_absent = true;
						continue;
					}
					other => {
						err(format!("{what}: {} on absent target", other.kind()), &mut first_err);
						continue;
					}
				},
			};
			match apply_opt(&dm.doc, &method.doc, &format!("{what} comment")) {
				Ok(x) => method.doc = x,
				Err(e) => err(e, &mut first_err),
			}
			for (pk, dp) in &dm.params {
				let what = format!("{what} param {pk}");
				let mut param = match method.params.remove(pk) {
					Some(mut x) => match apply_name(&dp.act, &mut x.names, ns, &what) {
						Ok(NodeStep::Keep) => x,
						Ok(NodeStep::Removed) => {
							if dp.doc != Act::None {
								notes.unspecified = true;
							}
							continue;
						}
						Err(e) => {
							err(e, &mut first_err);
							continue;
						}
					},
					None => match &dp.act {
						Act::Add(b) => MParam { names: new_row(n, None, ns, b), doc: None },
						Act::None => {
							notes.unspecified = true;
							notes.none_on_absent = true;
							continue;
						}
						other => {
							err(format!("{what}: {} on absent target", other.kind()), &mut first_err);
							continue;
						}
					},
				};
				match apply_opt(&dp.doc, &param.doc, &format!("{what} comment")) {
					Ok(x) => param.doc = x,
					Err(e) => err(e, &mut first_err),
				}
				method.params.insert(*pk, param);
			}
			class.methods.insert(mk.clone(), method);
		}
		out.classes.insert(ck.clone(), class);
	}
	match first_err {
		Some(e) => Err(e),
		None => Ok(out),
	}
}

// ---------------------------------------------------------------------------------------------
// descriptors

/// rewrite every `L<name>;` segment of a (valid) descriptor
pub fn map_desc(desc: &str, f: &dyn Fn(&str) -> String) -> String {
	let mut out = String::new();
	let mut rest = desc;
	while let Some(pos) = rest.find('L') {
		// a class segment starts at an `L` that is in "type position": everything before was
		// primitives / brackets / parens, which never contain `L`
		out.push_str(&rest[..=pos]);
		let after = &rest[pos + 1..];
		let end = after.find(';').expect("valid descriptor");
		out.push_str(&f(&after[..end]));
		out.push(';');
		rest = &after[end + 1..];
	}
	out.push_str(rest);
	out
}

pub fn class_segments(desc: &str) -> Vec<String> {
	let v = std::cell::RefCell::new(Vec::new());
	map_desc(desc, &|c| {
		v.borrow_mut().push(c.to_string());
		c.to_string()
	});
	v.into_inner()
}

/// the shape of a descriptor: class names blanked
pub fn shape(desc: &str) -> String {
	map_desc(desc, &|_| String::new())
}

// ---------------------------------------------------------------------------------------------
// reorder

/// `perm[new] = old`
pub fn reorder(m: &MapSet, perm: &[usize]) -> Result<MapSet, String> {
	let first = perm[0];
	let table: BTreeMap<&str, &str> = m.classes.values().filter_map(|c| Some((c.names[0].as_deref()?, c.names[first].as_deref()?))).collect();
	let f = |c: &str| table.get(c).map(|s| s.to_string()).unwrap_or_else(|| c.to_string());
	let row = |names: &Names| -> Names { perm.iter().map(|&o| names[o].clone()).collect() };
	let mut out = MapSet { ns: perm.iter().map(|&o| m.ns[o].clone()).collect(), classes: BTreeMap::new() };
	for (ck, c) in &m.classes {
		let names = row(&c.names);
		let key = names[0].clone().ok_or_else(|| format!("class {ck} has no name in new first namespace"))?;
		let mut nc = MClass { names, doc: c.doc.clone(), ..Default::default() };
		for (fk, fl) in &c.fields {
			let names = row(&fl.names);
			let name = names[0].clone().ok_or_else(|| format!("field {fk:?} has no name in new first namespace"))?;
			let k = MemberKey { name, desc: map_desc(&fk.desc, &f) };
			if nc.fields.insert(k.clone(), MField { names, doc: fl.doc.clone() }).is_some() {
				return Err(format!("duplicate field key {k:?} after reorder"));
			}
		}
		for (mk, me) in &c.methods {
			let names = row(&me.names);
			let name = names[0].clone().ok_or_else(|| format!("method {mk:?} has no name in new first namespace"))?;
			let k = MemberKey { name, desc: map_desc(&mk.desc, &f) };
			let params = me.params.iter().map(|(i, p)| (*i, MParam { names: row(&p.names), doc: p.doc.clone() })).collect();
			if nc.methods.insert(k.clone(), MMethod { names, doc: me.doc.clone(), params }).is_some() {
				return Err(format!("duplicate method key {k:?} after reorder"));
			}
		}
		if out.classes.insert(key.clone(), nc).is_some() {
			return Err(format!("duplicate class key {key} after reorder"));
		}
	}
	Ok(out)
}

// ---------------------------------------------------------------------------------------------
// merge

pub fn merge(a: &MapSet, b: &MapSet) -> Result<MapSet, String> {
	if a.ns[0] != b.ns[0] {
		return Err("first namespaces differ".into());
	}
	fn names(a: Option<&Names>, b: Option<&Names>) -> Result<Names, String> {
		match (a, b) {
			(Some(a), None) => Ok(vec![a[0].clone(), a[1].clone(), None]),
			(None, Some(b)) => Ok(vec![b[0].clone(), None, b[1].clone()]),
			(Some(a), Some(b)) => {
				if a[0] != b[0] {
					return Err(format!("first names differ: {:?} vs {:?}", a[0], b[0]));
				}
				Ok(vec![a[0].clone(), a[1].clone(), b[1].clone()])
			}
			(None, None) => unreachable!(),
		}
	}
	fn doc(a: Option<&Option<String>>, b: Option<&Option<String>>) -> Result<Option<String>, String> {
		match (a.cloned().flatten(), b.cloned().flatten()) {
			(None, None) => Ok(None),
			(Some(x), None) | (None, Some(x)) => Ok(Some(x)),
			(Some(x), Some(y)) if x == y => Ok(Some(x)),
			(Some(x), Some(y)) => Err(format!("comments differ: {x:?} vs {y:?}")),
		}
	}
	fn keys<K: Ord + Clone, V>(a: Option<&BTreeMap<K, V>>, b: Option<&BTreeMap<K, V>>) -> BTreeSet<K> {
		a.into_iter().flat_map(|m| m.keys()).chain(b.into_iter().flat_map(|m| m.keys())).cloned().collect()
	}
	let mut out = MapSet { ns: vec![a.ns[0].clone(), a.ns[1].clone(), b.ns[1].clone()], classes: BTreeMap::new() };
	for ck in keys(Some(&a.classes), Some(&b.classes)) {
		let (ca, cb) = (a.classes.get(&ck), b.classes.get(&ck));
		let mut c = MClass { names: names(ca.map(|c| &c.names), cb.map(|c| &c.names))?, doc: doc(ca.map(|c| &c.doc), cb.map(|c| &c.doc))?, ..Default::default() };
		for fk in keys(ca.map(|c| &c.fields), cb.map(|c| &c.fields)) {
			let (fa, fb) = (ca.and_then(|c| c.fields.get(&fk)), cb.and_then(|c| c.fields.get(&fk)));
			c.fields.insert(fk, MField { names: names(fa.map(|f| &f.names), fb.map(|f| &f.names))?, doc: doc(fa.map(|f| &f.doc), fb.map(|f| &f.doc))? });
		}
		for mk in keys(ca.map(|c| &c.methods), cb.map(|c| &c.methods)) {
			let (ma, mb) = (ca.and_then(|c| c.methods.get(&mk)), cb.and_then(|c| c.methods.get(&mk)));
			let mut me = MMethod { names: names(ma.map(|f| &f.names), mb.map(|f| &f.names))?, doc: doc(ma.map(|f| &f.doc), mb.map(|f| &f.doc))?, params: BTreeMap::new() };
			for pk in keys(ma.map(|m| &m.params), mb.map(|m| &m.params)) {
				let (pa, pb) = (ma.and_then(|m| m.params.get(&pk)), mb.and_then(|m| m.params.get(&pk)));
				me.params.insert(pk, MParam { names: names(pa.map(|f| &f.names), pb.map(|f| &f.names))?, doc: doc(pa.map(|f| &f.doc), pb.map(|f| &f.doc))? });
			}
			c.methods.insert(mk, me);
		}
		out.classes.insert(ck, c);
	}
	Ok(out)
}

/// projection of a 3-namespace merge result back onto (s, column)
pub fn project(m: &MapSet, col: usize, keys_of: &MapSet) -> MapSet {
	let row = |n: &Names| vec![n[0].clone(), n[col].clone()];
	let mut out = MapSet { ns: vec![m.ns[0].clone(), m.ns[col].clone()], classes: BTreeMap::new() };
	for (ck, kc) in &keys_of.classes {
		let Some(c) = m.classes.get(ck) else { continue };
		let mut nc = MClass { names: row(&c.names), doc: kc.doc.as_ref().and(c.doc.clone()), ..Default::default() };
		for (fk, kf) in &kc.fields {
			if let Some(f) = c.fields.get(fk) {
				nc.fields.insert(fk.clone(), MField { names: row(&f.names), doc: kf.doc.as_ref().and(f.doc.clone()) });
			}
		}
		for (mk, km) in &kc.methods {
			if let Some(me) = c.methods.get(mk) {
				let mut nm = MMethod { names: row(&me.names), doc: km.doc.as_ref().and(me.doc.clone()), params: BTreeMap::new() };
				for (pk, kp) in &km.params {
					if let Some(p) = me.params.get(pk) {
						nm.params.insert(*pk, MParam { names: row(&p.names), doc: kp.doc.as_ref().and(p.doc.clone()) });
					}
				}
				nc.methods.insert(mk.clone(), nm);
			}
		}
		out.classes.insert(ck.clone(), nc);
	}
	out
}

// ---------------------------------------------------------------------------------------------
// dummy filters

pub fn remove_dummy(m: &MapSet, ns: usize) -> MapSet {
	let starts = |n: &Option<String>, p: &[&str]| n.as_deref().is_some_and(|n| p.iter().any(|p| n.starts_with(p)));
	let mut out = m.clone();
	out.classes.retain(|_, c| {
		c.fields.retain(|_, f| f.doc.is_some() || !starts(&f.names[ns], &["f_"]));
		c.methods.retain(|_, me| {
			me.params.retain(|_, p| p.doc.is_some() || !starts(&p.names[ns], &["p_"]));
			let dummy_name = starts(&me.names[ns], &["m_"]) || matches!(me.names[ns].as_deref(), Some("<init>") | Some("<clinit>"));
			me.doc.is_some() || !me.params.is_empty() || !dummy_name
		});
		c.doc.is_some() || !c.fields.is_empty() || !c.methods.is_empty() || !starts(&c.names[ns], &["C_", "net/minecraft/unmapped/C_"])
	});
	out
}

pub fn insert_dummy(d: &DiffSet) -> DiffSet {
	let mut out = d.clone();
	out.classes.retain(|ck, c| {
		c.fields.retain(|fk, f| {
			let valid = match &f.act {
				Act::Add(_) => false,
				Act::Remove(a) => {
					f.act = Act::Edit(a.clone(), fk.name.clone());
					true
				}
				_ => true,
			};
			valid && (f.act.is_change() || f.doc.is_change())
		});
		c.methods.retain(|mk, me| {
			me.params.retain(|pk, p| {
				let valid = match &p.act {
					Act::Add(_) => false,
					Act::Remove(a) => {
						p.act = Act::Edit(a.clone(), format!("p_{pk}"));
						true
					}
					_ => true,
				};
				valid && (p.act.is_change() || p.doc.is_change())
			});
			let valid = match &me.act {
				Act::Add(_) => false,
				Act::Remove(a) => {
					me.act = Act::Edit(a.clone(), mk.name.clone());
					true
				}
				_ => true,
			};
			(valid && (me.act.is_change() || me.doc.is_change())) || !me.params.is_empty()
		});
		let valid = match &c.act {
			Act::Add(_) => false,
			Act::Remove(a) => {
				let simple = split_inner(ck).map(|x| x.1).unwrap_or(ck);
				c.act = Act::Edit(a.clone(), simple.to_string());
				true
			}
			_ => true,
		};
		(valid && (c.act.is_change() || c.doc.is_change())) || !c.fields.is_empty() || !c.methods.is_empty()
	});
	out
}

// ---------------------------------------------------------------------------------------------
// inner class names

#[derive(Debug, Clone, PartialEq)]
pub enum Extended {
	Ok(MapSet),
	/// an outer class of a class that has a name in `ns` is missing / unnamed
	Fail(String),
}

pub fn extend_inner(m: &MapSet, ns: usize) -> Extended {
	fn ext(m: &MapSet, ns: usize, src: &str, stored: &str) -> Result<String, String> {
		match split_inner(src) {
			None => Ok(stored.to_string()),
			Some((parent, _)) => {
				let p = m.classes.get(parent).ok_or_else(|| format!("outer class {parent} of {src} not in set"))?;
				let pn = p.names[ns].as_deref().ok_or_else(|| format!("outer class {parent} has no name in namespace {ns}"))?;
				Ok(format!("{}${}", ext(m, ns, parent, pn)?, stored))
			}
		}
	}
	let mut out = m.clone();
	for (ck, c) in &m.classes {
		if let Some(stored) = &c.names[ns] {
			match ext(m, ns, ck, stored) {
				Ok(x) => out.classes.get_mut(ck).unwrap().names[ns] = Some(x),
				Err(e) => return Extended::Fail(e),
			}
		}
	}
	Extended::Ok(out)
}

pub fn contract_inner(m: &MapSet, ns: usize) -> MapSet {
	let mut out = m.clone();
	for c in out.classes.values_mut() {
		if let Some(n) = &c.names[ns] {
			if let Some((_, inner)) = split_inner(n) {
				c.names[ns] = Some(inner.to_string());
			}
		}
	}
	out
}

// ---------------------------------------------------------------------------------------------
// remapper

pub type Inheritance = BTreeMap<String, Vec<String>>;

pub struct RefRemapper<'a> {
	pub m: &'a MapSet,
	pub from: usize,
	pub to: usize,
	pub inh: &'a Inheritance,
	class_table: BTreeMap<String, String>,
	by_from: BTreeMap<String, &'a MClass>,
	zero_to_from: BTreeMap<String, String>,
	zero_to_to: BTreeMap<String, String>,
}

#[derive(Clone, Copy, PartialEq, Eq, Debug)]
pub enum Search {
	/// depth-first over super types in declaration order, through unmapped owners too
	Dfs,
	/// breadth-first (nearest by depth, then declaration order)
	Bfs,
	/// depth-first, but the search stops at an owner that is not in the mappings
	DfsStopAtUnmapped,
}

impl<'a> RefRemapper<'a> {
	pub fn new(m: &'a MapSet, from: usize, to: usize, inh: &'a Inheritance) -> RefRemapper<'a> {
		let mut class_table = BTreeMap::new();
		let mut by_from = BTreeMap::new();
		let mut zero_to_from = BTreeMap::new();
		let mut zero_to_to = BTreeMap::new();
		for c in m.classes.values() {
			if let (Some(f), Some(t)) = (&c.names[from], &c.names[to]) {
				class_table.insert(f.clone(), t.clone());
				by_from.insert(f.clone(), c);
			}
			if let (Some(z), Some(f)) = (&c.names[0], &c.names[from]) {
				zero_to_from.insert(z.clone(), f.clone());
			}
			if let (Some(z), Some(t)) = (&c.names[0], &c.names[to]) {
				zero_to_to.insert(z.clone(), t.clone());
			}
		}
		RefRemapper { m, from, to, inh, class_table, by_from, zero_to_from, zero_to_to }
	}
	pub fn map_class(&self, c: &str) -> String {
		self.class_table.get(c).cloned().unwrap_or_else(|| c.to_string())
	}
	pub fn class_mapped(&self, c: &str) -> bool {
		self.class_table.contains_key(c)
	}
	pub fn map_desc(&self, d: &str) -> String {
		map_desc(d, &|c| self.map_class(c))
	}
	fn desc_from(&self, d0: &str) -> String {
		map_desc(d0, &|c| self.zero_to_from.get(c).cloned().unwrap_or_else(|| c.to_string()))
	}
	fn desc_to(&self, d0: &str) -> String {
		map_desc(d0, &|c| self.zero_to_to.get(c).cloned().unwrap_or_else(|| c.to_string()))
	}
	fn declared(&self, owner: &str, name: &str, desc: &str, method: bool) -> Option<(String, String)> {
		let c = self.by_from.get(owner)?;
		if method {
			for (k, me) in &c.methods {
				if let (Some(f), Some(t)) = (&me.names[self.from], &me.names[self.to]) {
					if f == name && self.desc_from(&k.desc) == desc {
						return Some((t.clone(), self.desc_to(&k.desc)));
					}
				}
			}
		} else {
			for (k, fl) in &c.fields {
				if let (Some(f), Some(t)) = (&fl.names[self.from], &fl.names[self.to]) {
					if f == name && self.desc_from(&k.desc) == desc {
						return Some((t.clone(), self.desc_to(&k.desc)));
					}
				}
			}
		}
		None
	}
	/// which class (by from-name) answers the lookup, and with what
	pub fn lookup(&self, owner: &str, name: &str, desc: &str, method: bool, search: Search) -> Option<(String, (String, String))> {
		match search {
			Search::Bfs => {
				let mut q: VecDeque<String> = VecDeque::from([owner.to_string()]);
				let mut seen = BTreeSet::new();
				while let Some(c) = q.pop_front() {
					if !seen.insert(c.clone()) {
						continue;
					}
					if let Some(r) = self.declared(&c, name, desc, method) {
						return Some((c, r));
					}
					for s in self.inh.get(&c).into_iter().flatten() {
						q.push_back(s.clone());
					}
				}
				None
			}
			Search::Dfs | Search::DfsStopAtUnmapped => {
				fn go(r: &RefRemapper, c: &str, name: &str, desc: &str, method: bool, stop: bool, depth: usize, seen: &mut BTreeSet<String>) -> Option<(String, (String, String))> {
					// a type that was searched without a hit cannot give one the second time: skipping it keeps the first-hit order
					// and bounds the walk (diamonds are walked once, a cyclic graph terminates)
					if depth > 3_000 || !seen.insert(c.to_string()) {
						return None;
					}
					if stop && !r.by_from.contains_key(c) {
						return None;
					}
					if let Some(x) = r.declared(c, name, desc, method) {
						return Some((c.to_string(), x));
					}
					for s in r.inh.get(c).into_iter().flatten() {
						if let Some(x) = go(r, s, name, desc, method, stop, depth + 1, seen) {
							return Some(x);
						}
					}
					None
				}
				go(self, owner, name, desc, method, search == Search::DfsStopAtUnmapped, 0, &mut BTreeSet::new())
			}
		}
	}
	pub fn map_member(&self, owner: &str, name: &str, desc: &str, method: bool, search: Search) -> (String, String) {
		match self.lookup(owner, name, desc, method, search) {
			Some((_, r)) => r,
			None => (name.to_string(), self.map_desc(desc)),
		}
	}
}
