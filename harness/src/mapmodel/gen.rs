//! proptest generators for mapping models.  All randomness comes from proptest; the model is
//! constructed (never filtered) from index/threshold draws so that shrinking works.

use super::*;
use crate::engine::idx;
use proptest::collection::vec;
use proptest::prelude::*;

#[derive(Clone, Copy, Debug, PartialEq, Eq)]
pub enum TargetStyle {
	/// nested classes store only their simple name in the non-source namespaces
	Simple,
	/// nested classes store parent-name `$` simple-name (what enigma can express)
	Extended,
	/// a mixture, including unrelated names
	Arbitrary,
}

#[derive(Clone, Debug)]
pub struct GenCfg {
	pub ns_min: usize,
	pub ns_max: usize,
	pub max_classes: usize,
	pub max_fields: usize,
	pub max_methods: usize,
	pub max_params: usize,
	/// percentage of missing names in non-source namespaces
	pub p_missing: u8,
	pub style: TargetStyle,
	/// no whitespace / '#' in names, parameters have a target name and no source name
	pub enigma_safe: bool,
	/// names are made injective per namespace by a numeric suffix
	pub injective: bool,
	/// comments may contain backslashes / tabs
	pub hostile_docs: bool,
	/// comment lines with backslashes (no control characters)
	pub backslash_docs: bool,
	/// names holding an unpaired surrogate (stand-in characters of `conv::js`): legal for the name types, impossible in any
	/// text format - only for checks that build their inputs in memory
	pub lone_surrogates: bool,
	pub docs: bool,
	/// allow nested classes whose outer class is not in the set
	pub outer_absent: bool,
	/// parameters may carry source names
	pub param_src_names: bool,
	/// percentage of nested classes
	pub p_nested: u8,
	/// class simple names may be `$`, `a$`, `$a`
	pub weird_dollar: bool,
	/// with `injective`: member names get the unique suffix too
	pub injective_members: bool,
}

impl Default for GenCfg {
	fn default() -> Self {
		GenCfg {
			ns_min: 2,
			ns_max: 2,
			max_classes: 6,
			max_fields: 3,
			max_methods: 3,
			max_params: 3,
			p_missing: 0,
			style: TargetStyle::Arbitrary,
			enigma_safe: false,
			injective: false,
			hostile_docs: false,
			backslash_docs: false,
			lone_surrogates: false,
			docs: true,
			outer_absent: true,
			param_src_names: true,
			p_nested: 40,
			weird_dollar: false,
			injective_members: true,
		}
	}
}

/// true with probability ~p %, false when the draw shrinks to 0
pub fn pct(v: u8, p: u8) -> bool {
	p > 0 && (v as u32) >= 256 - (p as u32 * 256 / 100).clamp(1, 256)
}

pub const SAFE_IDENT: &[&str] = &[
	"a", "b", "c", "d", "x", "y", "foo", "bar", "baz", "Foo", "Bar", "Baz", "Qux", "value", "get", "set", "A", "B", "C", "D", "E", "L", "I", "V", "Z", "J", "1",
	"2x", "é", "日本", "𝔘x", "e\u{301}", "xC_1", "af_2", "am_3", "ap_4", "C_", "f_", "name", "of", "This",
];
pub const HOSTILE_IDENT: &[&str] = &["a b", "a#b", "a<b", "b\\n", " x", "ACC:x", "x>", "\\", " ", "\u{a0}", "\u{2003}\u{3000}", "007", "x "];
pub const CLASS_PLACEHOLDER: &[&str] = &["C_1", "C_23", "C_456"];
pub const FIELD_PLACEHOLDER: &[&str] = &["f_1", "f_22", "f_333"];
pub const METHOD_PLACEHOLDER: &[&str] = &["m_1", "m_33", "m_444"];
pub const PARAM_PLACEHOLDER: &[&str] = &["p_0", "p_1", "p_22"];
pub const PACKAGES: &[&str] = &["", "", "a/", "net/minecraft/", "net/minecraft/unmapped/", "com/x/y/", "b/c/", "日/", "java/lang/", "java/", "javax/x/", "net/minecraftx/"];
pub const EXTERNAL_CLASSES: &[&str] = &["java/lang/Object", "java/lang/String", "ext/Unmapped", "L", "I", "a/L$I", "ext/Outer$Inner", "V"];
pub const PRIMS: &[&str] = &["I", "J", "Z", "B", "C", "S", "F", "D"];
pub const SURROGATE_IDENT: &[&str] = &["x\u{E000}", "\u{E001}y", "a\u{E000}b\u{E001}"];
pub const DOC_LINES: &[&str] = &[
	"hello", "a comment", "", " leading space", "trailing ", "# hash", "with  two spaces", "ünï cödé", "x", "@param a thing", "<p>html</p>", "COMMENT inside",
	"  ", "a # b", "distance en\u{a0}km\u{a0}: 5", "wide\u{3000}space and thin\u{2009}space",
];
pub const HOSTILE_DOC_LINES: &[&str] = &["back\\slash", "lit\\n", "tab\there", "\\", "ends with cr\r", "\\t", "\\\\n"];
/// backslashes in front of the letters escape notations use, and at the end of a line - but no control characters, so
/// that formats which cannot express TAB / CR (Enigma) can still carry them
pub const BACKSLASH_DOC_LINES: &[&str] = &["back\\slash", "lit\\n", "\\", "\\t", "\\\\n", "C:\\textures\\new\\0", "\"\\t\"", "ends with \\", "\\u0041 \\r", "\\\\"];

#[derive(Clone, Debug)]
pub struct RawType {
	pub kind: u8,
	pub class: u16,
	pub dims: u8,
}

pub fn raw_type() -> impl Strategy<Value = RawType> {
	(any::<u8>(), any::<u16>(), any::<u8>()).prop_map(|(kind, class, dims)| RawType { kind, class, dims })
}

#[derive(Clone, Debug)]
pub struct RawDoc {
	pub has: u8,
	pub lines: Vec<u16>,
}

pub fn raw_doc() -> impl Strategy<Value = RawDoc> {
	(any::<u8>(), vec(any::<u16>(), 1..4)).prop_map(|(has, lines)| RawDoc { has, lines })
}

#[derive(Clone, Debug)]
pub struct RawRow {
	pub name: [u16; 4],
	pub missing: [u8; 4],
	pub same: [u8; 4],
	pub placeholder: [u8; 4],
}

pub fn raw_row() -> impl Strategy<Value = RawRow> {
	(
		proptest::array::uniform4(any::<u16>()),
		proptest::array::uniform4(any::<u8>()),
		proptest::array::uniform4(any::<u8>()),
		proptest::array::uniform4(any::<u8>()),
	)
		.prop_map(|(name, missing, same, placeholder)| RawRow { name, missing, same, placeholder })
}

#[derive(Clone, Debug)]
pub struct RawParam {
	pub index: u8,
	pub row: RawRow,
	pub src: u8,
	pub doc: RawDoc,
}

#[derive(Clone, Debug)]
pub struct RawField {
	pub row: RawRow,
	pub ty: RawType,
	pub doc: RawDoc,
}

#[derive(Clone, Debug)]
pub struct RawMethod {
	pub row: RawRow,
	pub special: u8,
	pub args: Vec<RawType>,
	pub ret: RawType,
	pub void: u8,
	pub doc: RawDoc,
	pub params: Vec<RawParam>,
}

#[derive(Clone, Debug)]
pub struct RawClass {
	pub pkg: [u16; 4],
	pub row: RawRow,
	pub nested: u8,
	pub parent: u16,
	pub present: u8,
	pub style: u8,
	pub doc: RawDoc,
	pub fields: Vec<RawField>,
	pub methods: Vec<RawMethod>,
}

pub fn raw_class(cfg: &GenCfg) -> impl Strategy<Value = RawClass> {
	let field = (raw_row(), raw_type(), raw_doc()).prop_map(|(row, ty, doc)| RawField { row, ty, doc });
	let param = (any::<u8>(), raw_row(), any::<u8>(), raw_doc()).prop_map(|(index, row, src, doc)| RawParam { index, row, src, doc });
	let method = (raw_row(), any::<u8>(), vec(raw_type(), 0..4), raw_type(), any::<u8>(), raw_doc(), vec(param, 0..=cfg.max_params))
		.prop_map(|(row, special, args, ret, void, doc, params)| RawMethod { row, special, args, ret, void, doc, params });
	(
		proptest::array::uniform4(any::<u16>()),
		raw_row(),
		any::<u8>(),
		any::<u16>(),
		any::<u8>(),
		any::<u8>(),
		raw_doc(),
		vec(field, 0..=cfg.max_fields),
		vec(method, 0..=cfg.max_methods),
	)
		.prop_map(|(pkg, row, nested, parent, present, style, doc, fields, methods)| RawClass { pkg, row, nested, parent, present, style, doc, fields, methods })
}

fn pick_ident(cfg: &GenCfg, sel: u16, placeholder: u8, placeholders: &[&str]) -> String {
	if pct(placeholder, 25) {
		return placeholders[idx(sel, placeholders.len())].to_string();
	}
	let n = SAFE_IDENT.len() + if cfg.enigma_safe { 0 } else { HOSTILE_IDENT.len() } + if cfg.lone_surrogates { SURROGATE_IDENT.len() } else { 0 };
	let i = idx(sel, n);
	if i < SAFE_IDENT.len() {
		SAFE_IDENT[i].to_string()
	} else if !cfg.enigma_safe && i < SAFE_IDENT.len() + HOSTILE_IDENT.len() {
		HOSTILE_IDENT[i - SAFE_IDENT.len()].to_string()
	} else {
		SURROGATE_IDENT[(i - SAFE_IDENT.len()) % SURROGATE_IDENT.len()].to_string()
	}
}

fn build_doc(cfg: &GenCfg, raw: &RawDoc) -> Option<String> {
	if !cfg.docs || !pct(raw.has, 40) {
		return None;
	}
	let extra: &[&str] = if cfg.hostile_docs {
		HOSTILE_DOC_LINES
	} else if cfg.backslash_docs {
		BACKSLASH_DOC_LINES
	} else {
		&[]
	};
	let n = DOC_LINES.len() + extra.len();
	let lines: Vec<&str> = raw
		.lines
		.iter()
		.map(|l| {
			let i = idx(*l, n);
			if i < DOC_LINES.len() {
				DOC_LINES[i]
			} else {
				extra[i - DOC_LINES.len()]
			}
		})
		.collect();
	Some(lines.join("\n"))
}

/// names of one member row: ns 0 from the pool, the others missing / same / different
fn build_row(cfg: &GenCfg, n: usize, raw: &RawRow, placeholders: &[&str], suffix: Option<usize>) -> Names {
	let mut names = Vec::new();
	for k in 0..n {
		let mut name = pick_ident(cfg, raw.name[k], raw.placeholder[k], placeholders);
		if let Some(s) = suffix {
			name.push_str(&format!("{}", s * 4 + k));
		}
		if k == 0 {
			names.push(Some(name));
		} else if pct(raw.missing[k], cfg.p_missing) {
			names.push(None);
		} else if pct(raw.same[k], 15) && !cfg.injective {
			names.push(names[0].clone());
		} else {
			names.push(Some(name));
		}
	}
	names
}

pub fn build_type(raw: &RawType, class_pool: &[String]) -> String {
	let mut s = String::new();
	if pct(raw.dims, 25) {
		for _ in 0..(1 + raw.dims % 3) {
			s.push('[');
		}
	}
	let k = raw.kind % 10;
	if k < 4 {
		s.push_str(PRIMS[idx(raw.class, PRIMS.len())]);
	} else if k < 8 && !class_pool.is_empty() {
		s.push('L');
		s.push_str(&class_pool[idx(raw.class, class_pool.len())]);
		s.push(';');
	} else {
		s.push('L');
		s.push_str(EXTERNAL_CLASSES[idx(raw.class, EXTERNAL_CLASSES.len())]);
		s.push(';');
	}
	s
}

struct Node {
	present: bool,
	full: Vec<Option<String>>, // per namespace, [0] always Some
	full_or_src: Vec<String>,
	depth: usize,
}

pub fn build(cfg: &GenCfg, n: usize, raws: &[RawClass]) -> MapSet {
	let mut nodes: Vec<Node> = Vec::new();
	let mut used: std::collections::BTreeSet<String> = Default::default();
	let mut used_per_ns: Vec<std::collections::BTreeSet<String>> = vec![Default::default(); n];
	for (i, raw) in raws.iter().enumerate() {
		let mut parent = if i > 0 && pct(raw.nested, cfg.p_nested) { Some(idx(raw.parent, i)) } else { None };
		if let Some(p) = parent {
			if nodes[p].depth >= 4 {
				parent = None;
			}
		}
		let suffix = if cfg.injective { Some(i) } else { None };
		let mut simple = build_row(cfg, n, &raw.row, CLASS_PLACEHOLDER, suffix);
		if cfg.weird_dollar && pct(raw.style, 12) {
			let w = ["$", "a$", "$a", "a$$b"][raw.style as usize % 4];
			simple[0] = Some(w.to_string());
		}
		// enigma target names must not start with the modifier prefix
		let mut full: Vec<Option<String>> = Vec::new();
		for k in 0..n {
			let pkg = PACKAGES[idx(raw.pkg[k], PACKAGES.len())];
			let name = match &simple[k] {
				None => None,
				Some(s) => Some(match parent {
					None => format!("{pkg}{s}"),
					Some(p) => {
						if k == 0 {
							format!("{}${}", nodes[p].full[0].as_ref().unwrap(), s)
						} else {
							let style = match cfg.style {
								TargetStyle::Arbitrary => match raw.style % 3 {
									0 => TargetStyle::Simple,
									1 => TargetStyle::Extended,
									_ => TargetStyle::Arbitrary,
								},
								s => s,
							};
							match style {
								TargetStyle::Simple => s.clone(),
								TargetStyle::Extended => format!("{}${}", nodes[p].full_or_src[k], s),
								TargetStyle::Arbitrary => format!("{pkg}{s}"),
							}
						}
					}
				}),
			};
			full.push(name);
		}
		let src = full[0].clone().unwrap();
		let mut present = !(cfg.outer_absent && pct(raw.present, 15));
		if used.contains(&src) {
			present = false;
		}
		if cfg.injective && present {
			for k in 1..n {
				if let Some(f) = &full[k] {
					if used_per_ns[k].contains(f) {
						present = false;
					}
				}
			}
		}
		if present {
			used.insert(src.clone());
			for k in 0..n {
				if let Some(f) = &full[k] {
					used_per_ns[k].insert(f.clone());
				}
			}
		}
		let full_or_src = (0..n).map(|k| full[k].clone().unwrap_or_else(|| src.clone())).collect();
		let depth = parent.map(|p| nodes[p].depth + 1).unwrap_or(0);
		nodes.push(Node { present, full, full_or_src, depth });
	}
	let class_pool: Vec<String> = nodes.iter().filter(|x| x.present).map(|x| x.full[0].clone().unwrap()).collect();

	let mut set = MapSet { ns: ["official", "intermediary", "named", "extra"][..n].iter().map(|s| s.to_string()).collect(), classes: BTreeMap::new() };
	let mut member_counter = 0usize;
	for (node, raw) in nodes.iter().zip(raws) {
		if !node.present {
			continue;
		}
		let mut c = MClass { names: node.full.clone(), doc: build_doc(cfg, &raw.doc), ..Default::default() };
		for f in &raw.fields {
			member_counter += 1;
			let suffix = if cfg.injective && cfg.injective_members { Some(member_counter) } else { None };
			let names = build_row(cfg, n, &f.row, FIELD_PLACEHOLDER, suffix);
			let key = MemberKey { name: names[0].clone().unwrap(), desc: build_type(&f.ty, &class_pool) };
			c.fields.entry(key).or_insert(MField { names, doc: build_doc(cfg, &f.doc) });
		}
		for me in &raw.methods {
			member_counter += 1;
			let suffix = if cfg.injective && cfg.injective_members { Some(member_counter) } else { None };
			let mut names = build_row(cfg, n, &me.row, METHOD_PLACEHOLDER, suffix);
			// method names must not contain < or > unless <init>/<clinit>
			for nm in names.iter_mut().flatten() {
				if nm.contains('<') || nm.contains('>') {
					*nm = nm.replace(['<', '>'], "_");
				}
			}
			if pct(me.special, 15) {
				let s = if me.special % 2 == 0 { "<init>" } else { "<clinit>" };
				for nm in names.iter_mut().flatten() {
					*nm = s.to_string();
				}
			}
			let mut desc = String::from("(");
			for a in &me.args {
				desc.push_str(&build_type(a, &class_pool));
			}
			desc.push(')');
			if pct(me.void, 50) {
				desc.push_str(&build_type(&me.ret, &class_pool));
			} else {
				desc.push('V');
			}
			let mut params = BTreeMap::new();
			for p in &me.params {
				let mut pn = build_row(cfg, n, &p.row, PARAM_PLACEHOLDER, None);
				if cfg.enigma_safe {
					pn[0] = None;
					if pn[1].is_none() {
						pn[1] = Some("arg".into());
					}
				} else if !(cfg.param_src_names && pct(p.src, 40)) {
					pn[0] = None;
				}
				params.entry(param_index(p.index)).or_insert(MParam { names: pn, doc: build_doc(cfg, &p.doc) });
			}
			let key = MemberKey { name: names[0].clone().unwrap(), desc };
			c.methods.entry(key).or_insert(MMethod { names, doc: build_doc(cfg, &me.doc), params });
		}
		set.classes.insert(node.full[0].clone().unwrap(), c);
	}
	set
}

pub fn mapset(cfg: GenCfg) -> impl Strategy<Value = MapSet> {
	let c2 = cfg.clone();
	(cfg.ns_min..=cfg.ns_max, vec(raw_class(&cfg), 0..=cfg.max_classes)).prop_map(move |(n, raws)| build(&c2, n, &raws))
}

/// mapping set + the raw draws are not needed by callers; a second independent seed for orders
/// Namespace names that are easy to confuse: equal up to ASCII case, one a prefix of the other, single letters, a blank
/// inside (the header is split at tabs only), non-ASCII. `draw` < 160 keeps the usual names.
pub fn confusable_namespaces(m: &mut MapSet, draw: u8) -> bool {
	if draw < 160 || m.ns.len() < 2 {
		return false;
	}
	let n = m.ns.len();
	let names: Vec<String> = match draw % 6 {
		0 => ["named", "NAMED", "Named", "nAMED"][..n].iter().map(|s| s.to_string()).collect(),
		1 => ["a", "A", "b", "B"][..n].iter().map(|s| s.to_string()).collect(),
		2 => ["named", "named2", "name", "nam"][..n].iter().map(|s| s.to_string()).collect(),
		3 => ["official", "OFFICIAL", "intermediary", "Intermediary"][..n].iter().map(|s| s.to_string()).collect(),
		4 => ["left side", "left", "side", "left side "][..n].iter().map(|s| s.to_string()).collect(),
		_ => ["\u{149}amed", "named", "\u{212a}", "K"][..n].iter().map(|s| s.to_string()).collect(),
	};
	// the more distinctive names go last so that 2-namespace sets get the closest pair
	m.ns = names;
	true
}

pub fn order_seed() -> impl Strategy<Value = u64> {
	prop_oneof![Just(0u64), any::<u64>()]
}

// ---------------------------------------------------------------------------------------------
// edit scripts: derive a related mapping set from a base set, driven by a generated byte stream

/// parameter index from one draw: mostly 0..7, a quarter of the draws hit values where decimal text order and numeric
/// order differ (9/10, 99/100), where 8- and 16-bit counters wrap, and the JVM's limit of 255 and beyond
pub fn param_index(draw: u8) -> usize {
	const EDGE: &[usize] = &[8, 9, 10, 11, 19, 20, 99, 100, 127, 128, 254, 255, 256, 1000, 65535, 65536];
	if draw < 192 {
		(draw % 8) as usize
	} else {
		EDGE[(draw - 192) as usize % EDGE.len()]
	}
}

pub struct Draws<'a> {
	data: &'a [u8],
	pos: usize,
}

impl<'a> Draws<'a> {
	pub fn new(data: &'a [u8]) -> Draws<'a> {
		Draws { data, pos: 0 }
	}
	pub fn next(&mut self) -> u8 {
		if self.data.is_empty() {
			return 0;
		}
		let v = self.data[self.pos % self.data.len()];
		// after wrapping around, perturb so that long structures do not repeat exactly
		let wrap = (self.pos / self.data.len()) as u8;
		self.pos += 1;
		v.wrapping_add(wrap.wrapping_mul(37))
	}
	pub fn pct(&mut self, p: u8) -> bool {
		pct(self.next(), p)
	}
	pub fn ident(&mut self) -> String {
		let i = idx((self.next() as u16) << 8 | self.next() as u16, SAFE_IDENT.len());
		SAFE_IDENT[i].to_string()
	}
	pub fn doc(&mut self) -> String {
		let n = 1 + self.next() % 3;
		(0..n).map(|_| DOC_LINES[idx((self.next() as u16) << 8, DOC_LINES.len())]).collect::<Vec<_>>().join("\n")
	}
}

pub fn draws() -> impl Strategy<Value = Vec<u8>> {
	vec(any::<u8>(), 0..200)
}

/// Derives a variant of `base`: entries dropped, target names (namespace `ns`) changed, comments
/// added / edited / removed, a few entries added.  A zero stream returns `base` unchanged.
pub fn edit(base: &MapSet, ns: usize, stream: &[u8]) -> MapSet {
	edit_keeping(base, ns, stream, false)
}

/// `edit`; with `keep_unnamed` an entry that has no name in namespace `ns` is never dropped (the draws are consumed all the
/// same): dropping it could not be written down as a diff of that namespace, gaining a name can.
pub fn edit_keeping(base: &MapSet, ns: usize, stream: &[u8], keep_unnamed: bool) -> MapSet {
	let mut d = Draws::new(stream);
	let n = base.ns.len();
	fn edit_doc(d: &mut Draws, doc: &mut Option<String>) {
		if d.pct(20) {
			*doc = match (doc.is_some(), d.pct(50)) {
				(true, true) => None,
				_ => Some(d.doc()),
			};
		}
	}
	fn edit_name(d: &mut Draws, names: &mut Names, ns: usize, suffix: &str) {
		if d.pct(25) {
			names[ns] = Some(format!("{}{}", d.ident(), suffix));
		}
	}
	let mut out = MapSet { ns: base.ns.clone(), classes: BTreeMap::new() };
	for (ck, c) in &base.classes {
		if d.pct(15) && !(keep_unnamed && c.names[ns].is_none()) {
			continue;
		}
		let mut c = c.clone();
		edit_name(&mut d, &mut c.names, ns, "");
		edit_doc(&mut d, &mut c.doc);
		let mut fields = BTreeMap::new();
		for (fk, f) in &c.fields {
			if d.pct(15) && !(keep_unnamed && f.names[ns].is_none()) {
				continue;
			}
			let mut f = f.clone();
			edit_name(&mut d, &mut f.names, ns, "");
			edit_doc(&mut d, &mut f.doc);
			fields.insert(fk.clone(), f);
		}
		if d.pct(15) {
			let name = d.ident();
			let mut names: Names = vec![None; n];
			names[0] = Some(name.clone());
			names[ns] = Some(d.ident());
			fields.entry(MemberKey { name, desc: "I".into() }).or_insert(MField { names, doc: None });
		}
		c.fields = fields;
		let mut methods = BTreeMap::new();
		for (mk, me) in &c.methods {
			if d.pct(15) && !(keep_unnamed && me.names[ns].is_none()) {
				continue;
			}
			let mut me = me.clone();
			if !mk.name.starts_with('<') {
				edit_name(&mut d, &mut me.names, ns, "");
			}
			edit_doc(&mut d, &mut me.doc);
			let mut params = BTreeMap::new();
			for (pk, p) in &me.params {
				if d.pct(15) && !(keep_unnamed && p.names[ns].is_none()) {
					continue;
				}
				let mut p = p.clone();
				edit_name(&mut d, &mut p.names, ns, "");
				edit_doc(&mut d, &mut p.doc);
				params.insert(*pk, p);
			}
			if d.pct(15) {
				let mut names: Names = vec![None; n];
				names[ns] = Some(d.ident());
				params.entry(param_index(d.next())).or_insert(MParam { names, doc: None });
			}
			me.params = params;
			methods.insert(mk.clone(), me);
		}
		if d.pct(15) {
			let name = d.ident();
			let mut names: Names = vec![None; n];
			names[0] = Some(name.clone());
			names[ns] = Some(d.ident());
			methods.entry(MemberKey { name, desc: "()V".into() }).or_insert(MMethod { names, doc: None, params: BTreeMap::new() });
		}
		c.methods = methods;
		out.classes.insert(ck.clone(), c);
	}
	if d.pct(20) {
		let name = format!("added/{}", d.ident());
		let mut names: Names = vec![None; n];
		names[0] = Some(name.clone());
		names[ns] = Some(format!("added/{}", d.ident()));
		out.classes.entry(name).or_insert(MClass { names, ..Default::default() });
	}
	out
}
