//! Projection of a duke tree into the independent model (opcode numbers, flag bits and table
//! layouts are written here from JVMS, not taken from duke's constants).

use super::model::*;
use duke::tree::annotation as da;
use duke::tree::class::{ClassFile, InnerClassFlags};
use duke::tree::field as df;
use duke::tree::method as dm;
use duke::tree::method::code as dc;
use duke::tree::type_annotation as dt;
use duke::verif;
use duke::visitor::method::code::{StackMapData, VerificationTypeInfo};
use java_string::JavaStr;
use std::collections::HashMap;

pub type PResult<T> = Result<T, String>;

fn s(j: &JavaStr) -> PResult<String> {
	j.as_str().map(|x| x.to_string()).map_err(|_| format!("string with unpaired surrogate: {j:?}"))
}

fn bits(flags: &[(bool, u16)]) -> u16 {
	flags.iter().filter(|f| f.0).map(|f| f.1).sum()
}

fn annotation(a: &da::Annotation) -> PResult<Annotation> {
	Ok(Annotation { ty: s(a.annotation_type.as_inner())?, pairs: a.element_value_pairs.iter().map(|p| Ok((s(&p.name)?, element_value(&p.value)?))).collect::<PResult<_>>()? })
}

fn element_value(v: &da::ElementValue) -> PResult<ElementValue> {
	Ok(match v {
		da::ElementValue::Object(o) => match o {
			da::Object::Byte(x) => ElementValue::Byte(*x),
			da::Object::Char(x) => ElementValue::Char(*x),
			da::Object::Double(x) => ElementValue::Double(x.to_bits()),
			da::Object::Float(x) => ElementValue::Float(x.to_bits()),
			da::Object::Integer(x) => ElementValue::Int(*x),
			da::Object::Long(x) => ElementValue::Long(*x),
			da::Object::Short(x) => ElementValue::Short(*x),
			da::Object::Boolean(x) => ElementValue::Boolean(*x),
			da::Object::String(x) => ElementValue::Str(s(x)?),
		},
		da::ElementValue::Enum { type_name, const_name } => ElementValue::Enum { ty: s(type_name.as_inner())?, name: s(const_name)? },
		da::ElementValue::Class(c) => ElementValue::Class(s(c.as_inner())?),
		da::ElementValue::AnnotationInterface(a) => ElementValue::Annotation(annotation(a)?),
		da::ElementValue::ArrayType(v) => ElementValue::Array(v.iter().map(element_value).collect::<PResult<_>>()?),
	})
}

fn path(p: &dt::TypePath) -> Vec<TypePathStep> {
	verif::type_path(p)
		.into_iter()
		.map(|x| match x {
			verif::TypePathStep::ArrayDeeper => TypePathStep::Array,
			verif::TypePathStep::NestedDeeper => TypePathStep::Nested,
			verif::TypePathStep::WildcardBound => TypePathStep::Wildcard,
			verif::TypePathStep::TypeArgument(i) => TypePathStep::TypeArgument(i),
		})
		.collect()
}

fn annotations(visible: &[da::Annotation], invisible: &[da::Annotation], out: &mut Vec<Attr>) -> PResult<()> {
	if !visible.is_empty() {
		out.push(Attr::Annotations { visible: true, list: visible.iter().map(annotation).collect::<PResult<_>>()? });
	}
	if !invisible.is_empty() {
		out.push(Attr::Annotations { visible: false, list: invisible.iter().map(annotation).collect::<PResult<_>>()? });
	}
	Ok(())
}

fn type_annotations<T>(visible: &[dt::TypeAnnotation<T>], invisible: &[dt::TypeAnnotation<T>], target: &dyn Fn(&T) -> PResult<Target>, out: &mut Vec<Attr>) -> PResult<()> {
	for (vis, list) in [(true, visible), (false, invisible)] {
		if !list.is_empty() {
			let l = list.iter().map(|t| Ok(TypeAnnotation { target: target(&t.type_reference)?, path: path(&t.type_path), annotation: annotation(&t.annotation)? })).collect::<PResult<_>>()?;
			out.push(Attr::TypeAnnotations { visible: vis, list: l });
		}
	}
	Ok(())
}

fn unknown(attrs: &[duke::tree::attribute::Attribute], out: &mut Vec<Attr>) -> PResult<()> {
	for a in attrs {
		out.push(Attr::Unknown { name: s(&a.name)?, bytes: a.bytes.clone() });
	}
	Ok(())
}

fn handle(h: &dc::Handle) -> PResult<Handle> {
	let f = |kind: u8, r: &df::FieldRef| -> PResult<Handle> { Ok(Handle { kind, owner: s(r.class.as_inner())?, name: s(r.name.as_inner())?, desc: s(r.desc.as_inner())?, itf: false }) };
	let m = |kind: u8, r: &dm::MethodRef, itf: bool| -> PResult<Handle> { Ok(Handle { kind, owner: s(r.class.as_inner())?, name: s(r.name.as_inner())?, desc: s(r.desc.as_inner())?, itf }) };
	match h {
		dc::Handle::GetField(r) => f(1, r),
		dc::Handle::GetStatic(r) => f(2, r),
		dc::Handle::PutField(r) => f(3, r),
		dc::Handle::PutStatic(r) => f(4, r),
		dc::Handle::InvokeVirtual(r) => m(5, r, false),
		dc::Handle::InvokeStatic(r, i) => m(6, r, *i),
		dc::Handle::InvokeSpecial(r, i) => m(7, r, *i),
		dc::Handle::NewInvokeSpecial(r) => m(8, r, false),
		dc::Handle::InvokeInterface(r) => m(9, r, true),
	}
}

fn loadable(l: &dc::Loadable) -> PResult<Const> {
	Ok(match l {
		dc::Loadable::Integer(v) => Const::Int(*v),
		dc::Loadable::Float(v) => Const::Float(v.to_bits()),
		dc::Loadable::Long(v) => Const::Long(*v),
		dc::Loadable::Double(v) => Const::Double(v.to_bits()),
		dc::Loadable::Class(c) => Const::Class(s(c.as_inner())?),
		dc::Loadable::String(x) => Const::Str(s(x)?),
		dc::Loadable::MethodHandle(h) => Const::MethodHandle(handle(h)?),
		dc::Loadable::MethodType(d) => Const::MethodType(s(d.as_inner())?),
		dc::Loadable::Dynamic(d) => Const::Dynamic {
			name: s(d.name.as_inner())?,
			desc: s(d.descriptor.as_inner())?,
			bsm: Box::new(Bsm { handle: handle(&d.handle)?, args: d.arguments.iter().map(loadable).collect::<PResult<_>>()? }),
		},
	})
}

struct Labels {
	at: HashMap<u16, usize>,
}

impl Labels {
	fn get(&self, l: &dc::Label) -> PResult<usize> {
		self.at.get(&verif::label_id(l)).copied().ok_or_else(|| format!("label {l:?} is attached to no instruction of the method"))
	}
	fn range(&self, r: &dc::LabelRange) -> PResult<(usize, usize)> {
		let (a, b) = verif::label_range(r);
		Ok((self.get(&a)?, self.get(&b)?))
	}
}

fn vtype(v: &VerificationTypeInfo, labels: &Labels) -> PResult<VType> {
	Ok(match v {
		VerificationTypeInfo::Top => VType::Top,
		VerificationTypeInfo::Integer => VType::Integer,
		VerificationTypeInfo::Float => VType::Float,
		VerificationTypeInfo::Long => VType::Long,
		VerificationTypeInfo::Double => VType::Double,
		VerificationTypeInfo::Null => VType::Null,
		VerificationTypeInfo::UninitializedThis => VType::UninitializedThis,
		VerificationTypeInfo::Object(c) => VType::Object(s(c.as_inner())?),
		VerificationTypeInfo::Uninitialized(l) => VType::Uninitialized(labels.get(l)?),
	})
}

fn insn(i: &dc::Instruction, labels: &Labels) -> PResult<Insn> {
	use dc::Instruction as I;
	let simple = |op: u8| Ok(Insn::Simple(op));
	let local = |op: u8, l: &dc::LvIndex| Ok(Insn::Local { op, index: l.index });
	let branch = |op: u8, l: &dc::Label| -> PResult<Insn> { Ok(Insn::Branch { op, target: labels.get(l)? }) };
	let field = |op: u8, r: &df::FieldRef| -> PResult<Insn> { Ok(Insn::Field { op, owner: s(r.class.as_inner())?, name: s(r.name.as_inner())?, desc: s(r.desc.as_inner())? }) };
	let invoke = |op: u8, r: &dm::MethodRef, itf: bool| -> PResult<Insn> { Ok(Insn::Invoke { op, owner: s(r.class.as_inner())?, name: s(r.name.as_inner())?, desc: s(r.desc.as_inner())?, itf }) };
	let ty = |op: u8, c: &duke::tree::class::ClassName| -> PResult<Insn> { Ok(Insn::Type { op, class: s(c.as_inner())? }) };
	match i {
		I::Nop => simple(0),
		I::AConstNull => simple(1),
		I::IConstM1 => simple(2),
		I::IConst0 => simple(3),
		I::IConst1 => simple(4),
		I::IConst2 => simple(5),
		I::IConst3 => simple(6),
		I::IConst4 => simple(7),
		I::IConst5 => simple(8),
		I::LConst0 => simple(9),
		I::LConst1 => simple(10),
		I::FConst0 => simple(11),
		I::FConst1 => simple(12),
		I::FConst2 => simple(13),
		I::DConst0 => simple(14),
		I::DConst1 => simple(15),
		I::BiPush(v) => Ok(Insn::Bipush(*v)),
		I::SiPush(v) => Ok(Insn::Sipush(*v)),
		I::Ldc(l) => Ok(Insn::Ldc(loadable(l)?)),
		I::ILoad(l) => local(21, l),
		I::LLoad(l) => local(22, l),
		I::FLoad(l) => local(23, l),
		I::DLoad(l) => local(24, l),
		I::ALoad(l) => local(25, l),
		I::IALoad => simple(46),
		I::LALoad => simple(47),
		I::FALoad => simple(48),
		I::DALoad => simple(49),
		I::AALoad => simple(50),
		I::BALoad => simple(51),
		I::CALoad => simple(52),
		I::SALoad => simple(53),
		I::IStore(l) => local(54, l),
		I::LStore(l) => local(55, l),
		I::FStore(l) => local(56, l),
		I::DStore(l) => local(57, l),
		I::AStore(l) => local(58, l),
		I::IAStore => simple(79),
		I::LAStore => simple(80),
		I::FAStore => simple(81),
		I::DAStore => simple(82),
		I::AAStore => simple(83),
		I::BAStore => simple(84),
		I::CAStore => simple(85),
		I::SAStore => simple(86),
		I::Pop => simple(87),
		I::Pop2 => simple(88),
		I::Dup => simple(89),
		I::DupX1 => simple(90),
		I::DupX2 => simple(91),
		I::Dup2 => simple(92),
		I::Dup2X1 => simple(93),
		I::Dup2X2 => simple(94),
		I::Swap => simple(95),
		I::IAdd => simple(96),
		I::LAdd => simple(97),
		I::FAdd => simple(98),
		I::DAdd => simple(99),
		I::ISub => simple(100),
		I::LSub => simple(101),
		I::FSub => simple(102),
		I::DSub => simple(103),
		I::IMul => simple(104),
		I::LMul => simple(105),
		I::FMul => simple(106),
		I::DMul => simple(107),
		I::IDiv => simple(108),
		I::LDiv => simple(109),
		I::FDiv => simple(110),
		I::DDiv => simple(111),
		I::IRem => simple(112),
		I::LRem => simple(113),
		I::FRem => simple(114),
		I::DRem => simple(115),
		I::INeg => simple(116),
		I::LNeg => simple(117),
		I::FNeg => simple(118),
		I::DNeg => simple(119),
		I::IShl => simple(120),
		I::LShl => simple(121),
		I::IShr => simple(122),
		I::LShr => simple(123),
		I::IUShr => simple(124),
		I::LUShr => simple(125),
		I::IAnd => simple(126),
		I::LAnd => simple(127),
		I::IOr => simple(128),
		I::LOr => simple(129),
		I::IXor => simple(130),
		I::LXor => simple(131),
		I::IInc(l, d) => Ok(Insn::Iinc { index: l.index, delta: *d }),
		I::I2L => simple(133),
		I::I2F => simple(134),
		I::I2D => simple(135),
		I::L2I => simple(136),
		I::L2F => simple(137),
		I::L2D => simple(138),
		I::F2I => simple(139),
		I::F2L => simple(140),
		I::F2D => simple(141),
		I::D2I => simple(142),
		I::D2L => simple(143),
		I::D2F => simple(144),
		I::I2B => simple(145),
		I::I2C => simple(146),
		I::I2S => simple(147),
		I::LCmp => simple(148),
		I::FCmpL => simple(149),
		I::FCmpG => simple(150),
		I::DCmpL => simple(151),
		I::DCmpG => simple(152),
		I::IfEq(l) => branch(153, l),
		I::IfNe(l) => branch(154, l),
		I::IfLt(l) => branch(155, l),
		I::IfGe(l) => branch(156, l),
		I::IfGt(l) => branch(157, l),
		I::IfLe(l) => branch(158, l),
		I::IfICmpEq(l) => branch(159, l),
		I::IfICmpNe(l) => branch(160, l),
		I::IfICmpLt(l) => branch(161, l),
		I::IfICmpGe(l) => branch(162, l),
		I::IfICmpGt(l) => branch(163, l),
		I::IfICmpLe(l) => branch(164, l),
		I::IfACmpEq(l) => branch(165, l),
		I::IfACmpNe(l) => branch(166, l),
		I::Goto(l) => branch(167, l),
		I::Jsr(l) => branch(168, l),
		I::Ret(l) => local(169, l),
		I::TableSwitch { default, low, high, table } => {
			if *high as i64 - *low as i64 + 1 != table.len() as i64 {
				return Err(format!("tableswitch low={low} high={high} but {} targets", table.len()));
			}
			Ok(Insn::TableSwitch { default: labels.get(default)?, low: *low, targets: table.iter().map(|l| labels.get(l)).collect::<PResult<_>>()? })
		}
		I::LookupSwitch { default, pairs } => Ok(Insn::LookupSwitch { default: labels.get(default)?, pairs: pairs.iter().map(|(k, l)| Ok((*k, labels.get(l)?))).collect::<PResult<_>>()? }),
		I::IReturn => simple(172),
		I::LReturn => simple(173),
		I::FReturn => simple(174),
		I::DReturn => simple(175),
		I::AReturn => simple(176),
		I::Return => simple(177),
		I::GetStatic(r) => field(178, r),
		I::PutStatic(r) => field(179, r),
		I::GetField(r) => field(180, r),
		I::PutField(r) => field(181, r),
		I::InvokeVirtual(r) => invoke(182, r, false),
		I::InvokeSpecial(r, itf) => invoke(183, r, *itf),
		I::InvokeStatic(r, itf) => invoke(184, r, *itf),
		I::InvokeInterface(r) => invoke(185, r, true),
		I::InvokeDynamic(d) => Ok(Insn::InvokeDynamic {
			name: s(d.name.as_inner())?,
			desc: s(d.descriptor.as_inner())?,
			bsm: Bsm { handle: handle(&d.handle)?, args: d.arguments.iter().map(loadable).collect::<PResult<_>>()? },
		}),
		I::New(c) => ty(187, c),
		I::NewArray(t) => Ok(Insn::NewArray(match t {
			dc::ArrayType::Boolean => 4,
			dc::ArrayType::Char => 5,
			dc::ArrayType::Float => 6,
			dc::ArrayType::Double => 7,
			dc::ArrayType::Byte => 8,
			dc::ArrayType::Short => 9,
			dc::ArrayType::Int => 10,
			dc::ArrayType::Long => 11,
		})),
		I::ANewArray(c) => ty(189, c),
		I::ArrayLength => simple(190),
		I::AThrow => simple(191),
		I::CheckCast(c) => ty(192, c),
		I::InstanceOf(c) => ty(193, c),
		I::MonitorEnter => simple(194),
		I::MonitorExit => simple(195),
		I::MultiANewArray(c, d) => Ok(Insn::MultiANewArray { class: s(c.as_inner())?, dims: *d }),
		I::IfNull(l) => branch(198, l),
		I::IfNonNull(l) => branch(199, l),
	}
}

fn code_target(t: &dt::TargetInfoCode, labels: &Labels) -> PResult<Target> {
	use dt::TargetInfoCode as T;
	let table = |t: &Vec<(dc::LabelRange, dc::LvIndex)>| -> PResult<Vec<(usize, usize, u16)>> {
		t.iter()
			.map(|(r, i)| {
				let (a, b) = labels.range(r)?;
				Ok((a, b, i.index))
			})
			.collect()
	};
	Ok(match t {
		T::LocalVariable { table: t } => Target::LocalVariable(table(t)?),
		T::ResourceVariable { table: t } => Target::ResourceVariable(table(t)?),
		T::ExceptionParameter { index } => Target::ExceptionParameter(*index),
		T::InstanceOf(l) => Target::InstanceOf(labels.get(l)?),
		T::New(l) => Target::New(labels.get(l)?),
		T::ConstructorReference(l) => Target::ConstructorReference(labels.get(l)?),
		T::MethodReference(l) => Target::MethodReference(labels.get(l)?),
		T::Cast { label, index } => Target::Cast(labels.get(label)?, *index),
		T::ConstructorInvocationTypeArgument { label, index } => Target::ConstructorInvocationTypeArgument(labels.get(label)?, *index),
		T::MethodInvocationTypeArgument { label, index } => Target::MethodInvocationTypeArgument(labels.get(label)?, *index),
		T::ConstructorReferenceTypeArgument { label, index } => Target::ConstructorReferenceTypeArgument(labels.get(label)?, *index),
		T::MethodReferenceTypeArgument { label, index } => Target::MethodReferenceTypeArgument(labels.get(label)?, *index),
	})
}

pub fn code(c: &dc::Code) -> PResult<Code> {
	let mut at: HashMap<u16, usize> = HashMap::new();
	for (i, e) in c.instructions.iter().enumerate() {
		if let Some(l) = &e.label {
			if at.insert(verif::label_id(l), i).is_some() {
				return Err(format!("label {l:?} is attached to two instructions"));
			}
		}
	}
	if let Some(l) = &c.last_label {
		if at.insert(verif::label_id(l), c.instructions.len()).is_some() {
			return Err(format!("last label {l:?} is also attached to an instruction"));
		}
	}
	let labels = Labels { at };
	let mut out = Code {
		max_stack: c.max_stack.ok_or("max_stack missing")?,
		max_locals: c.max_locals.ok_or("max_locals missing")?,
		insns: c.instructions.iter().map(|e| insn(&e.instruction, &labels)).collect::<PResult<_>>()?,
		exceptions: c
			.exception_table
			.iter()
			.map(|e| Ok(ExcEntry { start: labels.get(&e.start)?, end: labels.get(&e.end)?, handler: labels.get(&e.handler)?, catch: e.catch.as_ref().map(|c| s(c.as_inner())).transpose()? }))
			.collect::<PResult<_>>()?,
		attrs: Vec::new(),
	};
	if let Some(t) = &c.line_numbers {
		out.attrs.push(Attr::LineNumberTable(t.iter().map(|(l, n)| Ok((labels.get(l)?, *n))).collect::<PResult<_>>()?));
	}
	if let Some(t) = &c.local_variables {
		let mut lvt = Vec::new();
		let mut lvtt = Vec::new();
		let mut has_lvt = false;
		let mut has_lvtt = false;
		for lv in t {
			let (start, end) = labels.range(&lv.range)?;
			if let Some(d) = &lv.descriptor {
				has_lvt = true;
				lvt.push(LocalVar { start, end, name: s(lv.name.as_inner())?, ty: s(d.as_inner())?, index: lv.index.index });
			}
			if let Some(d) = &lv.signature {
				has_lvtt = true;
				lvtt.push(LocalVar { start, end, name: s(lv.name.as_inner())?, ty: s(d.as_inner())?, index: lv.index.index });
			}
		}
		// an empty table cannot be told from an absent one in the tree once both kinds share a list
		if has_lvt || (t.is_empty()) {
			out.attrs.push(Attr::LocalVariableTable(lvt));
		}
		if has_lvtt {
			out.attrs.push(Attr::LocalVariableTypeTable(lvtt));
		}
	}
	let mut frames = Vec::new();
	for (i, e) in c.instructions.iter().enumerate() {
		if let Some(f) = &e.frame {
			let kind = match f {
				StackMapData::Same => FrameKind::Same,
				StackMapData::SameLocals1StackItem { stack } => FrameKind::Same1(vtype(stack, &labels)?),
				StackMapData::Chop { k } => FrameKind::Chop(*k),
				StackMapData::Append { locals } => FrameKind::Append(locals.iter().map(|v| vtype(v, &labels)).collect::<PResult<_>>()?),
				StackMapData::Full { locals, stack } => FrameKind::Full(locals.iter().map(|v| vtype(v, &labels)).collect::<PResult<_>>()?, stack.iter().map(|v| vtype(v, &labels)).collect::<PResult<_>>()?),
			};
			frames.push(Frame { at: i, kind });
		}
	}
	if !frames.is_empty() {
		out.attrs.push(Attr::StackMapTable(frames));
	}
	type_annotations(&c.runtime_visible_type_annotations, &c.runtime_invisible_type_annotations, &|t| code_target(t, &labels), &mut out.attrs)?;
	unknown(&c.attributes, &mut out.attrs)?;
	Ok(out)
}

fn field(f: &df::Field) -> PResult<CMember> {
	let a = &f.access;
	let access = bits(&[
		(a.is_public, 0x0001),
		(a.is_private, 0x0002),
		(a.is_protected, 0x0004),
		(a.is_static, 0x0008),
		(a.is_final, 0x0010),
		(a.is_volatile, 0x0040),
		(a.is_transient, 0x0080),
		(a.is_synthetic, 0x1000),
		(a.is_enum, 0x4000),
	]);
	let mut attrs = Vec::new();
	if f.has_deprecated_attribute {
		attrs.push(Attr::Deprecated);
	}
	if f.has_synthetic_attribute {
		attrs.push(Attr::Synthetic);
	}
	if let Some(c) = &f.constant_value {
		attrs.push(Attr::ConstantValue(match c {
			df::ConstantValue::Integer(v) => Const::Int(*v),
			df::ConstantValue::Float(v) => Const::Float(v.to_bits()),
			df::ConstantValue::Long(v) => Const::Long(*v),
			df::ConstantValue::Double(v) => Const::Double(v.to_bits()),
			df::ConstantValue::String(v) => Const::Str(s(v)?),
		}));
	}
	if let Some(x) = &f.signature {
		attrs.push(Attr::Signature(s(x.as_inner())?));
	}
	annotations(&f.runtime_visible_annotations, &f.runtime_invisible_annotations, &mut attrs)?;
	type_annotations(&f.runtime_visible_type_annotations, &f.runtime_invisible_type_annotations, &|_t: &dt::TargetInfoField| Ok(Target::Field), &mut attrs)?;
	unknown(&f.attributes, &mut attrs)?;
	Ok(CMember { access, name: s(f.name.as_inner())?, desc: s(f.descriptor.as_inner())?, attrs })
}

fn method(m: &dm::Method) -> PResult<CMember> {
	let a = &m.access;
	let access = bits(&[
		(a.is_public, 0x0001),
		(a.is_private, 0x0002),
		(a.is_protected, 0x0004),
		(a.is_static, 0x0008),
		(a.is_final, 0x0010),
		(a.is_synchronized, 0x0020),
		(a.is_bridge, 0x0040),
		(a.is_varargs, 0x0080),
		(a.is_native, 0x0100),
		(a.is_abstract, 0x0400),
		(a.is_strict, 0x0800),
		(a.is_synthetic, 0x1000),
	]);
	let mut attrs = Vec::new();
	if m.has_deprecated_attribute {
		attrs.push(Attr::Deprecated);
	}
	if m.has_synthetic_attribute {
		attrs.push(Attr::Synthetic);
	}
	if let Some(c) = &m.code {
		attrs.push(Attr::Code(code(c).map_err(|e| format!("in code of {:?}{:?}: {e}", m.name, m.descriptor))?));
	}
	if let Some(e) = &m.exceptions {
		attrs.push(Attr::Exceptions(e.iter().map(|c| s(c.as_inner())).collect::<PResult<_>>()?));
	}
	if let Some(x) = &m.signature {
		attrs.push(Attr::Signature(s(x.as_inner())?));
	}
	annotations(&m.runtime_visible_annotations, &m.runtime_invisible_annotations, &mut attrs)?;
	type_annotations(
		&m.runtime_visible_type_annotations,
		&m.runtime_invisible_type_annotations,
		&|t: &dt::TargetInfoMethod| {
			Ok(match t {
				dt::TargetInfoMethod::MethodTypeParameter { index } => Target::MethodTypeParameter(*index),
				dt::TargetInfoMethod::MethodTypeParameterBound { type_parameter_index, bound_index } => Target::MethodTypeParameterBound(*type_parameter_index, *bound_index),
				dt::TargetInfoMethod::Return => Target::Return,
				dt::TargetInfoMethod::Receiver => Target::Receiver,
				dt::TargetInfoMethod::FormalParameter { index } => Target::FormalParameter(*index),
				dt::TargetInfoMethod::Throws { index } => Target::Throws(*index),
			})
		},
		&mut attrs,
	)?;
	if let Some(d) = &m.annotation_default {
		attrs.push(Attr::AnnotationDefault(element_value(d)?));
	}
	if let Some(p) = &m.method_parameters {
		attrs.push(Attr::MethodParameters(
			p.iter()
				.map(|p| Ok((p.name.as_ref().map(|n| s(n.as_inner())).transpose()?, bits(&[(p.flags.is_final, 0x0010), (p.flags.is_synthetic, 0x1000), (p.flags.is_mandated, 0x8000)]))))
				.collect::<PResult<_>>()?,
		));
	}
	unknown(&m.attributes, &mut attrs)?;
	Ok(CMember { access, name: s(m.name.as_inner())?, desc: s(m.descriptor.as_inner())?, attrs })
}

fn inner_flags(f: &InnerClassFlags) -> u16 {
	bits(&[
		(f.is_public, 0x0001),
		(f.is_private, 0x0002),
		(f.is_protected, 0x0004),
		(f.is_static, 0x0008),
		(f.is_final, 0x0010),
		(f.is_interface, 0x0200),
		(f.is_abstract, 0x0400),
		(f.is_synthetic, 0x1000),
		(f.is_annotation, 0x2000),
		(f.is_enum, 0x4000),
	])
}

/// the canonical model of a duke tree
pub fn project(c: &ClassFile) -> PResult<CClass> {
	let (major, minor) = verif::version(&c.version);
	let a = &c.access;
	let access = bits(&[
		(a.is_public, 0x0001),
		(a.is_final, 0x0010),
		(a.is_super, 0x0020),
		(a.is_interface, 0x0200),
		(a.is_abstract, 0x0400),
		(a.is_synthetic, 0x1000),
		(a.is_annotation, 0x2000),
		(a.is_enum, 0x4000),
		(a.is_module, 0x8000),
	]);
	let mut attrs = Vec::new();
	if c.has_deprecated_attribute {
		attrs.push(Attr::Deprecated);
	}
	if c.has_synthetic_attribute {
		attrs.push(Attr::Synthetic);
	}
	if let Some(list) = &c.inner_classes {
		attrs.push(Attr::InnerClasses(
			list.iter()
				.map(|ic| {
					Ok(InnerClass {
						inner: s(ic.inner_class.as_inner())?,
						outer: ic.outer_class.as_ref().map(|o| s(o.as_inner())).transpose()?,
						name: ic.inner_name.as_ref().map(|n| s(n)).transpose()?,
						flags: inner_flags(&ic.flags),
					})
				})
				.collect::<PResult<_>>()?,
		));
	}
	if let Some(em) = &c.enclosing_method {
		attrs.push(Attr::EnclosingMethod { class: s(em.class.as_inner())?, method: em.method.as_ref().map(|m| Ok::<_, String>((s(m.name.as_inner())?, s(m.desc.as_inner())?))).transpose()? });
	}
	if let Some(x) = &c.signature {
		attrs.push(Attr::Signature(s(x.as_inner())?));
	}
	if let Some(x) = &c.source_file {
		attrs.push(Attr::SourceFile(s(x)?));
	}
	if let Some(x) = &c.source_debug_extension {
		attrs.push(Attr::SourceDebugExtension(s(x)?));
	}
	annotations(&c.runtime_visible_annotations, &c.runtime_invisible_annotations, &mut attrs)?;
	type_annotations(
		&c.runtime_visible_type_annotations,
		&c.runtime_invisible_type_annotations,
		&|t: &dt::TargetInfoClass| {
			Ok(match t {
				dt::TargetInfoClass::ClassTypeParameter { index } => Target::ClassTypeParameter(*index),
				dt::TargetInfoClass::Extends => Target::Extends,
				dt::TargetInfoClass::Implements { index } => Target::Implements(*index),
				dt::TargetInfoClass::ClassTypeParameterBound { type_parameter_index, bound_index } => Target::ClassTypeParameterBound(*type_parameter_index, *bound_index),
			})
		},
		&mut attrs,
	)?;
	if let Some(m) = &c.module {
		let v = verif::module(m);
		let strs = |l: &[duke::tree::module::ModuleName]| -> PResult<Vec<String>> { l.iter().map(|x| s(x.as_inner())).collect() };
		attrs.push(Attr::Module(Module {
			name: s(v.name.as_inner())?,
			flags: v.flags,
			version: v.version.map(|x| s(x)).transpose()?,
			requires: v.requires.iter().map(|(n, f, ver)| Ok((s(n.as_inner())?, *f, ver.map(|x| s(x)).transpose()?))).collect::<PResult<_>>()?,
			exports: v.exports.iter().map(|(n, f, to)| Ok((s(n.as_inner())?, *f, strs(to)?))).collect::<PResult<_>>()?,
			opens: v.opens.iter().map(|(n, f, to)| Ok((s(n.as_inner())?, *f, strs(to)?))).collect::<PResult<_>>()?,
			uses: v.uses.iter().map(|x| s(x.as_inner())).collect::<PResult<_>>()?,
			provides: v.provides.iter().map(|(n, with)| Ok((s(n.as_inner())?, with.iter().map(|x| s(x.as_inner())).collect::<PResult<_>>()?))).collect::<PResult<_>>()?,
		}));
	}
	if let Some(p) = &c.module_packages {
		attrs.push(Attr::ModulePackages(p.iter().map(|x| s(x.as_inner())).collect::<PResult<_>>()?));
	}
	if let Some(x) = &c.module_main_class {
		attrs.push(Attr::ModuleMainClass(s(x.as_inner())?));
	}
	if let Some(x) = &c.nest_host_class {
		attrs.push(Attr::NestHost(s(x.as_inner())?));
	}
	if let Some(l) = &c.nest_members {
		attrs.push(Attr::NestMembers(l.iter().map(|x| s(x.as_inner())).collect::<PResult<_>>()?));
	}
	if let Some(l) = &c.permitted_subclasses {
		attrs.push(Attr::PermittedSubclasses(l.iter().map(|x| s(x.as_inner())).collect::<PResult<_>>()?));
	}
	if !c.record_components.is_empty() {
		let mut comps = Vec::new();
		for rc in &c.record_components {
			let v = verif::record_component(rc);
			let mut a = Vec::new();
			if let Some(x) = v.signature {
				a.push(Attr::Signature(s(x.as_inner())?));
			}
			annotations(v.runtime_visible_annotations, v.runtime_invisible_annotations, &mut a)?;
			type_annotations(v.runtime_visible_type_annotations, v.runtime_invisible_type_annotations, &|_t: &dt::TargetInfoField| Ok(Target::Field), &mut a)?;
			unknown(v.attributes, &mut a)?;
			comps.push(RecordComponent { name: s(rc.name.as_inner())?, desc: s(rc.descriptor.as_inner())?, attrs: a });
		}
		attrs.push(Attr::Record(comps));
	}
	unknown(&c.attributes, &mut attrs)?;
	let class = CClass {
		minor,
		major,
		access,
		name: s(c.name.as_inner())?,
		super_class: c.super_class.as_ref().map(|x| s(x.as_inner())).transpose()?,
		interfaces: c.interfaces.iter().map(|x| s(x.as_inner())).collect::<PResult<_>>()?,
		fields: c.fields.iter().map(field).collect::<PResult<_>>()?,
		methods: c.methods.iter().map(method).collect::<PResult<_>>()?,
		attrs,
	};
	Ok(class.canon())
}
