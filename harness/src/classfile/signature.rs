//! Generic signatures (JVMS 4.7.9.1): a walker that finds the class names inside a class, field or method signature,
//! a reference renamer built on it, and a small generator.  Written from the grammar, not from any remapper.

pub type R<T> = Result<T, String>;

struct P<'a> {
	s: &'a [char],
	i: usize,
	out: String,
	/// names only (every identifier and class name replaced by `#`)
	shape: String,
	dotted: bool,
}

impl P<'_> {
	fn peek(&self) -> Option<char> {
		self.s.get(self.i).copied()
	}
	fn eat(&mut self, c: char) -> R<()> {
		if self.peek() == Some(c) {
			self.i += 1;
			self.out.push(c);
			self.shape.push(c);
			Ok(())
		} else {
			Err(format!("expected {c:?} at {}", self.i))
		}
	}
	fn ident(&mut self, stop: &[char]) -> R<String> {
		let start = self.i;
		while let Some(c) = self.peek() {
			if stop.contains(&c) {
				break;
			}
			self.i += 1;
		}
		if self.i == start {
			return Err(format!("empty identifier at {start}"));
		}
		Ok(self.s[start..self.i].iter().collect())
	}
	fn type_args(&mut self, map: &mut dyn FnMut(&str) -> R<String>) -> R<()> {
		self.eat('<')?;
		loop {
			match self.peek() {
				Some('*') => self.eat('*')?,
				Some(c @ ('+' | '-')) => {
					self.eat(c)?;
					self.reference(map)?;
				}
				_ => self.reference(map)?,
			}
			if self.peek() == Some('>') {
				break;
			}
		}
		self.eat('>')
	}
	fn class_type(&mut self, map: &mut dyn FnMut(&str) -> R<String>) -> R<()> {
		self.eat('L')?;
		let name = self.ident(&['<', '.', ';', ':', '>', '[', '(', ')', '^'])?;
		let mut old_full = name.clone();
		let mut new_full = map(&name)?;
		self.out.push_str(&new_full);
		self.shape.push('#');
		if self.peek() == Some('<') {
			self.type_args(map)?;
		}
		while self.peek() == Some('.') {
			self.dotted = true;
			self.eat('.')?;
			let inner = self.ident(&['<', '.', ';', ':', '>', '[', '(', ')', '^', '/'])?;
			old_full = format!("{old_full}${inner}");
			let mapped = map(&old_full)?;
			let suffix = match mapped.strip_prefix(&format!("{new_full}$")) {
				Some(x) => x.to_string(),
				None => mapped.rsplit_once('$').map(|x| x.1.to_string()).unwrap_or_else(|| mapped.clone()),
			};
			self.out.push_str(&suffix);
			self.shape.push('#');
			new_full = mapped;
			if self.peek() == Some('<') {
				self.type_args(map)?;
			}
		}
		self.eat(';')
	}
	fn reference(&mut self, map: &mut dyn FnMut(&str) -> R<String>) -> R<()> {
		match self.peek() {
			Some('L') => self.class_type(map),
			Some('T') => {
				self.eat('T')?;
				let id = self.ident(&[';', '<', '>', '.', '/', ':', '[', '('])?;
				self.out.push_str(&id);
				self.shape.push('#');
				self.eat(';')
			}
			Some('[') => {
				self.eat('[')?;
				self.java_type(map)
			}
			other => Err(format!("reference type expected at {}, found {other:?}", self.i)),
		}
	}
	fn java_type(&mut self, map: &mut dyn FnMut(&str) -> R<String>) -> R<()> {
		match self.peek() {
			Some(c @ ('B' | 'C' | 'D' | 'F' | 'I' | 'J' | 'S' | 'Z')) => self.eat(c),
			_ => self.reference(map),
		}
	}
	fn type_params(&mut self, map: &mut dyn FnMut(&str) -> R<String>) -> R<()> {
		self.eat('<')?;
		loop {
			let id = self.ident(&[':', ';', '<', '>', '.', '/', '['])?;
			self.out.push_str(&id);
			self.shape.push('#');
			self.eat(':')?;
			if matches!(self.peek(), Some('L' | 'T' | '[')) {
				self.reference(map)?;
			}
			while self.peek() == Some(':') {
				self.eat(':')?;
				self.reference(map)?;
			}
			if self.peek() == Some('>') {
				break;
			}
		}
		self.eat('>')
	}
	fn any(&mut self, map: &mut dyn FnMut(&str) -> R<String>) -> R<()> {
		if self.peek() == Some('<') {
			self.type_params(map)?;
		}
		if self.peek() == Some('(') {
			self.eat('(')?;
			while self.peek() != Some(')') {
				self.java_type(map)?;
			}
			self.eat(')')?;
			if self.peek() == Some('V') {
				self.eat('V')?;
			} else {
				self.java_type(map)?;
			}
			while self.peek() == Some('^') {
				self.eat('^')?;
				self.reference(map)?;
			}
		} else {
			// class signature: super class and interfaces; field signature: one reference type
			self.reference(map)?;
			while self.i < self.s.len() {
				self.reference(map)?;
			}
		}
		if self.i != self.s.len() {
			return Err(format!("trailing text at {}", self.i));
		}
		Ok(())
	}
}

pub struct Renamed {
	pub text: String,
	pub shape: String,
	/// the signature uses the `Outer<..>.Inner` form
	pub dotted: bool,
}

/// `None` when `sig` is not a class, field or method signature of the grammar (then it is opaque text)
pub fn rename_signature(sig: &str, map: &mut dyn FnMut(&str) -> R<String>) -> Option<R<Renamed>> {
	let chars: Vec<char> = sig.chars().collect();
	// a dry run with the identity decides whether the text is in the grammar
	let mut dry = P { s: &chars, i: 0, out: String::new(), shape: String::new(), dotted: false };
	if dry.any(&mut |n| Ok(n.to_string())).is_err() {
		return None;
	}
	let mut p = P { s: &chars, i: 0, out: String::new(), shape: String::new(), dotted: false };
	Some(p.any(map).map(|_| Renamed { text: p.out, shape: p.shape, dotted: p.dotted }))
}

pub fn shape(sig: &str) -> Option<String> {
	rename_signature(sig, &mut |n| Ok(n.to_string())).and_then(|r| r.ok()).map(|r| r.shape)
}

// ---------------------------------------------------------------------------------------------
// generator (driven by a number the proptest strategy supplies: no RNG of its own)

pub struct SigGen {
	state: u64,
	pub names: Vec<String>,
}

impl SigGen {
	pub fn new(seed: u64, names: Vec<String>) -> SigGen {
		SigGen { state: seed | 1, names }
	}
	fn next(&mut self) -> u64 {
		// xorshift64*: a pure function of the seed
		self.state ^= self.state >> 12;
		self.state ^= self.state << 25;
		self.state ^= self.state >> 27;
		self.state.wrapping_mul(0x2545F4914F6CDD1D) >> 16
	}
	fn pick(&mut self, n: usize) -> usize {
		(self.next() % n.max(1) as u64) as usize
	}
	fn class_name(&mut self) -> String {
		let k = self.pick(self.names.len());
		self.names[k].clone()
	}
	fn reference(&mut self, depth: usize) -> String {
		match self.pick(if depth > 2 { 3 } else { 8 }) {
			0 => "TT;".to_string(),
			1 | 2 => format!("L{};", self.class_name()),
			3 => format!("[{}", self.java_type(depth + 1)),
			4 | 5 => {
				let n = 1 + self.pick(2);
				let args: String = (0..n)
					.map(|_| match self.pick(5) {
						0 => "*".to_string(),
						1 => format!("+{}", self.reference(depth + 1)),
						2 => format!("-{}", self.reference(depth + 1)),
						_ => self.reference(depth + 1),
					})
					.collect();
				format!("L{}<{}>;", self.class_name(), args)
			}
			6 => {
				// Outer<..>.Inner for a name that has an inner part
				let candidates: Vec<String> = self.names.iter().filter(|n| n.rsplit_once('$').is_some_and(|(p, i)| !p.is_empty() && !i.is_empty() && !i.contains('/') && !p.ends_with('/'))).cloned().collect();
				if candidates.is_empty() {
					format!("L{};", self.class_name())
				} else {
					let k = self.pick(candidates.len());
					let (outer, inner) = candidates[k].rsplit_once('$').unwrap();
					format!("L{outer}<{}>.{inner};", self.reference(depth + 1))
				}
			}
			_ => format!("L{};", self.class_name()),
		}
	}
	fn java_type(&mut self, depth: usize) -> String {
		if self.pick(4) == 0 {
			["I", "J", "Z", "D"][self.pick(4)].to_string()
		} else {
			self.reference(depth)
		}
	}
	fn type_params(&mut self) -> String {
		match self.pick(4) {
			0 => format!("<T:{}>", self.reference(1)),
			1 => format!("<T::{}U:{}:{}>", self.reference(1), self.reference(1), self.reference(1)),
			_ => String::new(),
		}
	}
	pub fn class_signature(&mut self) -> String {
		let n = self.pick(3);
		let mut s = self.type_params();
		s.push_str(&format!("L{};", self.class_name()));
		for _ in 0..n {
			s.push_str(&self.reference(1));
		}
		s
	}
	pub fn field_signature(&mut self) -> String {
		self.reference(0)
	}
	pub fn method_signature(&mut self) -> String {
		let n = self.pick(3);
		let mut s = self.type_params();
		s.push('(');
		for _ in 0..n {
			s.push_str(&self.java_type(0));
		}
		s.push(')');
		if self.pick(3) == 0 {
			s.push('V');
		} else {
			s.push_str(&self.java_type(0));
		}
		if self.pick(4) == 0 {
			s.push_str(&format!("^L{};", self.class_name()));
		}
		s
	}
}

#[cfg(test)]
mod tests {
	use super::*;
	#[test]
	fn renames() {
		let mut m = |n: &str| Ok(if n == "a/B" { "x/Y".to_string() } else if n == "a/B$C" { "x/Y$Z".to_string() } else { n.to_string() });
		let r = rename_signature("<T:Ljava/lang/Object;>(La/B<TT;>.C;[I)Ljava/util/List<+La/B;>;^La/B;", &mut m).unwrap().unwrap();
		assert_eq!(r.text, "<T:Ljava/lang/Object;>(Lx/Y<TT;>.Z;[I)Ljava/util/List<+Lx/Y;>;^Lx/Y;");
		assert!(r.dotted);
		assert!(rename_signature("hello", &mut m).is_none());
		assert!(rename_signature("La/B;La/B;", &mut m).is_some());
	}
}
