//! Strict class file decoder / structural validator (JVMS §4), independent of duke.
//! Every index must be in range and of the right kind, every length exact, no trailing bytes.

use super::model::*;
use std::collections::HashMap;

pub type DResult<T> = Result<T, String>;

struct R<'a> {
	b: &'a [u8],
	pos: usize,
}

impl<'a> R<'a> {
	fn new(b: &'a [u8]) -> R<'a> {
		R { b, pos: 0 }
	}
	fn left(&self) -> usize {
		self.b.len() - self.pos
	}
	fn bytes(&mut self, n: usize) -> DResult<&'a [u8]> {
		if self.left() < n {
			return Err(format!("unexpected end of data at offset {} (need {n} bytes, have {})", self.pos, self.left()));
		}
		let s = &self.b[self.pos..self.pos + n];
		self.pos += n;
		Ok(s)
	}
	fn u8(&mut self) -> DResult<u8> {
		Ok(self.bytes(1)?[0])
	}
	fn u16(&mut self) -> DResult<u16> {
		let b = self.bytes(2)?;
		Ok(u16::from_be_bytes([b[0], b[1]]))
	}
	fn u32(&mut self) -> DResult<u32> {
		let b = self.bytes(4)?;
		Ok(u32::from_be_bytes([b[0], b[1], b[2], b[3]]))
	}
	fn i32(&mut self) -> DResult<i32> {
		Ok(self.u32()? as i32)
	}
	fn u64(&mut self) -> DResult<u64> {
		let b = self.bytes(8)?;
		Ok(u64::from_be_bytes(b.try_into().unwrap()))
	}
	fn done(&self, what: &str) -> DResult<()> {
		if self.left() != 0 {
			return Err(format!("{what}: {} bytes left over (length field not exact)", self.left()));
		}
		Ok(())
	}
}

/// strict modified UTF-8 decoding
pub fn from_mutf8(b: &[u8]) -> DResult<String> {
	let mut units: Vec<u16> = Vec::with_capacity(b.len());
	let mut i = 0;
	while i < b.len() {
		let x = b[i];
		if x == 0 || x >= 0xF0 {
			return Err(format!("illegal byte {x:#x} in modified UTF-8"));
		} else if x < 0x80 {
			units.push(x as u16);
			i += 1;
		} else if x & 0xE0 == 0xC0 {
			let y = *b.get(i + 1).ok_or("truncated modified UTF-8")?;
			if y & 0xC0 != 0x80 {
				return Err("bad continuation byte".into());
			}
			units.push((((x & 0x1F) as u16) << 6) | (y & 0x3F) as u16);
			i += 2;
		} else if x & 0xF0 == 0xE0 {
			let y = *b.get(i + 1).ok_or("truncated modified UTF-8")?;
			let z = *b.get(i + 2).ok_or("truncated modified UTF-8")?;
			if y & 0xC0 != 0x80 || z & 0xC0 != 0x80 {
				return Err("bad continuation byte".into());
			}
			units.push((((x & 0x0F) as u16) << 12) | (((y & 0x3F) as u16) << 6) | (z & 0x3F) as u16);
			i += 3;
		} else {
			return Err(format!("illegal lead byte {x:#x} in modified UTF-8"));
		}
	}
	String::from_utf16(&units).map_err(|_| "unpaired surrogate (not representable in the model)".to_string())
}

#[derive(Clone, Debug)]
enum CP {
	Utf8(String),
	Int(i32),
	Float(u32),
	Long(i64),
	Double(u64),
	Class(u16),
	Str(u16),
	Field(u16, u16),
	Method(u16, u16),
	IMethod(u16, u16),
	Nat(u16, u16),
	Handle(u8, u16),
	MType(u16),
	Dynamic(u16, u16),
	Indy(u16, u16),
	Module(u16),
	Package(u16),
}

struct Pool {
	e: Vec<Option<CP>>,
	bsms: Vec<(u16, Vec<u16>)>,
	/// major version of the class file (the content of switch padding is unconstrained from 51 on)
	major: u16,
}

impl Pool {
	fn get(&self, i: u16) -> DResult<&CP> {
		self.e.get(i as usize).and_then(|x| x.as_ref()).ok_or_else(|| format!("constant pool index {i} out of range or unusable (pool size {})", self.e.len()))
	}
	fn utf8(&self, i: u16) -> DResult<String> {
		match self.get(i)? {
			CP::Utf8(s) => Ok(s.clone()),
			o => Err(format!("constant pool index {i}: expected Utf8, found {o:?}")),
		}
	}
	fn opt_utf8(&self, i: u16) -> DResult<Option<String>> {
		if i == 0 {
			Ok(None)
		} else {
			self.utf8(i).map(Some)
		}
	}
	fn class(&self, i: u16) -> DResult<String> {
		match self.get(i)? {
			CP::Class(n) => self.utf8(*n),
			o => Err(format!("constant pool index {i}: expected Class, found {o:?}")),
		}
	}
	fn opt_class(&self, i: u16) -> DResult<Option<String>> {
		if i == 0 {
			Ok(None)
		} else {
			self.class(i).map(Some)
		}
	}
	fn module(&self, i: u16) -> DResult<String> {
		match self.get(i)? {
			CP::Module(n) => self.utf8(*n),
			o => Err(format!("constant pool index {i}: expected Module, found {o:?}")),
		}
	}
	fn package(&self, i: u16) -> DResult<String> {
		match self.get(i)? {
			CP::Package(n) => self.utf8(*n),
			o => Err(format!("constant pool index {i}: expected Package, found {o:?}")),
		}
	}
	fn nat(&self, i: u16) -> DResult<(String, String)> {
		match self.get(i)? {
			CP::Nat(n, d) => Ok((self.utf8(*n)?, self.utf8(*d)?)),
			o => Err(format!("constant pool index {i}: expected NameAndType, found {o:?}")),
		}
	}
	fn int(&self, i: u16) -> DResult<i32> {
		match self.get(i)? {
			CP::Int(v) => Ok(*v),
			o => Err(format!("constant pool index {i}: expected Integer, found {o:?}")),
		}
	}
	/// (owner, name, desc, is_interface_method_ref)
	fn member_ref(&self, i: u16, want_field: bool) -> DResult<(String, String, String, bool)> {
		match (self.get(i)?, want_field) {
			(CP::Field(c, n), true) => {
				let (name, desc) = self.nat(*n)?;
				Ok((self.class(*c)?, name, desc, false))
			}
			(CP::Method(c, n), false) => {
				let (name, desc) = self.nat(*n)?;
				Ok((self.class(*c)?, name, desc, false))
			}
			(CP::IMethod(c, n), false) => {
				let (name, desc) = self.nat(*n)?;
				Ok((self.class(*c)?, name, desc, true))
			}
			(o, _) => Err(format!("constant pool index {i}: expected {}, found {o:?}", if want_field { "Fieldref" } else { "Methodref/InterfaceMethodref" })),
		}
	}
	fn handle(&self, i: u16) -> DResult<Handle> {
		match self.get(i)? {
			CP::Handle(kind, r) => {
				let (owner, name, desc, itf) = match kind {
					1..=4 => self.member_ref(*r, true)?,
					5 | 8 => {
						let m = self.member_ref(*r, false)?;
						if m.3 {
							return Err(format!("method handle kind {kind} must reference a Methodref"));
						}
						m
					}
					6 | 7 => self.member_ref(*r, false)?,
					9 => {
						let m = self.member_ref(*r, false)?;
						if !m.3 {
							return Err("method handle kind 9 must reference an InterfaceMethodref".into());
						}
						m
					}
					k => return Err(format!("illegal method handle kind {k}")),
				};
				Ok(Handle { kind: *kind, owner, name, desc, itf })
			}
			o => Err(format!("constant pool index {i}: expected MethodHandle, found {o:?}")),
		}
	}
	fn bsm(&self, i: u16, depth: usize) -> DResult<Bsm> {
		let (h, args) = self.bsms.get(i as usize).ok_or_else(|| format!("bootstrap method index {i} out of range ({} methods)", self.bsms.len()))?;
		let handle = self.handle(*h)?;
		let mut a = Vec::new();
		for x in args {
			a.push(self.loadable(*x, depth + 1)?);
		}
		Ok(Bsm { handle, args: a })
	}
	fn loadable(&self, i: u16, depth: usize) -> DResult<Const> {
		if depth > 32 {
			return Err("bootstrap arguments nest too deeply (cycle?)".into());
		}
		Ok(match self.get(i)? {
			CP::Int(v) => Const::Int(*v),
			CP::Float(v) => Const::Float(*v),
			CP::Long(v) => Const::Long(*v),
			CP::Double(v) => Const::Double(*v),
			CP::Class(n) => Const::Class(self.utf8(*n)?),
			CP::Str(n) => Const::Str(self.utf8(*n)?),
			CP::Handle(..) => Const::MethodHandle(self.handle(i)?),
			CP::MType(d) => Const::MethodType(self.utf8(*d)?),
			CP::Dynamic(b, n) => {
				let (name, desc) = self.nat(*n)?;
				Const::Dynamic { name, desc, bsm: Box::new(self.bsm(*b, depth)?) }
			}
			o => return Err(format!("constant pool index {i}: not loadable: {o:?}")),
		})
	}
	/// every entry references entries of the right kind, and the descriptors of member references, dynamic
	/// constants, call sites and method types follow the grammar of JVMS 4.3 (a file with a malformed
	/// descriptor there is not a valid class file, whatever a lenient reader makes of it)
	fn validate(&self) -> DResult<()> {
		for (i, e) in self.e.iter().enumerate() {
			let i = i as u16;
			match e {
				None => {}
				Some(CP::MType(n)) => {
					let d = self.utf8(*n).map_err(|e| format!("entry {i}: {e}"))?;
					method_descriptor_ok(&d).map_err(|e| format!("entry {i} (MethodType): {e}"))?;
				}
				Some(CP::Class(n)) | Some(CP::Str(n)) | Some(CP::Module(n)) | Some(CP::Package(n)) => {
					self.utf8(*n).map_err(|e| format!("entry {i}: {e}"))?;
				}
				Some(CP::Nat(..)) => {
					self.nat(i)?;
				}
				Some(CP::Field(..)) => {
					let m = self.member_ref(i, true)?;
					field_descriptor_ok(&m.2).map_err(|e| format!("entry {i} (Fieldref): {e}"))?;
				}
				Some(CP::Method(..)) | Some(CP::IMethod(..)) => {
					let m = self.member_ref(i, false)?;
					method_descriptor_ok(&m.2).map_err(|e| format!("entry {i} (Methodref): {e}"))?;
				}
				Some(CP::Handle(..)) => {
					self.handle(i)?;
				}
				Some(CP::Dynamic(_, n)) => {
					let (_, d) = self.nat(*n)?;
					field_descriptor_ok(&d).map_err(|e| format!("entry {i} (Dynamic): {e}"))?;
				}
				Some(CP::Indy(_, n)) => {
					let (_, d) = self.nat(*n)?;
					method_descriptor_ok(&d).map_err(|e| format!("entry {i} (InvokeDynamic): {e}"))?;
				}
				_ => {}
			}
		}
		Ok(())
	}
}

/// one FieldType of JVMS 4.3.2 at the start of `s`; returns the rest and the number of local-variable slots
fn field_type(s: &str) -> DResult<(&str, usize)> {
	let mut rest = s;
	let mut dims = 0;
	while let Some(r) = rest.strip_prefix('[') {
		rest = r;
		dims += 1;
	}
	if dims > 255 {
		return Err(format!("more than 255 array dimensions in {s:?}"));
	}
	let mut chars = rest.chars();
	match chars.next() {
		Some('B' | 'C' | 'F' | 'I' | 'S' | 'Z') => Ok((chars.as_str(), 1)),
		Some('D' | 'J') => Ok((chars.as_str(), if dims > 0 { 1 } else { 2 })),
		Some('L') => {
			let body = chars.as_str();
			let end = body.find(';').ok_or_else(|| format!("class type without ';' in {s:?}"))?;
			let name = &body[..end];
			if name.is_empty() || name.split('/').any(|seg| seg.is_empty() || seg.contains(['.', '['])) {
				return Err(format!("illegal class name {name:?} in descriptor {s:?}"));
			}
			Ok((&body[end + 1..], 1))
		}
		_ => Err(format!("not a field type: {s:?}")),
	}
}

pub fn field_descriptor_ok(d: &str) -> DResult<()> {
	match field_type(d)? {
		("", _) => Ok(()),
		(rest, _) => Err(format!("trailing {rest:?} after field descriptor {d:?}")),
	}
}

pub fn method_descriptor_ok(d: &str) -> DResult<()> {
	let mut rest = d.strip_prefix('(').ok_or_else(|| format!("method descriptor {d:?} does not start with '('"))?;
	let mut slots = 0;
	loop {
		if let Some(r) = rest.strip_prefix(')') {
			rest = r;
			break;
		}
		if rest.is_empty() {
			return Err(format!("method descriptor {d:?} has no ')'"));
		}
		let (r, n) = field_type(rest)?;
		rest = r;
		slots += n;
	}
	if slots > 255 {
		return Err(format!("method descriptor {d:?} needs more than 255 parameter slots"));
	}
	if rest == "V" {
		return Ok(());
	}
	field_descriptor_ok(rest)
}

fn read_pool(r: &mut R) -> DResult<Pool> {
	let count = r.u16()? as usize;
	if count == 0 {
		return Err("constant_pool_count is 0".into());
	}
	let mut e: Vec<Option<CP>> = vec![None];
	while e.len() < count {
		let tag = r.u8()?;
		let cp = match tag {
			1 => {
				let n = r.u16()? as usize;
				CP::Utf8(from_mutf8(r.bytes(n)?)?)
			}
			3 => CP::Int(r.i32()?),
			4 => CP::Float(r.u32()?),
			5 => CP::Long(r.u64()? as i64),
			6 => CP::Double(r.u64()?),
			7 => CP::Class(r.u16()?),
			8 => CP::Str(r.u16()?),
			9 => CP::Field(r.u16()?, r.u16()?),
			10 => CP::Method(r.u16()?, r.u16()?),
			11 => CP::IMethod(r.u16()?, r.u16()?),
			12 => CP::Nat(r.u16()?, r.u16()?),
			15 => CP::Handle(r.u8()?, r.u16()?),
			16 => CP::MType(r.u16()?),
			17 => CP::Dynamic(r.u16()?, r.u16()?),
			18 => CP::Indy(r.u16()?, r.u16()?),
			19 => CP::Module(r.u16()?),
			20 => CP::Package(r.u16()?),
			t => return Err(format!("unknown constant pool tag {t} at index {}", e.len())),
		};
		let wide = matches!(cp, CP::Long(_) | CP::Double(_));
		e.push(Some(cp));
		if wide {
			e.push(None);
		}
	}
	if e.len() != count {
		return Err(format!("constant_pool_count {count} does not match the entries ({}): a long/double needs two slots", e.len()));
	}
	Ok(Pool { e, bsms: Vec::new(), major: 0 })
}

#[derive(Clone, Copy, PartialEq, Eq, Debug)]
enum Ctx {
	Class,
	Field,
	Method,
	Code,
	Record,
}

fn raw_attrs<'a>(r: &mut R<'a>, pool: &Pool) -> DResult<Vec<(String, &'a [u8])>> {
	let n = r.u16()?;
	let mut out = Vec::new();
	for _ in 0..n {
		let name = pool.utf8(r.u16()?).map_err(|e| format!("attribute name: {e}"))?;
		let len = r.u32()? as usize;
		let body = r.bytes(len).map_err(|e| format!("attribute {name} (attribute_length {len}): {e}"))?;
		out.push((name, body));
	}
	Ok(out)
}

struct CodeCtx {
	/// pc -> instruction index (code_length maps to insns.len())
	at: HashMap<usize, usize>,
	n: usize,
}

impl CodeCtx {
	fn idx(&self, pc: usize, what: &str) -> DResult<usize> {
		self.at.get(&pc).copied().ok_or_else(|| format!("{what}: offset {pc} is not an instruction boundary"))
	}
}

fn annotation(r: &mut R, pool: &Pool, depth: usize) -> DResult<Annotation> {
	let ty = pool.utf8(r.u16()?)?;
	let n = r.u16()?;
	let mut pairs = Vec::new();
	for _ in 0..n {
		let name = pool.utf8(r.u16()?)?;
		pairs.push((name, element_value(r, pool, depth + 1)?));
	}
	Ok(Annotation { ty, pairs })
}

fn element_value(r: &mut R, pool: &Pool, depth: usize) -> DResult<ElementValue> {
	if depth > 2000 {
		return Err("element values nest too deeply".into());
	}
	let tag = r.u8()?;
	Ok(match tag {
		b'B' => ElementValue::Byte(pool.int(r.u16()?)? as i8),
		b'C' => ElementValue::Char(pool.int(r.u16()?)? as u16),
		b'I' => ElementValue::Int(pool.int(r.u16()?)?),
		b'S' => ElementValue::Short(pool.int(r.u16()?)? as i16),
		b'Z' => ElementValue::Boolean(pool.int(r.u16()?)? != 0),
		b'D' => match pool.get(r.u16()?)? {
			CP::Double(v) => ElementValue::Double(*v),
			o => return Err(format!("element value D references {o:?}")),
		},
		b'F' => match pool.get(r.u16()?)? {
			CP::Float(v) => ElementValue::Float(*v),
			o => return Err(format!("element value F references {o:?}")),
		},
		b'J' => match pool.get(r.u16()?)? {
			CP::Long(v) => ElementValue::Long(*v),
			o => return Err(format!("element value J references {o:?}")),
		},
		b's' => ElementValue::Str(pool.utf8(r.u16()?)?),
		b'e' => ElementValue::Enum { ty: pool.utf8(r.u16()?)?, name: pool.utf8(r.u16()?)? },
		b'c' => ElementValue::Class(pool.utf8(r.u16()?)?),
		b'@' => ElementValue::Annotation(annotation(r, pool, depth + 1)?),
		b'[' => {
			let n = r.u16()?;
			let mut v = Vec::new();
			for _ in 0..n {
				v.push(element_value(r, pool, depth + 1)?);
			}
			ElementValue::Array(v)
		}
		t => return Err(format!("unknown element_value tag {t}")),
	})
}

fn type_annotation(r: &mut R, pool: &Pool, ctx: Ctx, code: Option<&CodeCtx>) -> DResult<TypeAnnotation> {
	let tt = r.u8()?;
	let need_code = |what: &str| code.ok_or_else(|| format!("target type {what} outside of Code"));
	let allowed: &[u8] = match ctx {
		Ctx::Class => &[0x00, 0x10, 0x11],
		Ctx::Field | Ctx::Record => &[0x13],
		Ctx::Method => &[0x01, 0x12, 0x14, 0x15, 0x16, 0x17],
		Ctx::Code => &[0x40, 0x41, 0x42, 0x43, 0x44, 0x45, 0x46, 0x47, 0x48, 0x49, 0x4A, 0x4B],
	};
	if !allowed.contains(&tt) {
		return Err(format!("target_type {tt:#x} not allowed in {ctx:?} context"));
	}
	let target = match tt {
		0x00 => Target::ClassTypeParameter(r.u8()?),
		0x01 => Target::MethodTypeParameter(r.u8()?),
		0x10 => {
			let i = r.u16()?;
			if i == 65535 {
				Target::Extends
			} else {
				Target::Implements(i)
			}
		}
		0x11 => Target::ClassTypeParameterBound(r.u8()?, r.u8()?),
		0x12 => Target::MethodTypeParameterBound(r.u8()?, r.u8()?),
		0x13 => Target::Field,
		0x14 => Target::Return,
		0x15 => Target::Receiver,
		0x16 => Target::FormalParameter(r.u8()?),
		0x17 => Target::Throws(r.u16()?),
		0x40 | 0x41 => {
			let c = need_code("localvar")?;
			let n = r.u16()?;
			let mut t = Vec::new();
			for _ in 0..n {
				let s = r.u16()? as usize;
				let l = r.u16()? as usize;
				let i = r.u16()?;
				t.push((c.idx(s, "localvar target start")?, c.idx(s + l, "localvar target end")?, i));
			}
			if tt == 0x40 {
				Target::LocalVariable(t)
			} else {
				Target::ResourceVariable(t)
			}
		}
		0x42 => Target::ExceptionParameter(r.u16()?),
		0x43..=0x46 => {
			let at = need_code("offset")?.idx(r.u16()? as usize, "offset target")?;
			match tt {
				0x43 => Target::InstanceOf(at),
				0x44 => Target::New(at),
				0x45 => Target::ConstructorReference(at),
				_ => Target::MethodReference(at),
			}
		}
		0x47..=0x4B => {
			let at = need_code("type argument")?.idx(r.u16()? as usize, "type argument target")?;
			let i = r.u8()?;
			match tt {
				0x47 => Target::Cast(at, i),
				0x48 => Target::ConstructorInvocationTypeArgument(at, i),
				0x49 => Target::MethodInvocationTypeArgument(at, i),
				0x4A => Target::ConstructorReferenceTypeArgument(at, i),
				_ => Target::MethodReferenceTypeArgument(at, i),
			}
		}
		_ => unreachable!(),
	};
	let n = r.u8()?;
	let mut path = Vec::new();
	for _ in 0..n {
		let k = r.u8()?;
		let i = r.u8()?;
		path.push(match (k, i) {
			(0, 0) => TypePathStep::Array,
			(1, 0) => TypePathStep::Nested,
			(2, 0) => TypePathStep::Wildcard,
			(3, i) => TypePathStep::TypeArgument(i),
			_ => return Err(format!("illegal type path entry ({k}, {i})")),
		});
	}
	Ok(TypeAnnotation { target, path, annotation: annotation(r, pool, 0)? })
}

fn vtype(r: &mut R, pool: &Pool, code: &CodeCtx) -> DResult<VType> {
	Ok(match r.u8()? {
		0 => VType::Top,
		1 => VType::Integer,
		2 => VType::Float,
		3 => VType::Double,
		4 => VType::Long,
		5 => VType::Null,
		6 => VType::UninitializedThis,
		7 => VType::Object(pool.class(r.u16()?)?),
		8 => VType::Uninitialized(code.idx(r.u16()? as usize, "uninitialized offset")?),
		t => return Err(format!("unknown verification type tag {t}")),
	})
}

fn parse_attrs(raw: Vec<(String, &[u8])>, pool: &Pool, ctx: Ctx, code: Option<&CodeCtx>) -> DResult<Vec<Attr>> {
	let mut out = Vec::new();
	for (name, body) in raw {
		let mut r = R::new(body);
		let attr = (|| -> DResult<Option<Attr>> {
			let a = match (name.as_str(), ctx) {
				("Deprecated", Ctx::Class | Ctx::Field | Ctx::Method) => Attr::Deprecated,
				("Synthetic", Ctx::Class | Ctx::Field | Ctx::Method) => Attr::Synthetic,
				("ConstantValue", Ctx::Field) => {
					let i = r.u16()?;
					match pool.get(i)? {
						CP::Int(_) | CP::Float(_) | CP::Long(_) | CP::Double(_) | CP::Str(_) => Attr::ConstantValue(pool.loadable(i, 0)?),
						o => return Err(format!("ConstantValue references {o:?}")),
					}
				}
				("Signature", Ctx::Class | Ctx::Field | Ctx::Method | Ctx::Record) => Attr::Signature(pool.utf8(r.u16()?)?),
				("SourceFile", Ctx::Class) => Attr::SourceFile(pool.utf8(r.u16()?)?),
				("SourceDebugExtension", Ctx::Class) => {
					let n = r.left();
					Attr::SourceDebugExtension(from_mutf8(r.bytes(n)?)?)
				}
				("InnerClasses", Ctx::Class) => {
					let n = r.u16()?;
					let mut v = Vec::new();
					for _ in 0..n {
						v.push(InnerClass { inner: pool.class(r.u16()?)?, outer: pool.opt_class(r.u16()?)?, name: pool.opt_utf8(r.u16()?)?, flags: r.u16()? });
					}
					Attr::InnerClasses(v)
				}
				("EnclosingMethod", Ctx::Class) => {
					let class = pool.class(r.u16()?)?;
					let m = r.u16()?;
					Attr::EnclosingMethod { class, method: if m == 0 { None } else { Some(pool.nat(m)?) } }
				}
				("RuntimeVisibleAnnotations" | "RuntimeInvisibleAnnotations", Ctx::Class | Ctx::Field | Ctx::Method | Ctx::Record) => {
					let n = r.u16()?;
					let mut list = Vec::new();
					for _ in 0..n {
						list.push(annotation(&mut r, pool, 0)?);
					}
					Attr::Annotations { visible: name == "RuntimeVisibleAnnotations", list }
				}
				("RuntimeVisibleTypeAnnotations" | "RuntimeInvisibleTypeAnnotations", _) => {
					let n = r.u16()?;
					let mut list = Vec::new();
					for _ in 0..n {
						list.push(type_annotation(&mut r, pool, ctx, code)?);
					}
					Attr::TypeAnnotations { visible: name == "RuntimeVisibleTypeAnnotations", list }
				}
				("RuntimeVisibleParameterAnnotations" | "RuntimeInvisibleParameterAnnotations", Ctx::Method) => {
					let n = r.u8()?;
					let mut params = Vec::new();
					for _ in 0..n {
						let k = r.u16()?;
						let mut list = Vec::new();
						for _ in 0..k {
							list.push(annotation(&mut r, pool, 0)?);
						}
						params.push(list);
					}
					Attr::ParameterAnnotations { visible: name == "RuntimeVisibleParameterAnnotations", params }
				}
				("AnnotationDefault", Ctx::Method) => Attr::AnnotationDefault(element_value(&mut r, pool, 0)?),
				("MethodParameters", Ctx::Method) => {
					let n = r.u8()?;
					let mut v = Vec::new();
					for _ in 0..n {
						v.push((pool.opt_utf8(r.u16()?)?, r.u16()?));
					}
					Attr::MethodParameters(v)
				}
				("Exceptions", Ctx::Method) => {
					let n = r.u16()?;
					let mut v = Vec::new();
					for _ in 0..n {
						v.push(pool.class(r.u16()?)?);
					}
					Attr::Exceptions(v)
				}
				("Code", Ctx::Method) => Attr::Code(parse_code(&mut r, pool)?),
				("Module", Ctx::Class) => {
					let mut m = Module { name: pool.module(r.u16()?)?, flags: r.u16()?, version: pool.opt_utf8(r.u16()?)?, ..Default::default() };
					for _ in 0..r.u16()? {
						m.requires.push((pool.module(r.u16()?)?, r.u16()?, pool.opt_utf8(r.u16()?)?));
					}
					for which in 0..2 {
						for _ in 0..r.u16()? {
							let p = pool.package(r.u16()?)?;
							let f = r.u16()?;
							let mut to = Vec::new();
							for _ in 0..r.u16()? {
								to.push(pool.module(r.u16()?)?);
							}
							if which == 0 {
								m.exports.push((p, f, to));
							} else {
								m.opens.push((p, f, to));
							}
						}
					}
					for _ in 0..r.u16()? {
						m.uses.push(pool.class(r.u16()?)?);
					}
					for _ in 0..r.u16()? {
						let c = pool.class(r.u16()?)?;
						let mut with = Vec::new();
						for _ in 0..r.u16()? {
							with.push(pool.class(r.u16()?)?);
						}
						m.provides.push((c, with));
					}
					Attr::Module(m)
				}
				("ModulePackages", Ctx::Class) => {
					let mut v = Vec::new();
					for _ in 0..r.u16()? {
						v.push(pool.package(r.u16()?)?);
					}
					Attr::ModulePackages(v)
				}
				("ModuleMainClass", Ctx::Class) => Attr::ModuleMainClass(pool.class(r.u16()?)?),
				("NestHost", Ctx::Class) => Attr::NestHost(pool.class(r.u16()?)?),
				("NestMembers" | "PermittedSubclasses", Ctx::Class) => {
					let mut v = Vec::new();
					for _ in 0..r.u16()? {
						v.push(pool.class(r.u16()?)?);
					}
					if name == "NestMembers" {
						Attr::NestMembers(v)
					} else {
						Attr::PermittedSubclasses(v)
					}
				}
				("Record", Ctx::Class) => {
					let mut v = Vec::new();
					for _ in 0..r.u16()? {
						let name = pool.utf8(r.u16()?)?;
						let desc = pool.utf8(r.u16()?)?;
						let raw = raw_attrs(&mut r, pool)?;
						v.push(RecordComponent { name, desc, attrs: parse_attrs(raw, pool, Ctx::Record, None)? });
					}
					Attr::Record(v)
				}
				("BootstrapMethods", Ctx::Class) => {
					// consumed by the pool; verify the structure here
					for _ in 0..r.u16()? {
						pool.handle(r.u16()?)?;
						for _ in 0..r.u16()? {
							pool.loadable(r.u16()?, 0)?;
						}
					}
					r.done("BootstrapMethods")?;
					return Ok(None);
				}
				("LineNumberTable", Ctx::Code) => {
					let c = code.unwrap();
					let mut v = Vec::new();
					for _ in 0..r.u16()? {
						let pc = r.u16()? as usize;
						let at = c.idx(pc, "line number start_pc")?;
						if at >= c.n {
							return Err("line number entry at code_length".into());
						}
						v.push((at, r.u16()?));
					}
					Attr::LineNumberTable(v)
				}
				("LocalVariableTable" | "LocalVariableTypeTable", Ctx::Code) => {
					let c = code.unwrap();
					let mut v = Vec::new();
					for _ in 0..r.u16()? {
						let s = r.u16()? as usize;
						let l = r.u16()? as usize;
						v.push(LocalVar { start: c.idx(s, "local variable start_pc")?, end: c.idx(s + l, "local variable end")?, name: pool.utf8(r.u16()?)?, ty: pool.utf8(r.u16()?)?, index: r.u16()? });
					}
					if name == "LocalVariableTable" {
						Attr::LocalVariableTable(v)
					} else {
						Attr::LocalVariableTypeTable(v)
					}
				}
				("StackMapTable", Ctx::Code) => {
					let c = code.unwrap();
					let n = r.u16()?;
					let mut frames = Vec::new();
					let mut pc: i64 = -1;
					for _ in 0..n {
						let t = r.u8()?;
						let (delta, kind) = match t {
							0..=63 => (t as u16, FrameKind::Same),
							64..=127 => ((t - 64) as u16, FrameKind::Same1(vtype(&mut r, pool, c)?)),
							128..=246 => return Err(format!("reserved stack map frame type {t}")),
							247 => (r.u16()?, FrameKind::Same1(vtype(&mut r, pool, c)?)),
							248..=250 => (r.u16()?, FrameKind::Chop(251 - t)),
							251 => (r.u16()?, FrameKind::Same),
							252..=254 => {
								let d = r.u16()?;
								let mut l = Vec::new();
								for _ in 0..(t - 251) {
									l.push(vtype(&mut r, pool, c)?);
								}
								(d, FrameKind::Append(l))
							}
							255 => {
								let d = r.u16()?;
								let mut l = Vec::new();
								for _ in 0..r.u16()? {
									l.push(vtype(&mut r, pool, c)?);
								}
								let mut s = Vec::new();
								for _ in 0..r.u16()? {
									s.push(vtype(&mut r, pool, c)?);
								}
								(d, FrameKind::Full(l, s))
							}
						};
						pc += delta as i64 + 1;
						frames.push(Frame { at: c.idx(pc as usize, "stack map frame offset")?, kind });
					}
					Attr::StackMapTable(frames)
				}
				("StackMap", Ctx::Code) => {
					let c = code.unwrap();
					let mut frames = Vec::new();
					for _ in 0..r.u16()? {
						let at = c.idx(r.u16()? as usize, "stack map offset")?;
						let mut l = Vec::new();
						for _ in 0..r.u16()? {
							l.push(vtype(&mut r, pool, c)?);
						}
						let mut s = Vec::new();
						for _ in 0..r.u16()? {
							s.push(vtype(&mut r, pool, c)?);
						}
						frames.push(Frame { at, kind: FrameKind::Full(l, s) });
					}
					frames.sort_by_key(|f| f.at);
					Attr::StackMapTable(frames)
				}
				_ => {
					let n = r.left();
					Attr::Unknown { name: name.clone(), bytes: r.bytes(n)?.to_vec() }
				}
			};
			r.done(&format!("attribute {name}"))?;
			Ok(Some(a))
		})()
		.map_err(|e| format!("in attribute {name}: {e}"))?;
		if let Some(a) = attr {
			out.push(a);
		}
	}
	Ok(out)
}

fn parse_code(r: &mut R, pool: &Pool) -> DResult<Code> {
	let max_stack = r.u16()?;
	let max_locals = r.u16()?;
	let code_length = r.u32()? as usize;
	if code_length == 0 || code_length >= 65536 {
		return Err(format!("code_length {code_length} out of range 1..65535"));
	}
	let code = r.bytes(code_length)?;
	// pass 1: instruction boundaries
	enum Raw {
		Done(Insn),
		Branch(u8, i64),
		Table(i64, i32, Vec<i64>),
		Lookup(i64, Vec<(i32, i64)>),
	}
	let mut raws: Vec<(usize, Raw)> = Vec::new();
	let mut c = R::new(code);
	while c.left() > 0 {
		let pc = c.pos;
		let op = c.u8()?;
		let raw = (|| -> DResult<Raw> {
			Ok(match op {
				_ if is_simple(op) => Raw::Done(Insn::Simple(op)),
				16 => Raw::Done(Insn::Bipush(c.u8()? as i8)),
				17 => Raw::Done(Insn::Sipush(c.u16()? as i16)),
				18 => {
					let k = pool.loadable(c.u8()? as u16, 0)?;
					if k.is_wide() {
						return Err("ldc loads a two-slot constant".into());
					}
					Raw::Done(Insn::Ldc(k))
				}
				19 => {
					let k = pool.loadable(c.u16()?, 0)?;
					if k.is_wide() {
						return Err("ldc_w loads a two-slot constant".into());
					}
					Raw::Done(Insn::Ldc(k))
				}
				20 => {
					let k = pool.loadable(c.u16()?, 0)?;
					if !k.is_wide() {
						return Err("ldc2_w loads a one-slot constant".into());
					}
					Raw::Done(Insn::Ldc(k))
				}
				21..=25 | 54..=58 | 169 => Raw::Done(Insn::Local { op, index: c.u8()? as u16 }),
				26..=45 => Raw::Done(Insn::Local { op: 21 + (op - 26) / 4, index: ((op - 26) % 4) as u16 }),
				59..=78 => Raw::Done(Insn::Local { op: 54 + (op - 59) / 4, index: ((op - 59) % 4) as u16 }),
				132 => Raw::Done(Insn::Iinc { index: c.u8()? as u16, delta: c.u8()? as i8 as i16 }),
				153..=168 | 198 | 199 => Raw::Branch(op, c.u16()? as i16 as i64),
				200 => Raw::Branch(167, c.i32()? as i64),
				201 => Raw::Branch(168, c.i32()? as i64),
				170 | 171 => {
					while c.pos % 4 != 0 {
						if c.u8()? != 0 && pool.major < 51 {
							return Err("switch padding is not zero (class file version below 51)".into());
						}
					}
					let default = c.i32()? as i64;
					if op == 170 {
						let low = c.i32()?;
						let high = c.i32()?;
						if low > high {
							return Err(format!("tableswitch low {low} > high {high}"));
						}
						let n = high as i64 - low as i64 + 1;
						if n * 4 > c.left() as i64 {
							return Err("tableswitch table exceeds the code".into());
						}
						let mut t = Vec::new();
						for _ in 0..n {
							t.push(c.i32()? as i64);
						}
						Raw::Table(default, low, t)
					} else {
						let n = c.i32()?;
						if n < 0 || (n as i64) * 8 > c.left() as i64 {
							return Err(format!("lookupswitch npairs {n} invalid"));
						}
						let mut p = Vec::new();
						for _ in 0..n {
							p.push((c.i32()?, c.i32()? as i64));
						}
						if !p.windows(2).all(|w| w[0].0 < w[1].0) {
							return Err("lookupswitch keys not strictly increasing".into());
						}
						Raw::Lookup(default, p)
					}
				}
				178..=181 => {
					let (owner, name, desc, _) = pool.member_ref(c.u16()?, true)?;
					Raw::Done(Insn::Field { op, owner, name, desc })
				}
				182..=185 => {
					let (owner, name, desc, itf) = pool.member_ref(c.u16()?, false)?;
					if op == 182 && itf {
						return Err("invokevirtual references an InterfaceMethodref".into());
					}
					if op == 185 {
						if !itf {
							return Err("invokeinterface references a Methodref".into());
						}
						let count = c.u8()?;
						if count as usize != 1 + super::encode::arg_slots(&desc) {
							return Err(format!("invokeinterface count {count} does not match descriptor {desc}"));
						}
						if c.u8()? != 0 {
							return Err("invokeinterface fourth operand byte not zero".into());
						}
					}
					Raw::Done(Insn::Invoke { op, owner, name, desc, itf })
				}
				186 => {
					let i = c.u16()?;
					let insn = match pool.get(i)? {
						CP::Indy(b, n) => {
							let (name, desc) = pool.nat(*n)?;
							Insn::InvokeDynamic { name, desc, bsm: pool.bsm(*b, 0)? }
						}
						o => return Err(format!("invokedynamic references {o:?}")),
					};
					if c.u16()? != 0 {
						return Err("invokedynamic operand bytes 3,4 not zero".into());
					}
					Raw::Done(insn)
				}
				187 | 189 | 192 | 193 => Raw::Done(Insn::Type { op, class: pool.class(c.u16()?)? }),
				188 => {
					let t = c.u8()?;
					if !(4..=11).contains(&t) {
						return Err(format!("newarray atype {t}"));
					}
					Raw::Done(Insn::NewArray(t))
				}
				196 => {
					let op2 = c.u8()?;
					match op2 {
						21..=25 | 54..=58 | 169 => Raw::Done(Insn::Local { op: op2, index: c.u16()? }),
						132 => Raw::Done(Insn::Iinc { index: c.u16()?, delta: c.u16()? as i16 }),
						o => return Err(format!("wide prefix before opcode {o}")),
					}
				}
				197 => Raw::Done(Insn::MultiANewArray { class: pool.class(c.u16()?)?, dims: c.u8()? }),
				o => return Err(format!("unknown opcode {o}")),
			})
		})()
		.map_err(|e| format!("at bytecode offset {pc}: {e}"))?;
		raws.push((pc, raw));
	}
	let mut at: HashMap<usize, usize> = HashMap::new();
	for (i, (pc, _)) in raws.iter().enumerate() {
		at.insert(*pc, i);
	}
	CODE_TRACE.with(|t| {
		if let Some(t) = t.borrow_mut().as_mut() {
			t.push(raws.iter().map(|(pc, _)| (*pc, code[*pc])).collect());
		}
	});
	let n = raws.len();
	let insn_target = |pc: usize, off: i64| -> DResult<usize> {
		let t = pc as i64 + off;
		if t < 0 {
			return Err(format!("branch from {pc} to negative offset"));
		}
		let i = *at.get(&(t as usize)).ok_or_else(|| format!("branch from {pc}: target {t} is not an instruction boundary"))?;
		Ok(i)
	};
	let mut insns = Vec::with_capacity(n);
	for (pc, raw) in raws {
		insns.push(match raw {
			Raw::Done(i) => i,
			Raw::Branch(op, off) => Insn::Branch { op, target: insn_target(pc, off)? },
			Raw::Table(d, low, t) => Insn::TableSwitch { default: insn_target(pc, d)?, low, targets: t.into_iter().map(|o| insn_target(pc, o)).collect::<DResult<_>>()? },
			Raw::Lookup(d, p) => Insn::LookupSwitch { default: insn_target(pc, d)?, pairs: p.into_iter().map(|(k, o)| Ok((k, insn_target(pc, o)?))).collect::<DResult<_>>()? },
		});
	}
	at.insert(code_length, n);
	let cctx = CodeCtx { at, n };
	let mut exceptions = Vec::new();
	for _ in 0..r.u16()? {
		let start = cctx.idx(r.u16()? as usize, "exception start_pc")?;
		let end = cctx.idx(r.u16()? as usize, "exception end_pc")?;
		let handler = cctx.idx(r.u16()? as usize, "exception handler_pc")?;
		if start >= n || handler >= n {
			return Err("exception start/handler at code_length".into());
		}
		if start >= end {
			return Err(format!("exception range empty or reversed ({start}..{end})"));
		}
		exceptions.push(ExcEntry { start, end, handler, catch: pool.opt_class(r.u16()?)? });
	}
	let raw = raw_attrs(r, pool)?;
	let attrs = parse_attrs(raw, pool, Ctx::Code, Some(&cctx))?;
	Ok(Code { max_stack, max_locals, insns, exceptions, attrs })
}

thread_local! {
	static CODE_TRACE: std::cell::RefCell<Option<Vec<Vec<(usize, u8)>>>> = const { std::cell::RefCell::new(None) };
}

/// like `decode`, and also returns (bytecode offset, opcode byte) of every instruction of every Code
/// attribute in file order
pub fn decode_traced(bytes: &[u8]) -> DResult<(CClass, Vec<Vec<(usize, u8)>>)> {
	CODE_TRACE.with(|t| *t.borrow_mut() = Some(Vec::new()));
	let r = decode(bytes);
	let trace = CODE_TRACE.with(|t| t.borrow_mut().take()).unwrap_or_default();
	Ok((r?, trace))
}

pub struct Decoded {
	pub class: CClass,
	pub pool_len: usize,
	pub consumed: usize,
}

/// decode exactly one class file occupying all of `bytes`
pub fn decode(bytes: &[u8]) -> DResult<CClass> {
	let d = decode_prefix(bytes)?;
	if d.consumed != bytes.len() {
		return Err(format!("{} trailing bytes after the class file", bytes.len() - d.consumed));
	}
	Ok(d.class)
}

/// decode one class file at the start of `bytes`
pub fn decode_prefix(bytes: &[u8]) -> DResult<Decoded> {
	let mut r = R::new(bytes);
	if r.u32()? != 0xCAFEBABE {
		return Err("bad magic".into());
	}
	let minor = r.u16()?;
	let major = r.u16()?;
	let mut pool = read_pool(&mut r)?;
	pool.major = major;
	pool.validate()?;
	let access = r.u16()?;
	let name = pool.class(r.u16()?)?;
	let super_class = pool.opt_class(r.u16()?)?;
	let mut interfaces = Vec::new();
	for _ in 0..r.u16()? {
		interfaces.push(pool.class(r.u16()?)?);
	}
	// members: keep the raw attributes until BootstrapMethods is known
	let mut raw_members: Vec<Vec<(u16, String, String, Vec<(String, &[u8])>)>> = Vec::new();
	for kind in 0..2 {
		let mut list = Vec::new();
		for _ in 0..r.u16()? {
			let access = r.u16()?;
			let name = pool.utf8(r.u16()?)?;
			let desc = pool.utf8(r.u16()?)?;
			if kind == 0 {
				field_descriptor_ok(&desc).map_err(|e| format!("field {name}: {e}"))?;
			} else {
				method_descriptor_ok(&desc).map_err(|e| format!("method {name}: {e}"))?;
			}
			list.push((access, name, desc, raw_attrs(&mut r, &pool)?));
		}
		raw_members.push(list);
	}
	let class_raw = raw_attrs(&mut r, &pool)?;
	let consumed = r.pos;
	let bsm_attrs: Vec<&(String, &[u8])> = class_raw.iter().filter(|(n, _)| n == "BootstrapMethods").collect();
	if bsm_attrs.len() > 1 {
		return Err("more than one BootstrapMethods attribute".into());
	}
	if let Some((_, body)) = bsm_attrs.first() {
		let mut b = R::new(body);
		for _ in 0..b.u16()? {
			let h = b.u16()?;
			let mut args = Vec::new();
			for _ in 0..b.u16()? {
				args.push(b.u16()?);
			}
			pool.bsms.push((h, args));
		}
		b.done("BootstrapMethods")?;
	}
	let mut members: Vec<Vec<CMember>> = Vec::new();
	for (k, list) in raw_members.into_iter().enumerate() {
		let mut out = Vec::new();
		for (access, name, desc, raw) in list {
			let ctx = if k == 0 { Ctx::Field } else { Ctx::Method };
			let attrs = parse_attrs(raw, &pool, ctx, None).map_err(|e| format!("in {} {name}{desc}: {e}", if k == 0 { "field" } else { "method" }))?;
			out.push(CMember { access, name, desc, attrs });
		}
		members.push(out);
	}
	let methods = members.pop().unwrap();
	let fields = members.pop().unwrap();
	let attrs = parse_attrs(class_raw, &pool, Ctx::Class, None)?;
	let class = CClass { minor, major, access, name, super_class, interfaces, fields, methods, attrs };
	// at most one attribute of each known kind per attribute table (LineNumberTable may repeat)
	fn unique(attrs: &[Attr], what: &str) -> DResult<()> {
		let mut seen = std::collections::BTreeSet::new();
		for a in attrs {
			if !matches!(a, Attr::Unknown { .. } | Attr::LineNumberTable(_)) && !seen.insert(a.rank()) {
				return Err(format!("{what}: attribute {} appears twice", a.kind_name()));
			}
			match a {
				Attr::Code(c) => unique(&c.attrs, "Code")?,
				Attr::Record(rc) => {
					for r in rc {
						unique(&r.attrs, "record component")?;
					}
				}
				_ => {}
			}
		}
		Ok(())
	}
	unique(&class.attrs, "class")?;
	for m in class.fields.iter().chain(class.methods.iter()) {
		unique(&m.attrs, &m.name)?;
	}
	Ok(Decoded { class, pool_len: pool.e.len(), consumed })
}
