//! Semantic, encoding-free model of a class file (written from JVMS §4, not from duke).

use serde::{Deserialize, Serialize};

#[derive(Clone, Debug, PartialEq, Eq, Serialize, Deserialize, Default)]
pub struct CClass {
	pub minor: u16,
	pub major: u16,
	pub access: u16,
	pub name: String,
	pub super_class: Option<String>,
	pub interfaces: Vec<String>,
	pub fields: Vec<CMember>,
	pub methods: Vec<CMember>,
	pub attrs: Vec<Attr>,
}

/// field_info / method_info
#[derive(Clone, Debug, PartialEq, Eq, Serialize, Deserialize, Default)]
pub struct CMember {
	pub access: u16,
	pub name: String,
	pub desc: String,
	pub attrs: Vec<Attr>,
}

#[derive(Clone, Debug, PartialEq, Eq, Serialize, Deserialize)]
pub enum Attr {
	Deprecated,
	Synthetic,
	ConstantValue(Const),
	Signature(String),
	SourceFile(String),
	SourceDebugExtension(String),
	InnerClasses(Vec<InnerClass>),
	EnclosingMethod { class: String, method: Option<(String, String)> },
	Annotations { visible: bool, list: Vec<Annotation> },
	TypeAnnotations { visible: bool, list: Vec<TypeAnnotation> },
	ParameterAnnotations { visible: bool, params: Vec<Vec<Annotation>> },
	AnnotationDefault(ElementValue),
	MethodParameters(Vec<(Option<String>, u16)>),
	Exceptions(Vec<String>),
	Code(Code),
	Module(Module),
	ModulePackages(Vec<String>),
	ModuleMainClass(String),
	NestHost(String),
	NestMembers(Vec<String>),
	PermittedSubclasses(Vec<String>),
	Record(Vec<RecordComponent>),
	// attributes of Code
	LineNumberTable(Vec<(usize, u16)>),
	LocalVariableTable(Vec<LocalVar>),
	LocalVariableTypeTable(Vec<LocalVar>),
	StackMapTable(Vec<Frame>),
	Unknown { name: String, bytes: Vec<u8> },
}

impl Attr {
	/// rank used to canonicalise attribute order (unknown attributes keep their relative order)
	pub fn rank(&self) -> u32 {
		match self {
			Attr::Deprecated => 1,
			Attr::Synthetic => 2,
			Attr::ConstantValue(_) => 3,
			Attr::Signature(_) => 4,
			Attr::SourceFile(_) => 5,
			Attr::SourceDebugExtension(_) => 6,
			Attr::InnerClasses(_) => 7,
			Attr::EnclosingMethod { .. } => 8,
			Attr::Annotations { visible: true, .. } => 9,
			Attr::Annotations { visible: false, .. } => 10,
			Attr::TypeAnnotations { visible: true, .. } => 11,
			Attr::TypeAnnotations { visible: false, .. } => 12,
			Attr::ParameterAnnotations { visible: true, .. } => 13,
			Attr::ParameterAnnotations { visible: false, .. } => 14,
			Attr::AnnotationDefault(_) => 15,
			Attr::MethodParameters(_) => 16,
			Attr::Exceptions(_) => 17,
			Attr::Code(_) => 18,
			Attr::Module(_) => 19,
			Attr::ModulePackages(_) => 20,
			Attr::ModuleMainClass(_) => 21,
			Attr::NestHost(_) => 22,
			Attr::NestMembers(_) => 23,
			Attr::PermittedSubclasses(_) => 24,
			Attr::Record(_) => 25,
			Attr::LineNumberTable(_) => 26,
			Attr::LocalVariableTable(_) => 27,
			Attr::LocalVariableTypeTable(_) => 28,
			Attr::StackMapTable(_) => 29,
			Attr::Unknown { .. } => 100,
		}
	}
	pub fn kind_name(&self) -> &'static str {
		match self {
			Attr::Deprecated => "Deprecated",
			Attr::Synthetic => "Synthetic",
			Attr::ConstantValue(_) => "ConstantValue",
			Attr::Signature(_) => "Signature",
			Attr::SourceFile(_) => "SourceFile",
			Attr::SourceDebugExtension(_) => "SourceDebugExtension",
			Attr::InnerClasses(_) => "InnerClasses",
			Attr::EnclosingMethod { .. } => "EnclosingMethod",
			Attr::Annotations { visible: true, .. } => "RuntimeVisibleAnnotations",
			Attr::Annotations { visible: false, .. } => "RuntimeInvisibleAnnotations",
			Attr::TypeAnnotations { visible: true, .. } => "RuntimeVisibleTypeAnnotations",
			Attr::TypeAnnotations { visible: false, .. } => "RuntimeInvisibleTypeAnnotations",
			Attr::ParameterAnnotations { visible: true, .. } => "RuntimeVisibleParameterAnnotations",
			Attr::ParameterAnnotations { visible: false, .. } => "RuntimeInvisibleParameterAnnotations",
			Attr::AnnotationDefault(_) => "AnnotationDefault",
			Attr::MethodParameters(_) => "MethodParameters",
			Attr::Exceptions(_) => "Exceptions",
			Attr::Code(_) => "Code",
			Attr::Module(_) => "Module",
			Attr::ModulePackages(_) => "ModulePackages",
			Attr::ModuleMainClass(_) => "ModuleMainClass",
			Attr::NestHost(_) => "NestHost",
			Attr::NestMembers(_) => "NestMembers",
			Attr::PermittedSubclasses(_) => "PermittedSubclasses",
			Attr::Record(_) => "Record",
			Attr::LineNumberTable(_) => "LineNumberTable",
			Attr::LocalVariableTable(_) => "LocalVariableTable",
			Attr::LocalVariableTypeTable(_) => "LocalVariableTypeTable",
			Attr::StackMapTable(_) => "StackMapTable",
			Attr::Unknown { .. } => "Unknown",
		}
	}
}

#[derive(Clone, Debug, PartialEq, Eq, Serialize, Deserialize)]
pub struct InnerClass {
	pub inner: String,
	pub outer: Option<String>,
	pub name: Option<String>,
	pub flags: u16,
}

#[derive(Clone, Debug, PartialEq, Eq, Serialize, Deserialize)]
pub struct Annotation {
	pub ty: String,
	pub pairs: Vec<(String, ElementValue)>,
}

#[derive(Clone, Debug, PartialEq, Eq, Serialize, Deserialize)]
pub enum ElementValue {
	Byte(i8),
	Char(u16),
	Double(u64),
	Float(u32),
	Int(i32),
	Long(i64),
	Short(i16),
	Boolean(bool),
	Str(String),
	Enum { ty: String, name: String },
	Class(String),
	Annotation(Annotation),
	Array(Vec<ElementValue>),
}

#[derive(Clone, Debug, PartialEq, Eq, Serialize, Deserialize)]
pub enum TypePathStep {
	Array,
	Nested,
	Wildcard,
	TypeArgument(u8),
}

#[derive(Clone, Debug, PartialEq, Eq, Serialize, Deserialize)]
pub enum Target {
	// class
	ClassTypeParameter(u8),
	Extends,
	Implements(u16),
	ClassTypeParameterBound(u8, u8),
	// field / record component
	Field,
	// method
	MethodTypeParameter(u8),
	MethodTypeParameterBound(u8, u8),
	Return,
	Receiver,
	FormalParameter(u8),
	Throws(u16),
	// code: positions are instruction indices (len = past the end)
	LocalVariable(Vec<(usize, usize, u16)>),
	ResourceVariable(Vec<(usize, usize, u16)>),
	ExceptionParameter(u16),
	InstanceOf(usize),
	New(usize),
	ConstructorReference(usize),
	MethodReference(usize),
	Cast(usize, u8),
	ConstructorInvocationTypeArgument(usize, u8),
	MethodInvocationTypeArgument(usize, u8),
	ConstructorReferenceTypeArgument(usize, u8),
	MethodReferenceTypeArgument(usize, u8),
}

#[derive(Clone, Debug, PartialEq, Eq, Serialize, Deserialize)]
pub struct TypeAnnotation {
	pub target: Target,
	pub path: Vec<TypePathStep>,
	pub annotation: Annotation,
}

#[derive(Clone, Debug, PartialEq, Eq, Serialize, Deserialize, Default)]
pub struct Module {
	pub name: String,
	pub flags: u16,
	pub version: Option<String>,
	pub requires: Vec<(String, u16, Option<String>)>,
	pub exports: Vec<(String, u16, Vec<String>)>,
	pub opens: Vec<(String, u16, Vec<String>)>,
	pub uses: Vec<String>,
	pub provides: Vec<(String, Vec<String>)>,
}

#[derive(Clone, Debug, PartialEq, Eq, Serialize, Deserialize)]
pub struct RecordComponent {
	pub name: String,
	pub desc: String,
	pub attrs: Vec<Attr>,
}

#[derive(Clone, Debug, PartialEq, Eq, Serialize, Deserialize)]
pub struct LocalVar {
	pub start: usize,
	/// exclusive, instruction index (len = past the end)
	pub end: usize,
	pub name: String,
	/// descriptor (LocalVariableTable) or signature (LocalVariableTypeTable)
	pub ty: String,
	pub index: u16,
}

#[derive(Clone, Debug, PartialEq, Eq, Serialize, Deserialize)]
pub enum VType {
	Top,
	Integer,
	Float,
	Double,
	Long,
	Null,
	UninitializedThis,
	Object(String),
	Uninitialized(usize),
}

#[derive(Clone, Debug, PartialEq, Eq, Serialize, Deserialize)]
pub enum FrameKind {
	Same,
	Same1(VType),
	Chop(u8),
	Append(Vec<VType>),
	Full(Vec<VType>, Vec<VType>),
}

#[derive(Clone, Debug, PartialEq, Eq, Serialize, Deserialize)]
pub struct Frame {
	pub at: usize,
	pub kind: FrameKind,
}

#[derive(Clone, Debug, PartialEq, Eq, Serialize, Deserialize, Default)]
pub struct Code {
	pub max_stack: u16,
	pub max_locals: u16,
	pub insns: Vec<Insn>,
	pub exceptions: Vec<ExcEntry>,
	pub attrs: Vec<Attr>,
}

#[derive(Clone, Debug, PartialEq, Eq, Serialize, Deserialize)]
pub struct ExcEntry {
	pub start: usize,
	pub end: usize,
	pub handler: usize,
	pub catch: Option<String>,
}

#[derive(Clone, Debug, PartialEq, Eq, Serialize, Deserialize)]
pub struct Handle {
	/// reference_kind 1..9
	pub kind: u8,
	pub owner: String,
	pub name: String,
	pub desc: String,
	/// references an InterfaceMethodref
	pub itf: bool,
}

#[derive(Clone, Debug, PartialEq, Eq, Serialize, Deserialize)]
pub struct Bsm {
	pub handle: Handle,
	pub args: Vec<Const>,
}

#[derive(Clone, Debug, PartialEq, Eq, Serialize, Deserialize)]
pub enum Const {
	Int(i32),
	Float(u32),
	Long(i64),
	Double(u64),
	Class(String),
	Str(String),
	MethodHandle(Handle),
	MethodType(String),
	Dynamic { name: String, desc: String, bsm: Box<Bsm> },
}

impl Const {
	pub fn is_wide(&self) -> bool {
		match self {
			Const::Long(_) | Const::Double(_) => true,
			Const::Dynamic { desc, .. } => desc == "J" || desc == "D",
			_ => false,
		}
	}
}

#[derive(Clone, Debug, PartialEq, Eq, Serialize, Deserialize)]
pub enum Insn {
	/// an instruction without operands, by opcode
	Simple(u8),
	Bipush(i8),
	Sipush(i16),
	Ldc(Const),
	/// op = 21..=25 (xload), 54..=58 (xstore), 169 (ret)
	Local { op: u8, index: u16 },
	Iinc { index: u16, delta: i16 },
	/// op = 153..=166, 167 goto, 168 jsr, 198 ifnull, 199 ifnonnull
	Branch { op: u8, target: usize },
	TableSwitch { default: usize, low: i32, targets: Vec<usize> },
	LookupSwitch { default: usize, pairs: Vec<(i32, usize)> },
	/// op = 178..=181
	Field { op: u8, owner: String, name: String, desc: String },
	/// op = 182..=185
	Invoke { op: u8, owner: String, name: String, desc: String, itf: bool },
	InvokeDynamic { name: String, desc: String, bsm: Bsm },
	/// op = 187 new, 189 anewarray, 192 checkcast, 193 instanceof
	Type { op: u8, class: String },
	NewArray(u8),
	MultiANewArray { class: String, dims: u8 },
}

pub const SIMPLE_OPCODES: &[u8] = &[
	0, 1, 2, 3, 4, 5, 6, 7, 8, 9, 10, 11, 12, 13, 14, 15, 46, 47, 48, 49, 50, 51, 52, 53, 79, 80, 81, 82, 83, 84, 85, 86, 87, 88, 89, 90, 91, 92, 93, 94, 95, 96, 97, 98, 99, 100, 101, 102,
	103, 104, 105, 106, 107, 108, 109, 110, 111, 112, 113, 114, 115, 116, 117, 118, 119, 120, 121, 122, 123, 124, 125, 126, 127, 128, 129, 130, 131, 133, 134, 135, 136, 137, 138, 139, 140,
	141, 142, 143, 144, 145, 146, 147, 148, 149, 150, 151, 152, 172, 173, 174, 175, 176, 177, 190, 191, 194, 195,
];

pub fn is_simple(op: u8) -> bool {
	SIMPLE_OPCODES.contains(&op)
}

// ---------------------------------------------------------------------------------------------
// canonical form: attribute order does not carry meaning (except among unknown attributes), several
// LineNumberTable attributes of one Code are one table

pub fn canon_attrs(attrs: &mut Vec<Attr>) {
	for a in attrs.iter_mut() {
		match a {
			Attr::Code(c) => canon_attrs(&mut c.attrs),
			Attr::Record(rc) => {
				for r in rc {
					canon_attrs(&mut r.attrs);
				}
			}
			_ => {}
		}
	}
	attrs.sort_by_key(|a| a.rank());
	// merge LineNumberTables
	let mut out: Vec<Attr> = Vec::new();
	for a in attrs.drain(..) {
		if let (Some(Attr::LineNumberTable(prev)), Attr::LineNumberTable(cur)) = (out.last_mut(), &a) {
			prev.extend(cur.iter().cloned());
			continue;
		}
		out.push(a);
	}
	// annotation attributes without annotations state no fact
	// neither do empty debug tables / stack maps
	out.retain(|a| match a {
		Attr::Annotations { list, .. } => !list.is_empty(),
		Attr::TypeAnnotations { list, .. } => !list.is_empty(),
		Attr::LineNumberTable(t) => !t.is_empty(),
		Attr::LocalVariableTable(t) | Attr::LocalVariableTypeTable(t) => !t.is_empty(),
		Attr::StackMapTable(t) => !t.is_empty(),
		_ => true,
	});
	*attrs = out;
}

impl CClass {
	pub fn canon(&self) -> CClass {
		let mut c = self.clone();
		canon_attrs(&mut c.attrs);
		for m in c.fields.iter_mut().chain(c.methods.iter_mut()) {
			canon_attrs(&mut m.attrs);
		}
		c
	}
	pub fn code_of(&self, method: usize) -> Option<&Code> {
		self.methods.get(method)?.attrs.iter().find_map(|a| if let Attr::Code(c) = a { Some(c) } else { None })
	}
	pub fn codes(&self) -> impl Iterator<Item = &Code> {
		self.methods.iter().flat_map(|m| m.attrs.iter().filter_map(|a| if let Attr::Code(c) = a { Some(c) } else { None }))
	}
}
