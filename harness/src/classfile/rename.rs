//! Reference renamer: applies a remapper's own answers at every reference-carrying position of a
//! class model.  Written from JVMS (which positions hold class / member references), not from
//! dukebox's traversal.

use super::model::*;
use std::collections::BTreeMap;

pub type R<T> = Result<T, String>;

/// what a remapper answers (strings in, strings out)
pub trait Answers {
	/// object class name (no array)
	fn class(&self, name: &str) -> R<String>;
	/// class name or array class name
	fn class_any(&self, name: &str) -> R<String>;
	fn field_desc(&self, d: &str) -> R<String>;
	fn method_desc(&self, d: &str) -> R<String>;
	fn return_desc(&self, d: &str) -> R<String>;
	/// declaration in `owner`: (name, desc)
	fn field(&self, owner: &str, name: &str, desc: &str) -> R<(String, String)>;
	fn method(&self, owner: &str, name: &str, desc: &str) -> R<(String, String)>;
	/// reference: (owner, name, desc); the owner of a method reference may be an array class
	fn field_ref(&self, owner: &str, name: &str, desc: &str) -> R<(String, String, String)>;
	fn method_ref(&self, owner: &str, name: &str, desc: &str) -> R<(String, String, String)>;
}

/// deviations that open known findings describe; `true` = reproduce the deviation in the expectation
#[derive(Clone, Copy, Debug, Default, PartialEq, Eq)]
pub struct Gaps {
	pub enum_const_unmapped: bool,
	pub dynamic_desc_unmapped: bool,
}

pub struct Renamer<'a, A: Answers> {
	pub a: &'a A,
	pub gaps: Gaps,
	/// position kind -> number of positions whose text changed
	pub changed: BTreeMap<&'static str, u64>,
}

impl<'a, A: Answers> Renamer<'a, A> {
	pub fn new(a: &'a A, gaps: Gaps) -> Self {
		Renamer { a, gaps, changed: BTreeMap::new() }
	}

	fn note(&mut self, kind: &'static str, old: &str, new: &str) {
		if old != new {
			*self.changed.entry(kind).or_insert(0) += 1;
		} else {
			self.changed.entry(kind).or_insert(0);
		}
	}

	fn class(&mut self, kind: &'static str, n: &str) -> R<String> {
		let r = self.a.class(n)?;
		self.note(kind, n, &r);
		Ok(r)
	}
	fn class_any(&mut self, kind: &'static str, n: &str) -> R<String> {
		let r = self.a.class_any(n)?;
		self.note(kind, n, &r);
		Ok(r)
	}
	fn fdesc(&mut self, kind: &'static str, d: &str) -> R<String> {
		let r = self.a.field_desc(d)?;
		self.note(kind, d, &r);
		Ok(r)
	}
	fn mdesc(&mut self, kind: &'static str, d: &str) -> R<String> {
		let r = self.a.method_desc(d)?;
		self.note(kind, d, &r);
		Ok(r)
	}

	fn handle(&mut self, h: &Handle) -> R<Handle> {
		let (owner, name, desc) = if h.kind <= 4 { self.a.field_ref(&h.owner, &h.name, &h.desc)? } else { self.a.method_ref(&h.owner, &h.name, &h.desc)? };
		self.note(if h.kind <= 4 { "handle.field.owner" } else { "handle.method.owner" }, &h.owner, &owner);
		self.note(if h.kind <= 4 { "handle.field.name" } else { "handle.method.name" }, &h.name, &name);
		self.note(if h.kind <= 4 { "handle.field.desc" } else { "handle.method.desc" }, &h.desc, &desc);
		Ok(Handle { kind: h.kind, owner, name, desc, itf: h.itf })
	}

	fn bsm(&mut self, b: &Bsm) -> R<Bsm> {
		Ok(Bsm { handle: self.handle(&b.handle)?, args: b.args.iter().map(|k| self.konst(k, "bsm.arg")).collect::<R<_>>()? })
	}

	fn konst(&mut self, k: &Const, ctx: &'static str) -> R<Const> {
		Ok(match k {
			Const::Int(_) | Const::Float(_) | Const::Long(_) | Const::Double(_) | Const::Str(_) => k.clone(),
			Const::Class(n) => Const::Class(self.class_any(if ctx == "bsm.arg" { "bsm.arg.class" } else { "ldc.class" }, n)?),
			Const::MethodHandle(h) => Const::MethodHandle(self.handle(h)?),
			Const::MethodType(d) => Const::MethodType(self.mdesc(if ctx == "bsm.arg" { "bsm.arg.methodtype" } else { "ldc.methodtype" }, d)?),
			Const::Dynamic { name, desc, bsm } => {
				let d = if self.gaps.dynamic_desc_unmapped { desc.clone() } else { self.fdesc("condy.desc", desc)? };
				Const::Dynamic { name: name.clone(), desc: d, bsm: Box::new(self.bsm(bsm)?) }
			}
		})
	}

	fn element_value(&mut self, v: &ElementValue) -> R<ElementValue> {
		Ok(match v {
			ElementValue::Enum { ty, name } => {
				let new_ty = self.fdesc("annotation.enum_type", ty)?;
				let new_name = if self.gaps.enum_const_unmapped {
					name.clone()
				} else {
					// the constant is the field `name` of the enum class, whose descriptor is the enum type itself
					match ty.strip_prefix('L').and_then(|t| t.strip_suffix(';')) {
						Some(owner) => {
							let (n, _) = self.a.field(owner, name, ty)?;
							self.note("annotation.enum_const", name, &n);
							n
						}
						None => name.clone(),
					}
				};
				ElementValue::Enum { ty: new_ty, name: new_name }
			}
			ElementValue::Class(d) => {
				let r = self.a.return_desc(d)?;
				self.note("annotation.class_value", d, &r);
				ElementValue::Class(r)
			}
			ElementValue::Annotation(a) => ElementValue::Annotation(self.annotation(a)?),
			ElementValue::Array(l) => ElementValue::Array(l.iter().map(|x| self.element_value(x)).collect::<R<_>>()?),
			other => other.clone(),
		})
	}

	fn annotation(&mut self, a: &Annotation) -> R<Annotation> {
		Ok(Annotation { ty: self.fdesc("annotation.type", &a.ty)?, pairs: a.pairs.iter().map(|(n, v)| Ok((n.clone(), self.element_value(v)?))).collect::<R<_>>()? })
	}

	fn vtype(&mut self, v: &VType) -> R<VType> {
		Ok(match v {
			VType::Object(n) => VType::Object(self.class_any("frame.object", n)?),
			o => o.clone(),
		})
	}

	fn code(&mut self, c: &Code) -> R<Code> {
		let mut out = c.clone();
		for i in out.insns.iter_mut() {
			match i {
				Insn::Ldc(k) => *k = self.konst(k, "ldc")?,
				Insn::Field { owner, name, desc, .. } => {
					let (o, n, d) = self.a.field_ref(owner, name, desc)?;
					self.note("insn.field.owner", owner, &o);
					self.note("insn.field.name", name, &n);
					self.note("insn.field.desc", desc, &d);
					(*owner, *name, *desc) = (o, n, d);
				}
				Insn::Invoke { owner, name, desc, .. } => {
					let (o, n, d) = self.a.method_ref(owner, name, desc)?;
					self.note("insn.invoke.owner", owner, &o);
					self.note("insn.invoke.name", name, &n);
					self.note("insn.invoke.desc", desc, &d);
					(*owner, *name, *desc) = (o, n, d);
				}
				Insn::InvokeDynamic { desc, bsm, .. } => {
					if !self.gaps.dynamic_desc_unmapped {
						*desc = self.mdesc("indy.desc", desc)?;
					}
					*bsm = self.bsm(bsm)?;
				}
				Insn::Type { class, .. } => *class = self.class_any("insn.type", class)?,
				Insn::MultiANewArray { class, .. } => *class = self.class_any("insn.multianewarray", class)?,
				_ => {}
			}
		}
		for e in out.exceptions.iter_mut() {
			if let Some(c) = &mut e.catch {
				*c = self.class_any("exception.catch", c)?;
			}
		}
		for a in out.attrs.iter_mut() {
			match a {
				Attr::LocalVariableTable(t) => {
					for lv in t {
						lv.ty = self.fdesc("lvt.desc", &lv.ty)?;
					}
				}
				Attr::StackMapTable(frames) => {
					for f in frames {
						match &mut f.kind {
							FrameKind::Same | FrameKind::Chop(_) => {}
							FrameKind::Same1(v) => *v = self.vtype(v)?,
							FrameKind::Append(l) => {
								for v in l {
									*v = self.vtype(v)?;
								}
							}
							FrameKind::Full(l, s) => {
								for v in l.iter_mut().chain(s.iter_mut()) {
									*v = self.vtype(v)?;
								}
							}
						}
					}
				}
				Attr::TypeAnnotations { list, .. } => {
					for ta in list {
						ta.annotation = self.annotation(&ta.annotation)?;
					}
				}
				_ => {}
			}
		}
		Ok(out)
	}

	fn member_attrs(&mut self, attrs: &[Attr]) -> R<Vec<Attr>> {
		attrs
			.iter()
			.map(|a| {
				Ok(match a {
					Attr::Annotations { visible, list } => Attr::Annotations { visible: *visible, list: list.iter().map(|x| self.annotation(x)).collect::<R<_>>()? },
					Attr::TypeAnnotations { visible, list } => Attr::TypeAnnotations {
						visible: *visible,
						list: list.iter().map(|t| Ok(TypeAnnotation { target: t.target.clone(), path: t.path.clone(), annotation: self.annotation(&t.annotation)? })).collect::<R<_>>()?,
					},
					Attr::ParameterAnnotations { visible, params } => {
						Attr::ParameterAnnotations { visible: *visible, params: params.iter().map(|p| p.iter().map(|x| self.annotation(x)).collect::<R<_>>()).collect::<R<_>>()? }
					}
					Attr::AnnotationDefault(v) => Attr::AnnotationDefault(self.element_value(v)?),
					Attr::Exceptions(l) => Attr::Exceptions(l.iter().map(|c| self.class_any("exceptions_attr", c)).collect::<R<_>>()?),
					Attr::Code(c) => Attr::Code(self.code(c)?),
					other => other.clone(),
				})
			})
			.collect()
	}

	pub fn class_model(&mut self, c: &CClass) -> R<CClass> {
		let mut out = c.clone();
		out.name = self.class("this_class", &c.name)?;
		out.super_class = c.super_class.as_ref().map(|s| self.class("super_class", s)).transpose()?;
		out.interfaces = c.interfaces.iter().map(|i| self.class("interface", i)).collect::<R<_>>()?;
		out.fields = c
			.fields
			.iter()
			.map(|f| {
				let (n, d) = self.a.field(&c.name, &f.name, &f.desc)?;
				self.note("field.name", &f.name, &n);
				self.note("field.desc", &f.desc, &d);
				Ok(CMember { access: f.access, name: n, desc: d, attrs: self.member_attrs(&f.attrs)? })
			})
			.collect::<R<_>>()?;
		out.methods = c
			.methods
			.iter()
			.map(|m| {
				let (n, d) = self.a.method(&c.name, &m.name, &m.desc)?;
				self.note("method.name", &m.name, &n);
				self.note("method.desc", &m.desc, &d);
				Ok(CMember { access: m.access, name: n, desc: d, attrs: self.member_attrs(&m.attrs)? })
			})
			.collect::<R<_>>()?;
		let mut attrs = self.member_attrs(&c.attrs)?;
		for a in attrs.iter_mut() {
			match a {
				Attr::InnerClasses(list) => {
					for ic in list {
						ic.inner = self.class_any("inner_classes.inner", &ic.inner)?;
						if let Some(o) = &mut ic.outer {
							*o = self.class_any("inner_classes.outer", o)?;
						}
					}
				}
				Attr::EnclosingMethod { class, method } => match method {
					Some((n, d)) => {
						let (o2, n2, d2) = self.a.method_ref(class, n, d)?;
						self.note("enclosing_method.class", class, &o2);
						self.note("enclosing_method.name", n, &n2);
						self.note("enclosing_method.desc", d, &d2);
						*class = o2;
						*method = Some((n2, d2));
					}
					None => *class = self.class_any("enclosing_method.class", class)?,
				},
				Attr::NestHost(h) => *h = self.class_any("nest_host", h)?,
				Attr::NestMembers(l) => {
					for m in l {
						*m = self.class_any("nest_member", m)?;
					}
				}
				Attr::PermittedSubclasses(l) => {
					for m in l {
						*m = self.class_any("permitted_subclass", m)?;
					}
				}
				Attr::Record(components) => {
					for rc in components {
						let (n, d) = self.a.field(&c.name, &rc.name, &rc.desc)?;
						self.note("record_component.name", &rc.name, &n);
						self.note("record_component.desc", &rc.desc, &d);
						rc.name = n;
						rc.desc = d;
						rc.attrs = self.member_attrs(&rc.attrs)?;
					}
				}
				Attr::Module(m) => {
					for u in m.uses.iter_mut() {
						*u = self.class_any("module.uses", u)?;
					}
					for (p, w) in m.provides.iter_mut() {
						*p = self.class_any("module.provides", p)?;
						for x in w {
							*x = self.class_any("module.provides_with", x)?;
						}
					}
				}
				Attr::ModuleMainClass(m) => *m = self.class_any("module.main_class", m)?,
				_ => {}
			}
		}
		out.attrs = attrs;
		Ok(out)
	}
}

/// positions that are deliberately not compared (the remapper gives no answer for them, or the
/// property does not list them): generic signatures, simple inner names
pub fn blank_unasserted(c: &mut CClass) {
	fn attrs(list: &mut [Attr]) {
		for a in list {
			match a {
				Attr::Signature(s) => *s = String::new(),
				Attr::InnerClasses(l) => l.iter_mut().for_each(|ic| ic.name = ic.name.as_ref().map(|_| String::new())),
				Attr::Code(c) => {
					for a in c.attrs.iter_mut() {
						if let Attr::LocalVariableTypeTable(t) = a {
							t.iter_mut().for_each(|lv| lv.ty = String::new());
						}
					}
				}
				Attr::Record(rc) => rc.iter_mut().for_each(|r| attrs(&mut r.attrs)),
				_ => {}
			}
		}
	}
	attrs(&mut c.attrs);
	for m in c.fields.iter_mut().chain(c.methods.iter_mut()) {
		attrs(&mut m.attrs);
	}
}
