//! Encoder: model + encoding choices -> class file bytes (+ map of structural fields).
//! Written from JVMS §4; shares nothing with duke's writer.

use super::model::*;
use std::collections::HashMap;

/// encoding choices: nothing here changes the meaning of the file
#[derive(Clone, Debug, PartialEq, Eq, serde::Serialize, serde::Deserialize, Default)]
pub struct Choices {
	/// 0 = first-use order, otherwise seed of the constant pool permutation
	pub pool_seed: u64,
	/// 0 = model order, otherwise seed of attribute order permutations
	pub attr_seed: u64,
	/// per-decision choice bytes (instruction forms, frame forms, table splits); cycled
	pub stream: Vec<u8>,
	/// number of unused / duplicate constant pool entries to add
	pub junk_pool: u8,
	/// junk entries go in front of everything else (pushes used entries to higher indices)
	pub junk_first: bool,
	/// integer constants that get the lowest constant pool indices (geometry cases of C02: an `ldc` operand
	/// that sits at an index <= 255 in the input and lands past 255 in a re-written file)
	#[serde(default)]
	pub pool_first: Vec<i32>,
	/// percentage of the uses of a constant that already has an entry which get a fresh, equal entry of their own
	/// (a *used* duplicate: legal, and the index a later use refers to is not the first entry with that content)
	#[serde(default)]
	pub dup_used: u8,
}

impl Choices {
	pub fn canonical() -> Choices {
		Choices::default()
	}
	pub fn is_canonical(&self) -> bool {
		self.pool_seed == 0 && self.attr_seed == 0 && self.stream.iter().all(|b| *b == 0) && self.junk_pool == 0 && self.pool_first.is_empty() && self.dup_used == 0
	}
}

#[derive(Debug, Clone, PartialEq)]
pub enum EncodeError {
	BranchTooFar { insn: usize },
	CodeTooLarge(usize),
	PoolTooLarge,
	TooMany(&'static str),
	BadModel(String),
}

pub struct ChoiceStream<'a> {
	data: &'a [u8],
	pos: usize,
}
impl<'a> ChoiceStream<'a> {
	pub fn new(data: &'a [u8]) -> Self {
		ChoiceStream { data, pos: 0 }
	}
	pub fn next(&mut self) -> u8 {
		if self.data.is_empty() {
			return 0;
		}
		let v = self.data[self.pos % self.data.len()];
		self.pos += 1;
		v
	}
}

fn lcg(seed: &mut u64) -> u64 {
	*seed = seed.wrapping_mul(6364136223846793005).wrapping_add(1442695040888963407);
	*seed >> 33
}
fn shuffle<T>(v: &mut [T], seed: &mut u64) {
	for i in (1..v.len()).rev() {
		let j = (lcg(seed) as usize) % (i + 1);
		v.swap(i, j);
	}
}

/// modified UTF-8 (JVMS §4.4.7)
pub fn mutf8(s: &str) -> Vec<u8> {
	let mut out = Vec::with_capacity(s.len());
	for ch in s.chars() {
		// U+E000 / U+E001 stand for the unpaired surrogates U+D800 / U+DFFF (see mapmodel::conv::js): legal in a class file,
		// impossible in a Rust string
		let c = match ch {
			'\u{E000}' => 0xD800,
			'\u{E001}' => 0xDFFF,
			ch => ch as u32,
		};
		if c != 0 && c < 0x80 {
			out.push(c as u8);
		} else if c < 0x800 {
			out.push(0xC0 | (c >> 6) as u8);
			out.push(0x80 | (c & 0x3F) as u8);
		} else if c < 0x10000 {
			out.push(0xE0 | (c >> 12) as u8);
			out.push(0x80 | ((c >> 6) & 0x3F) as u8);
			out.push(0x80 | (c & 0x3F) as u8);
		} else {
			let v = c - 0x10000;
			for half in [0xD800 + (v >> 10), 0xDC00 + (v & 0x3FF)] {
				out.push(0xE0 | (half >> 12) as u8);
				out.push(0x80 | ((half >> 6) & 0x3F) as u8);
				out.push(0x80 | (half & 0x3F) as u8);
			}
		}
	}
	out
}

/// role-tagged structural field: (offset, width, role)
pub type FieldMap = Vec<(usize, u8, &'static str)>;

#[derive(Default, Clone)]
pub struct W {
	pub buf: Vec<u8>,
	pub fields: FieldMap,
}

impl W {
	pub fn u8(&mut self, v: u8, role: &'static str) {
		self.fields.push((self.buf.len(), 1, role));
		self.buf.push(v);
	}
	pub fn u16(&mut self, v: u16, role: &'static str) {
		self.fields.push((self.buf.len(), 2, role));
		self.buf.extend_from_slice(&v.to_be_bytes());
	}
	pub fn u32(&mut self, v: u32, role: &'static str) {
		self.fields.push((self.buf.len(), 4, role));
		self.buf.extend_from_slice(&v.to_be_bytes());
	}
	pub fn raw(&mut self, b: &[u8]) {
		self.buf.extend_from_slice(b);
	}
	pub fn append(&mut self, other: W) {
		let base = self.buf.len();
		self.buf.extend_from_slice(&other.buf);
		self.fields.extend(other.fields.into_iter().map(|(o, w, r)| (o + base, w, r)));
	}
	pub fn count(&mut self, n: usize, role: &'static str, what: &'static str) -> Result<(), EncodeError> {
		let v = u16::try_from(n).map_err(|_| EncodeError::TooMany(what))?;
		self.u16(v, role);
		Ok(())
	}
}

#[derive(Clone, PartialEq, Eq, Hash, Debug)]
pub enum PKey {
	Utf8(String),
	Int(i32),
	Float(u32),
	Long(i64),
	Double(u64),
	Class(String),
	Str(String),
	FieldRef(String, String, String),
	MethodRef(String, String, String),
	IMethodRef(String, String, String),
	NameAndType(String, String),
	MethodHandle(u8, bool, String, String, String),
	MethodType(String),
	Dynamic(String, String, usize),
	InvokeDynamic(String, String, usize),
	Module(String),
	Package(String),
}

#[derive(Clone, Debug)]
enum PEntry {
	Utf8(Vec<u8>),
	Int(i32),
	Float(u32),
	Long(i64),
	Double(u64),
	Ref1(u8, u16),
	Ref2(u8, u16, u16),
	Handle(u8, u16),
}

#[derive(Default)]
pub struct Pool {
	entries: Vec<Option<PEntry>>,
	map: HashMap<PKey, u16>,
	pub order: Vec<PKey>,
	bsms: Vec<(Bsm, u16, Vec<u16>)>,
	overflow: bool,
	/// see `Choices::dup_used`
	dup_pct: u8,
	dup_seed: u64,
}

impl Pool {
	pub fn new() -> Pool {
		Pool { entries: vec![None], ..Default::default() }
	}
	fn push(&mut self, e: PEntry) -> u16 {
		let idx = self.entries.len();
		let wide = matches!(e, PEntry::Long(_) | PEntry::Double(_));
		self.entries.push(Some(e));
		if wide {
			self.entries.push(None);
		}
		if self.entries.len() > 65535 {
			self.overflow = true;
		}
		idx as u16
	}
	pub fn len(&self) -> usize {
		self.entries.len()
	}
	pub fn is_empty(&self) -> bool {
		self.entries.len() <= 1
	}
	/// adds an entry without registering it for reuse (duplicate / unused entry)
	pub fn junk(&mut self, n: u64) {
		match n % 5 {
			0 => {
				self.push(PEntry::Utf8(format!("junk{n}").into_bytes()));
			}
			1 => {
				self.push(PEntry::Int(n as i32));
			}
			2 => {
				self.push(PEntry::Long(n as i64));
			}
			3 => {
				// duplicate of an existing utf8 entry
				let dup = self.entries.iter().flatten().find(|e| matches!(e, PEntry::Utf8(_))).cloned();
				self.push(dup.unwrap_or(PEntry::Utf8(b"dup".to_vec())));
			}
			_ => {
				self.push(PEntry::Double(n));
			}
		}
	}
	pub fn put(&mut self, key: PKey) -> u16 {
		if let Some(i) = self.map.get(&key) {
			let fresh = self.dup_pct > 0 && self.entries.len() < 60000 && (lcg(&mut self.dup_seed) >> 33) % 100 < self.dup_pct as u64;
			if !fresh {
				return *i;
			}
		}
		let entry = match &key {
			PKey::Utf8(s) => PEntry::Utf8(mutf8(s)),
			PKey::Int(v) => PEntry::Int(*v),
			PKey::Float(v) => PEntry::Float(*v),
			PKey::Long(v) => PEntry::Long(*v),
			PKey::Double(v) => PEntry::Double(*v),
			PKey::Class(n) => PEntry::Ref1(7, self.utf8(n)),
			PKey::Str(n) => PEntry::Ref1(8, self.utf8(n)),
			PKey::MethodType(n) => PEntry::Ref1(16, self.utf8(n)),
			PKey::Module(n) => PEntry::Ref1(19, self.utf8(n)),
			PKey::Package(n) => PEntry::Ref1(20, self.utf8(n)),
			PKey::NameAndType(n, d) => PEntry::Ref2(12, self.utf8(n), self.utf8(d)),
			PKey::FieldRef(o, n, d) => PEntry::Ref2(9, self.class(o), self.put(PKey::NameAndType(n.clone(), d.clone()))),
			PKey::MethodRef(o, n, d) => PEntry::Ref2(10, self.class(o), self.put(PKey::NameAndType(n.clone(), d.clone()))),
			PKey::IMethodRef(o, n, d) => PEntry::Ref2(11, self.class(o), self.put(PKey::NameAndType(n.clone(), d.clone()))),
			PKey::MethodHandle(kind, itf, o, n, d) => {
				let r = match kind {
					1..=4 => self.put(PKey::FieldRef(o.clone(), n.clone(), d.clone())),
					_ if *itf => self.put(PKey::IMethodRef(o.clone(), n.clone(), d.clone())),
					_ => self.put(PKey::MethodRef(o.clone(), n.clone(), d.clone())),
				};
				PEntry::Handle(*kind, r)
			}
			PKey::Dynamic(n, d, b) => PEntry::Ref2(17, *b as u16, self.put(PKey::NameAndType(n.clone(), d.clone()))),
			PKey::InvokeDynamic(n, d, b) => PEntry::Ref2(18, *b as u16, self.put(PKey::NameAndType(n.clone(), d.clone()))),
		};
		let idx = self.push(entry);
		self.map.insert(key.clone(), idx);
		self.order.push(key);
		idx
	}
	pub fn utf8(&mut self, s: &str) -> u16 {
		self.put(PKey::Utf8(s.to_string()))
	}
	pub fn class(&mut self, s: &str) -> u16 {
		self.put(PKey::Class(s.to_string()))
	}
	pub fn handle(&mut self, h: &Handle) -> u16 {
		self.put(PKey::MethodHandle(h.kind, h.itf, h.owner.clone(), h.name.clone(), h.desc.clone()))
	}
	pub fn bsm(&mut self, b: &Bsm) -> usize {
		if let Some(i) = self.bsms.iter().position(|(x, _, _)| x == b) {
			return i;
		}
		let h = self.handle(&b.handle);
		let args: Vec<u16> = b.args.iter().map(|a| self.constant(a)).collect();
		// arguments may have registered further bootstrap methods; this one goes after them
		self.bsms.push((b.clone(), h, args));
		self.bsms.len() - 1
	}
	pub fn constant(&mut self, c: &Const) -> u16 {
		match c {
			Const::Int(v) => self.put(PKey::Int(*v)),
			Const::Float(v) => self.put(PKey::Float(*v)),
			Const::Long(v) => self.put(PKey::Long(*v)),
			Const::Double(v) => self.put(PKey::Double(*v)),
			Const::Class(n) => self.class(n),
			Const::Str(s) => self.put(PKey::Str(s.clone())),
			Const::MethodHandle(h) => self.handle(h),
			Const::MethodType(d) => self.put(PKey::MethodType(d.clone())),
			Const::Dynamic { name, desc, bsm } => {
				let b = self.bsm(bsm);
				self.put(PKey::Dynamic(name.clone(), desc.clone(), b))
			}
		}
	}
	fn write(&self, w: &mut W) -> Result<(), EncodeError> {
		if self.overflow || self.entries.len() > 65535 {
			return Err(EncodeError::PoolTooLarge);
		}
		w.u16(self.entries.len() as u16, "constant_pool_count");
		for e in self.entries.iter().flatten() {
			match e {
				PEntry::Utf8(b) => {
					w.u8(1, "cp_tag");
					w.u16(u16::try_from(b.len()).map_err(|_| EncodeError::TooMany("utf8 length"))?, "utf8_length");
					w.raw(b);
				}
				PEntry::Int(v) => {
					w.u8(3, "cp_tag");
					w.raw(&v.to_be_bytes());
				}
				PEntry::Float(v) => {
					w.u8(4, "cp_tag");
					w.raw(&v.to_be_bytes());
				}
				PEntry::Long(v) => {
					w.u8(5, "cp_tag");
					w.raw(&v.to_be_bytes());
				}
				PEntry::Double(v) => {
					w.u8(6, "cp_tag");
					w.raw(&v.to_be_bytes());
				}
				PEntry::Ref1(tag, a) => {
					w.u8(*tag, "cp_tag");
					w.u16(*a, "cp_ref");
				}
				PEntry::Ref2(tag, a, b) => {
					w.u8(*tag, "cp_tag");
					w.u16(*a, if *tag == 17 || *tag == 18 { "cp_bsm_index" } else { "cp_ref" });
					w.u16(*b, "cp_ref");
				}
				PEntry::Handle(kind, r) => {
					w.u8(15, "cp_tag");
					w.u8(*kind, "cp_handle_kind");
					w.u16(*r, "cp_ref");
				}
			}
		}
		Ok(())
	}
}

struct Enc<'a> {
	pool: Pool,
	ch: ChoiceStream<'a>,
	attr_seed: u64,
	major: u16,
	forms: Vec<&'static str>,
}

fn attr_name(a: &Attr, major: u16, cldc: bool) -> String {
	match a {
		Attr::Unknown { name, .. } => name.clone(),
		Attr::StackMapTable(_) if cldc && major < 50 => "StackMap".to_string(),
		a => a.kind_name().to_string(),
	}
}

impl<'a> Enc<'a> {
	fn ordered<'b>(&mut self, attrs: &'b [Attr]) -> Vec<&'b Attr> {
		let mut v: Vec<&Attr> = attrs.iter().collect();
		if self.attr_seed != 0 {
			shuffle(&mut v, &mut self.attr_seed);
			// unknown attributes (and the parts of a line number table) keep their relative order
			for rank in [100u32, 26] {
				let positions: Vec<usize> = v.iter().enumerate().filter(|(_, a)| a.rank() == rank).map(|(i, _)| i).collect();
				let in_order: Vec<&Attr> = attrs.iter().filter(|a| a.rank() == rank).collect();
				for (p, a) in positions.into_iter().zip(in_order) {
					v[p] = a;
				}
			}
		}
		v
	}

	fn attrs(&mut self, attrs: &[Attr], w: &mut W, code: Option<&CodeLayout>, extra: Vec<W>) -> Result<(), EncodeError> {
		let list = self.ordered(attrs);
		let mut bodies: Vec<W> = Vec::new();
		for a in list {
			// a line number table may be split over several attributes
			if let Attr::LineNumberTable(t) = a {
				let split = self.ch.next() % 4 == 1 && t.len() >= 2;
				let parts: Vec<&[(usize, u16)]> = if t.len() > 65535 {
					// more entries than one attribute can count: several attributes (JVMS 4.7.12 allows any number of them)
					t.chunks(40000).collect()
				} else if split {
					let k = 1 + (self.ch.next() as usize) % (t.len() - 1);
					vec![&t[..k], &t[k..]]
				} else {
					vec![&t[..]]
				};
				for p in parts {
					let mut b = W::default();
					b.count(p.len(), "line_number_table_length", "line numbers")?;
					for (at, line) in p {
						b.u16(code.unwrap().pc(*at)?, "start_pc");
						b.u16(*line, "line_number");
					}
					bodies.push(self.wrap("LineNumberTable", b)?);
				}
				continue;
			}
			let body = self.attr_body(a, code)?;
			let cldc = matches!(a, Attr::StackMapTable(f) if self.major < 50 && f.iter().all(|x| matches!(x.kind, FrameKind::Full(..))));
			let name = attr_name(a, self.major, cldc);
			bodies.push(self.wrap(&name, body)?);
		}
		bodies.extend(extra);
		w.count(bodies.len(), "attributes_count", "attributes")?;
		for b in bodies {
			w.append(b);
		}
		Ok(())
	}

	fn wrap(&mut self, name: &str, body: W) -> Result<W, EncodeError> {
		let mut w = W::default();
		w.u16(self.pool.utf8(name), "attribute_name_index");
		w.u32(u32::try_from(body.buf.len()).map_err(|_| EncodeError::TooMany("attribute length"))?, "attribute_length");
		w.append(body);
		Ok(w)
	}

	fn opt_utf8(&mut self, s: &Option<String>) -> u16 {
		match s {
			Some(s) => self.pool.utf8(s),
			None => 0,
		}
	}

	fn annotation(&mut self, a: &Annotation, w: &mut W) -> Result<(), EncodeError> {
		w.u16(self.pool.utf8(&a.ty), "annotation_type_index");
		w.count(a.pairs.len(), "num_element_value_pairs", "element value pairs")?;
		for (n, v) in &a.pairs {
			w.u16(self.pool.utf8(n), "element_name_index");
			self.element_value(v, w)?;
		}
		Ok(())
	}

	fn element_value(&mut self, v: &ElementValue, w: &mut W) -> Result<(), EncodeError> {
		match v {
			ElementValue::Byte(x) => {
				w.u8(b'B', "element_tag");
				w.u16(self.pool.put(PKey::Int(*x as i32)), "const_value_index");
			}
			ElementValue::Char(x) => {
				w.u8(b'C', "element_tag");
				w.u16(self.pool.put(PKey::Int(*x as i32)), "const_value_index");
			}
			ElementValue::Double(x) => {
				w.u8(b'D', "element_tag");
				w.u16(self.pool.put(PKey::Double(*x)), "const_value_index");
			}
			ElementValue::Float(x) => {
				w.u8(b'F', "element_tag");
				w.u16(self.pool.put(PKey::Float(*x)), "const_value_index");
			}
			ElementValue::Int(x) => {
				w.u8(b'I', "element_tag");
				w.u16(self.pool.put(PKey::Int(*x)), "const_value_index");
			}
			ElementValue::Long(x) => {
				w.u8(b'J', "element_tag");
				w.u16(self.pool.put(PKey::Long(*x)), "const_value_index");
			}
			ElementValue::Short(x) => {
				w.u8(b'S', "element_tag");
				w.u16(self.pool.put(PKey::Int(*x as i32)), "const_value_index");
			}
			ElementValue::Boolean(x) => {
				w.u8(b'Z', "element_tag");
				w.u16(self.pool.put(PKey::Int(*x as i32)), "const_value_index");
			}
			ElementValue::Str(x) => {
				w.u8(b's', "element_tag");
				w.u16(self.pool.utf8(x), "const_value_index");
			}
			ElementValue::Enum { ty, name } => {
				w.u8(b'e', "element_tag");
				w.u16(self.pool.utf8(ty), "enum_type_index");
				w.u16(self.pool.utf8(name), "enum_const_index");
			}
			ElementValue::Class(c) => {
				w.u8(b'c', "element_tag");
				w.u16(self.pool.utf8(c), "class_info_index");
			}
			ElementValue::Annotation(a) => {
				w.u8(b'@', "element_tag");
				self.annotation(a, w)?;
			}
			ElementValue::Array(vs) => {
				w.u8(b'[', "element_tag");
				w.count(vs.len(), "num_values", "array values")?;
				for v in vs {
					self.element_value(v, w)?;
				}
			}
		}
		Ok(())
	}

	fn type_annotation(&mut self, t: &TypeAnnotation, w: &mut W, code: Option<&CodeLayout>) -> Result<(), EncodeError> {
		let pc = |at: usize| -> Result<u16, EncodeError> { code.ok_or_else(|| EncodeError::BadModel("code target outside code".into()))?.pc(at) };
		match &t.target {
			Target::ClassTypeParameter(i) => {
				w.u8(0x00, "target_type");
				w.u8(*i, "type_parameter_index");
			}
			Target::MethodTypeParameter(i) => {
				w.u8(0x01, "target_type");
				w.u8(*i, "type_parameter_index");
			}
			Target::Extends => {
				w.u8(0x10, "target_type");
				w.u16(65535, "supertype_index");
			}
			Target::Implements(i) => {
				w.u8(0x10, "target_type");
				w.u16(*i, "supertype_index");
			}
			Target::ClassTypeParameterBound(a, b) => {
				w.u8(0x11, "target_type");
				w.u8(*a, "type_parameter_index");
				w.u8(*b, "bound_index");
			}
			Target::MethodTypeParameterBound(a, b) => {
				w.u8(0x12, "target_type");
				w.u8(*a, "type_parameter_index");
				w.u8(*b, "bound_index");
			}
			Target::Field => w.u8(0x13, "target_type"),
			Target::Return => w.u8(0x14, "target_type"),
			Target::Receiver => w.u8(0x15, "target_type"),
			Target::FormalParameter(i) => {
				w.u8(0x16, "target_type");
				w.u8(*i, "formal_parameter_index");
			}
			Target::Throws(i) => {
				w.u8(0x17, "target_type");
				w.u16(*i, "throws_type_index");
			}
			Target::LocalVariable(table) | Target::ResourceVariable(table) => {
				w.u8(if matches!(&t.target, Target::LocalVariable(_)) { 0x40 } else { 0x41 }, "target_type");
				w.count(table.len(), "localvar_table_length", "localvar table")?;
				for (s, e, i) in table {
					let (ps, pe) = (pc(*s)?, pc(*e)?);
					w.u16(ps, "start_pc");
					w.u16(pe.checked_sub(ps).ok_or_else(|| EncodeError::BadModel("range end before start".into()))?, "length");
					w.u16(*i, "local_index");
				}
			}
			Target::ExceptionParameter(i) => {
				w.u8(0x42, "target_type");
				w.u16(*i, "exception_table_index");
			}
			Target::InstanceOf(at) => {
				w.u8(0x43, "target_type");
				w.u16(pc(*at)?, "offset");
			}
			Target::New(at) => {
				w.u8(0x44, "target_type");
				w.u16(pc(*at)?, "offset");
			}
			Target::ConstructorReference(at) => {
				w.u8(0x45, "target_type");
				w.u16(pc(*at)?, "offset");
			}
			Target::MethodReference(at) => {
				w.u8(0x46, "target_type");
				w.u16(pc(*at)?, "offset");
			}
			Target::Cast(at, i) => {
				w.u8(0x47, "target_type");
				w.u16(pc(*at)?, "offset");
				w.u8(*i, "type_argument_index");
			}
			Target::ConstructorInvocationTypeArgument(at, i) => {
				w.u8(0x48, "target_type");
				w.u16(pc(*at)?, "offset");
				w.u8(*i, "type_argument_index");
			}
			Target::MethodInvocationTypeArgument(at, i) => {
				w.u8(0x49, "target_type");
				w.u16(pc(*at)?, "offset");
				w.u8(*i, "type_argument_index");
			}
			Target::ConstructorReferenceTypeArgument(at, i) => {
				w.u8(0x4A, "target_type");
				w.u16(pc(*at)?, "offset");
				w.u8(*i, "type_argument_index");
			}
			Target::MethodReferenceTypeArgument(at, i) => {
				w.u8(0x4B, "target_type");
				w.u16(pc(*at)?, "offset");
				w.u8(*i, "type_argument_index");
			}
		}
		w.u8(u8::try_from(t.path.len()).map_err(|_| EncodeError::TooMany("type path"))?, "path_length");
		for s in &t.path {
			let (k, i) = match s {
				TypePathStep::Array => (0, 0),
				TypePathStep::Nested => (1, 0),
				TypePathStep::Wildcard => (2, 0),
				TypePathStep::TypeArgument(i) => (3, *i),
			};
			w.u8(k, "type_path_kind");
			w.u8(i, "type_argument_index");
		}
		self.annotation(&t.annotation, w)
	}

	fn vtype(&mut self, v: &VType, w: &mut W, code: &CodeLayout) -> Result<(), EncodeError> {
		match v {
			VType::Top => w.u8(0, "vtype_tag"),
			VType::Integer => w.u8(1, "vtype_tag"),
			VType::Float => w.u8(2, "vtype_tag"),
			VType::Double => w.u8(3, "vtype_tag"),
			VType::Long => w.u8(4, "vtype_tag"),
			VType::Null => w.u8(5, "vtype_tag"),
			VType::UninitializedThis => w.u8(6, "vtype_tag"),
			VType::Object(c) => {
				w.u8(7, "vtype_tag");
				w.u16(self.pool.class(c), "cpool_index");
			}
			VType::Uninitialized(at) => {
				w.u8(8, "vtype_tag");
				w.u16(code.pc(*at)?, "offset");
			}
		}
		Ok(())
	}

	fn attr_body(&mut self, a: &Attr, code: Option<&CodeLayout>) -> Result<W, EncodeError> {
		let mut w = W::default();
		match a {
			Attr::Deprecated | Attr::Synthetic => {}
			Attr::ConstantValue(c) => w.u16(self.pool.constant(c), "constantvalue_index"),
			Attr::Signature(s) => w.u16(self.pool.utf8(s), "signature_index"),
			Attr::SourceFile(s) => w.u16(self.pool.utf8(s), "sourcefile_index"),
			Attr::SourceDebugExtension(s) => w.raw(&mutf8(s)),
			Attr::InnerClasses(list) => {
				w.count(list.len(), "number_of_classes", "inner classes")?;
				for ic in list {
					w.u16(self.pool.class(&ic.inner), "inner_class_info_index");
					w.u16(ic.outer.as_ref().map(|o| self.pool.class(o)).unwrap_or(0), "outer_class_info_index");
					let n = self.opt_utf8(&ic.name);
					w.u16(n, "inner_name_index");
					w.u16(ic.flags, "inner_class_access_flags");
				}
			}
			Attr::EnclosingMethod { class, method } => {
				w.u16(self.pool.class(class), "class_index");
				w.u16(method.as_ref().map(|(n, d)| self.pool.put(PKey::NameAndType(n.clone(), d.clone()))).unwrap_or(0), "method_index");
			}
			Attr::Annotations { list, .. } => {
				w.count(list.len(), "num_annotations", "annotations")?;
				for a in list {
					self.annotation(a, &mut w)?;
				}
			}
			Attr::TypeAnnotations { list, .. } => {
				w.count(list.len(), "num_annotations", "type annotations")?;
				for t in list {
					self.type_annotation(t, &mut w, code)?;
				}
			}
			Attr::ParameterAnnotations { params, .. } => {
				w.u8(u8::try_from(params.len()).map_err(|_| EncodeError::TooMany("parameters"))?, "num_parameters");
				for p in params {
					w.count(p.len(), "num_annotations", "annotations")?;
					for a in p {
						self.annotation(a, &mut w)?;
					}
				}
			}
			Attr::AnnotationDefault(v) => self.element_value(v, &mut w)?,
			Attr::MethodParameters(ps) => {
				w.u8(u8::try_from(ps.len()).map_err(|_| EncodeError::TooMany("parameters"))?, "parameters_count");
				for (n, f) in ps {
					let i = self.opt_utf8(n);
					w.u16(i, "name_index");
					w.u16(*f, "access_flags");
				}
			}
			Attr::Exceptions(list) => {
				w.count(list.len(), "number_of_exceptions", "exceptions")?;
				for c in list {
					w.u16(self.pool.class(c), "exception_index");
				}
			}
			Attr::Code(c) => return self.code(c),
			Attr::Module(m) => {
				w.u16(self.pool.put(PKey::Module(m.name.clone())), "module_name_index");
				w.u16(m.flags, "module_flags");
				let v = self.opt_utf8(&m.version);
				w.u16(v, "module_version_index");
				w.count(m.requires.len(), "requires_count", "requires")?;
				for (n, f, v) in &m.requires {
					w.u16(self.pool.put(PKey::Module(n.clone())), "requires_index");
					w.u16(*f, "requires_flags");
					let v = self.opt_utf8(v);
					w.u16(v, "requires_version_index");
				}
				for (list, role) in [(&m.exports, "exports"), (&m.opens, "opens")] {
					w.count(list.len(), if role == "exports" { "exports_count" } else { "opens_count" }, "exports/opens")?;
					for (n, f, to) in list {
						w.u16(self.pool.put(PKey::Package(n.clone())), "package_index");
						w.u16(*f, "package_flags");
						w.count(to.len(), "to_count", "to")?;
						for t in to {
							w.u16(self.pool.put(PKey::Module(t.clone())), "to_index");
						}
					}
				}
				w.count(m.uses.len(), "uses_count", "uses")?;
				for u in &m.uses {
					w.u16(self.pool.class(u), "uses_index");
				}
				w.count(m.provides.len(), "provides_count", "provides")?;
				for (n, with) in &m.provides {
					w.u16(self.pool.class(n), "provides_index");
					w.count(with.len(), "provides_with_count", "provides with")?;
					for x in with {
						w.u16(self.pool.class(x), "provides_with_index");
					}
				}
			}
			Attr::ModulePackages(list) => {
				w.count(list.len(), "package_count", "packages")?;
				for p in list {
					w.u16(self.pool.put(PKey::Package(p.clone())), "package_index");
				}
			}
			Attr::ModuleMainClass(c) => w.u16(self.pool.class(c), "main_class_index"),
			Attr::NestHost(c) => w.u16(self.pool.class(c), "host_class_index"),
			Attr::NestMembers(list) | Attr::PermittedSubclasses(list) => {
				w.count(list.len(), "number_of_classes", "classes")?;
				for c in list {
					w.u16(self.pool.class(c), "class_index");
				}
			}
			Attr::Record(components) => {
				w.count(components.len(), "components_count", "record components")?;
				for rc in components {
					w.u16(self.pool.utf8(&rc.name), "name_index");
					w.u16(self.pool.utf8(&rc.desc), "descriptor_index");
					self.attrs(&rc.attrs, &mut w, None, Vec::new())?;
				}
			}
			Attr::LineNumberTable(_) => unreachable!("handled by attrs()"),
			Attr::LocalVariableTable(t) | Attr::LocalVariableTypeTable(t) => {
				let code = code.ok_or_else(|| EncodeError::BadModel("local variable table outside code".into()))?;
				w.count(t.len(), "local_variable_table_length", "local variables")?;
				for lv in t {
					let (s, e) = (code.pc(lv.start)?, code.pc(lv.end)?);
					w.u16(s, "start_pc");
					w.u16(e.checked_sub(s).ok_or_else(|| EncodeError::BadModel("range end before start".into()))?, "length");
					w.u16(self.pool.utf8(&lv.name), "name_index");
					w.u16(self.pool.utf8(&lv.ty), "descriptor_index");
					w.u16(lv.index, "local_index");
				}
			}
			Attr::StackMapTable(frames) => {
				let code = code.ok_or_else(|| EncodeError::BadModel("stack map outside code".into()))?;
				let cldc = self.major < 50 && frames.iter().all(|x| matches!(x.kind, FrameKind::Full(..)));
				w.count(frames.len(), "number_of_entries", "frames")?;
				if cldc {
					// CLDC StackMap: absolute offsets, any order
					let mut fs: Vec<&Frame> = frames.iter().collect();
					if self.ch.next() % 2 == 1 {
						fs.reverse();
					}
					for f in fs {
						if let FrameKind::Full(l, s) = &f.kind {
							w.u16(code.pc(f.at)?, "offset");
							w.count(l.len(), "number_of_locals", "locals")?;
							for v in l {
								self.vtype(v, &mut w, code)?;
							}
							w.count(s.len(), "number_of_stack_items", "stack")?;
							for v in s {
								self.vtype(v, &mut w, code)?;
							}
						}
					}
				} else {
					let mut prev: i64 = -1;
					for f in frames {
						let pos = code.pc(f.at)? as i64;
						let delta = pos - prev - 1;
						if delta < 0 {
							return Err(EncodeError::BadModel("frames not strictly increasing".into()));
						}
						prev = pos;
						let delta = delta as u16;
						let extended = self.ch.next() % 2 == 1;
						match &f.kind {
							FrameKind::Same => {
								if delta <= 63 && !extended {
									w.u8(delta as u8, "frame_type");
								} else {
									w.u8(251, "frame_type");
									w.u16(delta, "offset_delta");
								}
							}
							FrameKind::Same1(v) => {
								if delta <= 63 && !extended {
									w.u8(64 + delta as u8, "frame_type");
								} else {
									w.u8(247, "frame_type");
									w.u16(delta, "offset_delta");
								}
								self.vtype(v, &mut w, code)?;
							}
							FrameKind::Chop(k) => {
								if !(1..=3).contains(k) {
									return Err(EncodeError::BadModel("chop k".into()));
								}
								w.u8(251 - k, "frame_type");
								w.u16(delta, "offset_delta");
							}
							FrameKind::Append(l) => {
								if !(1..=3).contains(&l.len()) {
									return Err(EncodeError::BadModel("append count".into()));
								}
								w.u8(251 + l.len() as u8, "frame_type");
								w.u16(delta, "offset_delta");
								for v in l {
									self.vtype(v, &mut w, code)?;
								}
							}
							FrameKind::Full(l, s) => {
								w.u8(255, "frame_type");
								w.u16(delta, "offset_delta");
								w.count(l.len(), "number_of_locals", "locals")?;
								for v in l {
									self.vtype(v, &mut w, code)?;
								}
								w.count(s.len(), "number_of_stack_items", "stack")?;
								for v in s {
									self.vtype(v, &mut w, code)?;
								}
							}
						}
					}
				}
			}
			Attr::Unknown { bytes, .. } => w.raw(bytes),
		}
		Ok(w)
	}

	fn code(&mut self, c: &Code) -> Result<W, EncodeError> {
		let layout = CodeLayout::build(c, &mut self.pool, &mut self.ch, self.major >= 51)?;
		self.forms.extend(layout.forms_used.iter().copied());
		let mut w = W::default();
		w.u16(c.max_stack, "max_stack");
		w.u16(c.max_locals, "max_locals");
		w.u32(layout.bytes.len() as u32, "code_length");
		let base = w.buf.len();
		w.raw(&layout.bytes);
		w.fields.extend(layout.fields.iter().map(|(o, wd, r)| (o + base, *wd, *r)));
		w.count(c.exceptions.len(), "exception_table_length", "exception table")?;
		for e in &c.exceptions {
			w.u16(layout.pc(e.start)?, "start_pc");
			w.u16(layout.pc(e.end)?, "end_pc");
			w.u16(layout.pc(e.handler)?, "handler_pc");
			w.u16(e.catch.as_ref().map(|c| self.pool.class(c)).unwrap_or(0), "catch_type");
		}
		self.attrs(&c.attrs, &mut w, Some(&layout), Vec::new())?;
		Ok(w)
	}
}

/// instruction encodings
#[derive(Clone, Copy, PartialEq, Eq, Debug)]
enum Form {
	Plain,
	Short,
	Wide,
}

pub struct CodeLayout {
	pub bytes: Vec<u8>,
	pub pcs: Vec<usize>,
	pub fields: FieldMap,
	pub forms_used: Vec<&'static str>,
}

impl CodeLayout {
	pub fn pc(&self, at: usize) -> Result<u16, EncodeError> {
		let p = *self.pcs.get(at).ok_or_else(|| EncodeError::BadModel(format!("position {at} out of range")))?;
		u16::try_from(p).map_err(|_| EncodeError::CodeTooLarge(p))
	}

	fn build(c: &Code, pool: &mut Pool, ch: &mut ChoiceStream, nonzero_padding_legal: bool) -> Result<CodeLayout, EncodeError> {
		if c.insns.is_empty() {
			return Err(EncodeError::BadModel("empty code".into()));
		}
		// pool indices of operands, and the form of every instruction
		let mut forms: Vec<Form> = Vec::with_capacity(c.insns.len());
		let mut operand: Vec<u16> = Vec::with_capacity(c.insns.len());
		// what the 0-3 alignment bytes of a switch hold: JVMS 6.5 says nothing about their content; class files of version
		// 51 and later are accepted with any (HotSpot insists on zeros below that)
		let mut pad_fill: Vec<u8> = Vec::with_capacity(c.insns.len());
		for insn in &c.insns {
			let choice = ch.next();
			pad_fill.push(if nonzero_padding_legal && choice % 4 == 3 { choice | 1 } else { 0 });
			let (form, idx) = match insn {
				Insn::Ldc(k) => {
					let idx = pool.constant(k);
					if k.is_wide() {
						(Form::Wide, idx)
					} else if idx <= 255 && choice % 2 == 0 {
						(Form::Plain, idx)
					} else {
						(Form::Wide, idx)
					}
				}
				Insn::Local { op, index } => {
					let f = if *index <= 3 && *op != 169 {
						match choice % 3 {
							0 => Form::Short,
							1 => Form::Plain,
							_ => Form::Wide,
						}
					} else if *index <= 255 {
						if choice % 2 == 0 {
							Form::Plain
						} else {
							Form::Wide
						}
					} else {
						Form::Wide
					};
					(f, 0)
				}
				Insn::Iinc { index, delta } => {
					let fits = *index <= 255 && i8::try_from(*delta).is_ok();
					(if fits && choice % 2 == 0 { Form::Plain } else { Form::Wide }, 0)
				}
				Insn::Branch { op, .. } => (if (*op == 167 || *op == 168) && choice % 4 == 3 { Form::Wide } else { Form::Plain }, 0),
				Insn::Field { owner, name, desc, .. } => (Form::Plain, pool.put(PKey::FieldRef(owner.clone(), name.clone(), desc.clone()))),
				Insn::Invoke { owner, name, desc, itf, .. } => (
					Form::Plain,
					if *itf { pool.put(PKey::IMethodRef(owner.clone(), name.clone(), desc.clone())) } else { pool.put(PKey::MethodRef(owner.clone(), name.clone(), desc.clone())) },
				),
				Insn::InvokeDynamic { name, desc, bsm } => {
					let b = pool.bsm(bsm);
					(Form::Plain, pool.put(PKey::InvokeDynamic(name.clone(), desc.clone(), b)))
				}
				Insn::Type { class, .. } | Insn::MultiANewArray { class, .. } => (Form::Plain, pool.class(class)),
				_ => (Form::Plain, 0),
			};
			forms.push(form);
			operand.push(idx);
		}
		// layout; widen goto/jsr that do not fit and retry
		loop {
			let mut pcs: Vec<usize> = Vec::with_capacity(c.insns.len() + 1);
			let mut pc = 0usize;
			for (i, insn) in c.insns.iter().enumerate() {
				pcs.push(pc);
				pc += insn_size(insn, forms[i], pc);
			}
			pcs.push(pc);
			if pc > 65535 {
				return Err(EncodeError::CodeTooLarge(pc));
			}
			let mut changed = false;
			for (i, insn) in c.insns.iter().enumerate() {
				if let Insn::Branch { op, target } = insn {
					let t = *pcs.get(*target).ok_or_else(|| EncodeError::BadModel("branch target out of range".into()))?;
					let off = t as i64 - pcs[i] as i64;
					if forms[i] == Form::Plain && i16::try_from(off).is_err() {
						if *op == 167 || *op == 168 {
							forms[i] = Form::Wide;
							changed = true;
						} else {
							return Err(EncodeError::BranchTooFar { insn: i });
						}
					}
				}
			}
			if changed {
				continue;
			}
			// emit
			let mut w = W::default();
			let mut used: Vec<&'static str> = Vec::new();
			for (i, insn) in c.insns.iter().enumerate() {
				debug_assert_eq!(w.buf.len(), pcs[i]);
				let here = pcs[i] as i64;
				let rel = |t: usize| -> Result<i64, EncodeError> { Ok(*pcs.get(t).ok_or_else(|| EncodeError::BadModel("target out of range".into()))? as i64 - here) };
				match insn {
					Insn::Simple(op) => w.u8(*op, "opcode"),
					Insn::Bipush(v) => {
						w.u8(16, "opcode");
						w.u8(*v as u8, "imm");
					}
					Insn::Sipush(v) => {
						w.u8(17, "opcode");
						w.u16(*v as u16, "imm");
					}
					Insn::Ldc(k) => {
						if k.is_wide() {
							w.u8(20, "opcode");
							w.u16(operand[i], "cp_index");
							used.push("ldc2_w");
						} else if forms[i] == Form::Plain {
							w.u8(18, "opcode");
							w.u8(operand[i] as u8, "cp_index8");
							used.push("ldc");
						} else {
							w.u8(19, "opcode");
							w.u16(operand[i], "cp_index");
							used.push("ldc_w");
						}
					}
					Insn::Local { op, index } => match forms[i] {
						Form::Short => {
							let base = if *op <= 25 { 26 + (*op - 21) * 4 } else { 59 + (*op - 54) * 4 };
							w.u8(base + *index as u8, "opcode");
							used.push("xload_n/xstore_n");
						}
						Form::Plain => {
							w.u8(*op, "opcode");
							w.u8(*index as u8, "local_index8");
							used.push("xload/xstore");
						}
						Form::Wide => {
							w.u8(196, "opcode");
							w.u8(*op, "opcode");
							w.u16(*index, "local_index");
							used.push("wide xload/xstore");
						}
					},
					Insn::Iinc { index, delta } => {
						if forms[i] == Form::Plain {
							w.u8(132, "opcode");
							w.u8(*index as u8, "local_index8");
							w.u8(*delta as i8 as u8, "imm");
							used.push("iinc");
						} else {
							w.u8(196, "opcode");
							w.u8(132, "opcode");
							w.u16(*index, "local_index");
							w.u16(*delta as u16, "imm");
							used.push("wide iinc");
						}
					}
					Insn::Branch { op, target } => {
						let off = rel(*target)?;
						if forms[i] == Form::Wide {
							w.u8(if *op == 167 { 200 } else { 201 }, "opcode");
							w.u32(off as i32 as u32, "branch32");
							used.push("goto_w/jsr_w");
						} else {
							w.u8(*op, "opcode");
							w.u16(off as i16 as u16, "branch16");
							if off < 0 {
								used.push("backward_branch");
							}
						}
					}
					Insn::TableSwitch { default, low, targets } => {
						w.u8(170, "opcode");
						while w.buf.len() % 4 != 0 {
							w.buf.push(pad_fill[i]);
							if pad_fill[i] != 0 {
								used.push("switch_padding_not_zero");
							}
						}
						used.push(["tableswitch_pad0", "tableswitch_pad1", "tableswitch_pad2", "tableswitch_pad3"][(4 - (pcs[i] + 1) % 4) % 4]);
						w.u32(rel(*default)? as i32 as u32, "branch32");
						w.u32(*low as u32, "switch_low");
						let high = (*low as i64 + targets.len() as i64 - 1) as i32;
						w.u32(high as u32, "switch_high");
						for t in targets {
							w.u32(rel(*t)? as i32 as u32, "branch32");
						}
					}
					Insn::LookupSwitch { default, pairs } => {
						w.u8(171, "opcode");
						while w.buf.len() % 4 != 0 {
							w.buf.push(pad_fill[i]);
							if pad_fill[i] != 0 {
								used.push("switch_padding_not_zero");
							}
						}
						used.push(["lookupswitch_pad0", "lookupswitch_pad1", "lookupswitch_pad2", "lookupswitch_pad3"][(4 - (pcs[i] + 1) % 4) % 4]);
						w.u32(rel(*default)? as i32 as u32, "branch32");
						w.u32(pairs.len() as u32, "switch_npairs");
						for (k, t) in pairs {
							w.u32(*k as u32, "switch_key");
							w.u32(rel(*t)? as i32 as u32, "branch32");
						}
					}
					Insn::Field { op, .. } => {
						w.u8(*op, "opcode");
						w.u16(operand[i], "cp_index");
					}
					Insn::Invoke { op, desc, .. } => {
						w.u8(*op, "opcode");
						w.u16(operand[i], "cp_index");
						if *op == 185 {
							w.u8(1 + arg_slots(desc) as u8, "invokeinterface_count");
							w.u8(0, "zero");
						}
					}
					Insn::InvokeDynamic { .. } => {
						w.u8(186, "opcode");
						w.u16(operand[i], "cp_index");
						w.u8(0, "zero");
						w.u8(0, "zero");
					}
					Insn::Type { op, .. } => {
						w.u8(*op, "opcode");
						w.u16(operand[i], "cp_index");
					}
					Insn::NewArray(t) => {
						w.u8(188, "opcode");
						w.u8(*t, "atype");
					}
					Insn::MultiANewArray { dims, .. } => {
						w.u8(197, "opcode");
						w.u16(operand[i], "cp_index");
						w.u8(*dims, "dimensions");
					}
				}
			}
			debug_assert_eq!(w.buf.len(), pc);
			return Ok(CodeLayout { bytes: w.buf, pcs, fields: w.fields, forms_used: used });
		}
	}
}

/// number of argument slots of a method descriptor (long/double take two)
pub fn arg_slots(desc: &str) -> usize {
	let b = desc.as_bytes();
	let mut i = 1;
	let mut n = 0;
	while i < b.len() && b[i] != b')' {
		let mut arr = false;
		while b[i] == b'[' {
			arr = true;
			i += 1;
		}
		match b[i] {
			b'L' => {
				while b[i] != b';' {
					i += 1;
				}
				n += 1;
			}
			b'J' | b'D' if !arr => n += 2,
			_ => n += 1,
		}
		i += 1;
	}
	n
}

fn insn_size(insn: &Insn, form: Form, pc: usize) -> usize {
	match insn {
		Insn::Simple(_) => 1,
		Insn::Bipush(_) => 2,
		Insn::Sipush(_) => 3,
		Insn::Ldc(_) => {
			if form == Form::Plain {
				2
			} else {
				3
			}
		}
		Insn::Local { .. } => match form {
			Form::Short => 1,
			Form::Plain => 2,
			Form::Wide => 4,
		},
		Insn::Iinc { .. } => {
			if form == Form::Plain {
				3
			} else {
				6
			}
		}
		Insn::Branch { .. } => {
			if form == Form::Wide {
				5
			} else {
				3
			}
		}
		Insn::TableSwitch { targets, .. } => {
			let pad = (4 - (pc + 1) % 4) % 4;
			1 + pad + 12 + 4 * targets.len()
		}
		Insn::LookupSwitch { pairs, .. } => {
			let pad = (4 - (pc + 1) % 4) % 4;
			1 + pad + 8 + 8 * pairs.len()
		}
		Insn::Field { .. } | Insn::Type { .. } => 3,
		Insn::Invoke { op, .. } => {
			if *op == 185 {
				5
			} else {
				3
			}
		}
		Insn::InvokeDynamic { .. } => 5,
		Insn::NewArray(_) => 2,
		Insn::MultiANewArray { .. } => 4,
	}
}

pub struct Encoded {
	pub bytes: Vec<u8>,
	pub fields: FieldMap,
	/// instruction/frame forms that occurred (for coverage labels)
	pub forms: Vec<&'static str>,
	pub pool_len: usize,
}

/// encode; runs twice when the constant pool is permuted (first run discovers the entries)
pub fn encode(c: &CClass, ch: &Choices) -> Result<Encoded, EncodeError> {
	let first = encode_with(c, ch, None)?;
	if ch.pool_seed == 0 && ch.junk_pool == 0 {
		return Ok(first.0);
	}
	let mut order = first.1;
	let mut seed = ch.pool_seed;
	if seed != 0 {
		shuffle(&mut order, &mut seed);
	}
	Ok(encode_with(c, ch, Some(order))?.0)
}

fn encode_with(c: &CClass, ch: &Choices, preset: Option<Vec<PKey>>) -> Result<(Encoded, Vec<PKey>), EncodeError> {
	let mut enc = Enc { pool: Pool::new(), ch: ChoiceStream::new(&ch.stream), attr_seed: ch.attr_seed, major: c.major, forms: Vec::new() };
	for v in &ch.pool_first {
		enc.pool.put(PKey::Int(*v));
	}
	if let Some(order) = &preset {
		let mut junk_seed = ch.pool_seed ^ 0x5555;
		if ch.junk_first {
			for _ in 0..ch.junk_pool {
				let n = lcg(&mut junk_seed);
				enc.pool.junk(n);
			}
		}
		// bootstrap methods referenced by Dynamic keys must exist with the same indices: register them first
		register_bsms(c, &mut enc.pool);
		let every = if ch.junk_pool == 0 || ch.junk_first { usize::MAX } else { (order.len() / ch.junk_pool as usize).max(1) };
		for (i, k) in order.iter().enumerate() {
			enc.pool.put(k.clone());
			if !ch.junk_first && i % every == every - 1 {
				let n = lcg(&mut junk_seed);
				enc.pool.junk(n);
			}
		}
	} else {
		register_bsms(c, &mut enc.pool);
	}
	enc.pool.dup_pct = ch.dup_used;
	enc.pool.dup_seed = ch.pool_seed ^ 0x0123_4567_89ab_cdef ^ ch.dup_used as u64;
	let mut body = W::default();
	body.u16(c.access, "access_flags");
	body.u16(enc.pool.class(&c.name), "this_class");
	body.u16(c.super_class.as_ref().map(|s| enc.pool.class(s)).unwrap_or(0), "super_class");
	body.count(c.interfaces.len(), "interfaces_count", "interfaces")?;
	for i in &c.interfaces {
		body.u16(enc.pool.class(i), "interface_index");
	}
	for (list, role) in [(&c.fields, "fields_count"), (&c.methods, "methods_count")] {
		body.count(list.len(), role, "members")?;
		for m in list {
			body.u16(m.access, "member_access_flags");
			body.u16(enc.pool.utf8(&m.name), "member_name_index");
			body.u16(enc.pool.utf8(&m.desc), "member_descriptor_index");
			enc.attrs(&m.attrs, &mut body, None, Vec::new())?;
		}
	}
	// class attributes; BootstrapMethods is derived from what was used
	let mut class_attrs = W::default();
	// encode the explicit attributes first into a scratch buffer so that every bootstrap method is known
	let mut scratch = W::default();
	enc.attrs(&c.attrs, &mut scratch, None, Vec::new())?;
	let extra = if enc.pool.bsms.is_empty() {
		Vec::new()
	} else {
		let mut b = W::default();
		b.count(enc.pool.bsms.len(), "num_bootstrap_methods", "bootstrap methods")?;
		for (_, h, args) in enc.pool.bsms.clone() {
			b.u16(h, "bootstrap_method_ref");
			b.count(args.len(), "num_bootstrap_arguments", "bootstrap arguments")?;
			for a in args {
				b.u16(a, "bootstrap_argument");
			}
		}
		vec![enc.wrap("BootstrapMethods", b)?]
	};
	// re-encode the class attributes with the same seed state is not needed: splice the extra attribute in
	if extra.is_empty() {
		class_attrs = scratch;
	} else {
		// attributes_count is the first u16 of scratch
		let n = u16::from_be_bytes([scratch.buf[0], scratch.buf[1]]);
		let mut patched = scratch.clone();
		let n2 = n.checked_add(1).ok_or(EncodeError::TooMany("attributes"))?;
		patched.buf[0..2].copy_from_slice(&n2.to_be_bytes());
		class_attrs.append(patched);
		for e in extra {
			class_attrs.append(e);
		}
	}
	body.append(class_attrs);
	let mut out = W::default();
	out.u32(0xCAFEBABE, "magic");
	out.u16(c.minor, "minor_version");
	out.u16(c.major, "major_version");
	enc.pool.write(&mut out)?;
	out.append(body);
	let mut forms = std::mem::take(&mut enc.forms);
	forms.sort();
	forms.dedup();
	let order = enc.pool.order.clone();
	Ok((Encoded { bytes: out.buf, fields: out.fields, forms, pool_len: enc.pool.len() }, order))
}

/// walks the model in a fixed order and registers every bootstrap method, so that bootstrap method
/// indices do not depend on the constant pool permutation
fn register_bsms(c: &CClass, pool: &mut Pool) {
	fn konst(k: &Const, pool: &mut Pool) {
		if let Const::Dynamic { bsm, .. } = k {
			for a in &bsm.args {
				konst(a, pool);
			}
			pool.bsm(bsm);
		}
	}
	fn attrs(list: &[Attr], pool: &mut Pool) {
		for a in list {
			match a {
				Attr::ConstantValue(k) => konst(k, pool),
				Attr::Code(code) => {
					for i in &code.insns {
						match i {
							Insn::Ldc(k) => konst(k, pool),
							Insn::InvokeDynamic { bsm, .. } => {
								for a in &bsm.args {
									konst(a, pool);
								}
								pool.bsm(bsm);
							}
							_ => {}
						}
					}
				}
				_ => {}
			}
		}
	}
	for m in c.fields.iter().chain(c.methods.iter()) {
		attrs(&m.attrs, pool);
	}
	attrs(&c.attrs, pool);
}
