//! Independent class-file codec: semantic model, encoder with encoding choices, strict decoder,
//! projection of duke trees, generators.
pub mod decode;
pub mod encode;
pub mod gen;
pub mod model;
pub mod project;
pub mod rename;
pub mod signature;
