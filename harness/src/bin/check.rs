use fbverif::engine::{install_panic_hook, Ctx, Tier};

#[global_allocator]
static ALLOC: fbverif::sandbox::CountingAlloc = fbverif::sandbox::CountingAlloc;

fn usage() -> ! {
	eprintln!("usage: check <ID> [--tier quick|thorough] [--replay FILE] [--strict]");
	std::process::exit(2)
}

fn main() {
	// anyhow captures a backtrace per error when RUST_BACKTRACE is set: slow and serialised by a global lock
	std::env::set_var("RUST_LIB_BACKTRACE", "0");
	let args: Vec<String> = std::env::args().skip(1).collect();
	if args.is_empty() {
		usage();
	}
	let id = args[0].clone();
	let mut tier = match std::env::var("VERIF_TIER").ok().as_deref() {
		Some("thorough") => Tier::Thorough,
		_ => Tier::Quick,
	};
	let mut replay: Option<String> = None;
	let mut strict = false;
	let mut i = 1;
	while i < args.len() {
		match args[i].as_str() {
			"--tier" => {
				i += 1;
				tier = match args.get(i).map(|s| s.as_str()) {
					Some("quick") => Tier::Quick,
					Some("thorough") => Tier::Thorough,
					_ => usage(),
				};
			}
			"--replay" => {
				i += 1;
				replay = Some(args.get(i).cloned().unwrap_or_else(|| usage()));
			}
			"--strict" => strict = true,
			"--child" => {
				// sandboxed child of C16: --child <shard> <nshards> <start>
				let n = |k: usize| args.get(i + k).and_then(|s| s.parse::<u64>().ok()).unwrap_or_else(|| usage());
				let seed: u64 = std::env::var("VERIF_SEED").ok().and_then(|s| s.trim().parse::<i128>().ok()).map(|v| v as u64).unwrap_or(1);
				install_panic_hook();
				fbverif::props::c16::child(seed, tier, n(1) as usize, n(2) as usize, n(3));
			}
			"--dump-hostile" => {
				fbverif::props::c16::dump_hostile();
				std::process::exit(0);
			}
			"--child-one" => {
				let path = args.get(i + 1).cloned().unwrap_or_else(|| usage());
				let text = std::fs::read_to_string(&path).unwrap_or_default();
				let v: serde_json::Value = serde_json::from_str(&text).unwrap_or_default();
				install_panic_hook();
				fbverif::props::c16::child_one(&v["case"]);
			}
			_ => usage(),
		}
		i += 1;
	}
	let seed: u64 = std::env::var("VERIF_SEED").ok().and_then(|s| s.trim().parse::<i128>().ok()).map(|v| v as u64).unwrap_or(1);
	install_panic_hook();
	let mut ctx = Ctx::new(&id, tier, seed);
	ctx.strict = strict;
	if let Some(path) = replay {
		let text = std::fs::read_to_string(&path).unwrap_or_else(|e| {
			eprintln!("cannot read replay file {path}: {e}");
			std::process::exit(2)
		});
		let v: serde_json::Value = serde_json::from_str(&text).unwrap_or_else(|e| {
			eprintln!("cannot parse replay file {path}: {e}");
			std::process::exit(2)
		});
		let sub = v["sub"].as_str().unwrap_or("").to_string();
		ctx.replay = Some((sub, v["case"].clone()));
		ctx.strict = true;
		if !fbverif::props::run(&mut ctx) {
			usage();
		}
		if ctx.violations.is_empty() {
			println!("replay {path}: property held");
			std::process::exit(0);
		}
		for v in &ctx.violations {
			println!("VIOLATION property={} replay={}", id, path);
			println!("  sub-check {}: {}", v.sub, v.reason);
		}
		std::process::exit(1);
	}
	if !fbverif::props::run(&mut ctx) {
		eprintln!("unknown property {id}; known: {:?}", fbverif::props::all());
		std::process::exit(2);
	}
	std::process::exit(ctx.finish());
}
