use fbverif::engine::{install_panic_hook, Ctx, Tier};

#[global_allocator]
static ALLOC: fbverif::sandbox::CountingAlloc = fbverif::sandbox::CountingAlloc;

fn usage() -> ! {
	eprintln!("usage: check <ID> [--tier quick|thorough] [--replay FILE] [--strict]");
	std::process::exit(2)
}

/// how a child process ended
enum Ended {
	Code(i32),
	/// killed from outside or by a resource limit: never evidence against the code
	Killed(String),
	/// died on its own (abort after a double panic or a stack overflow, SIGSEGV, a panic that escaped): to be attributed
	Crashed(String),
}

fn run_child(args: &[String], trace_dir: Option<&std::path::Path>, quiet: bool, masks_on: bool) -> (Ended, String) {
	use std::os::unix::process::ExitStatusExt;
	use std::process::{Command, Stdio};
	let exe = std::env::current_exe().unwrap_or_else(|_| "/verif/harness/target/debug/check".into());
	let mut cmd = Command::new(exe);
	cmd.args(args).arg("--inproc");
	if let Some(d) = trace_dir {
		cmd.env("VERIF_TRACE_DIR", d);
	}
	if masks_on {
		cmd.env("VERIF_REPLAY_MASKS", "1");
	}
	let out_path = std::path::PathBuf::from(format!("/dev/shm/fbverif-out-{}-{}", std::process::id(), args.len()));
	if quiet {
		match std::fs::File::create(&out_path) {
			Ok(f) => {
				cmd.stdout(Stdio::from(f)).stderr(Stdio::null());
			}
			Err(_) => {
				cmd.stdout(Stdio::null()).stderr(Stdio::null());
			}
		}
	}
	// watchdog: a check that does not come back is inconclusive, never a violation
	let thorough = args.windows(2).any(|w| w[0] == "--tier" && w[1] == "thorough") || (std::env::var("VERIF_TIER").ok().as_deref() == Some("thorough") && !args.iter().any(|a| a == "--tier"));
	let limit = std::env::var("VERIF_WATCHDOG_SECS").ok().and_then(|s| s.parse::<u64>().ok()).unwrap_or(if thorough { 12 * 3600 } else { 1800 });
	let mut child = match cmd.spawn() {
		Ok(c) => c,
		Err(e) => return (Ended::Killed(format!("cannot start the check process: {e}")), String::new()),
	};
	let started = std::time::Instant::now();
	let status = loop {
		match child.try_wait() {
			Ok(Some(st)) => break st,
			Ok(None) => {
				if started.elapsed().as_secs() > limit {
					let _ = child.kill();
					let _ = child.wait();
					let _ = std::fs::remove_file(&out_path);
					return (Ended::Killed(format!("watchdog: no result after {limit} s")), String::new());
				}
				std::thread::sleep(std::time::Duration::from_millis(if started.elapsed().as_secs() < 2 { 5 } else { 100 }));
			}
			Err(e) => return (Ended::Killed(format!("waiting for the check process failed: {e}")), String::new()),
		}
	};
	let stdout = if quiet { std::fs::read_to_string(&out_path).unwrap_or_default() } else { String::new() };
	let _ = std::fs::remove_file(&out_path);
	let ended = match (status.code(), status.signal()) {
		(Some(c @ 0..=2), _) => Ended::Code(c),
		(Some(c), _) => Ended::Crashed(format!("exit code {c}")),
		(None, Some(s @ (9 | 15 | 24 | 25))) => Ended::Killed(format!("signal {s}")),
		(None, Some(s)) => Ended::Crashed(format!("signal {s}")),
		(None, None) => Ended::Killed("unknown status".into()),
	};
	(ended, stdout)
}

/// Runs the check in a child process.  When the child dies on its own (the code under test aborted the process: a panic
/// while unwinding, a stack overflow, ...) the run is repeated with case tracing, every case that was in flight is replayed
/// in a process of its own, and those that kill it again are reported as violations with a replay file.
fn supervise(id: &str, args: &[String]) -> i32 {
	let (ended, _) = run_child(args, None, false, false);
	let why = match ended {
		Ended::Code(c) => return c,
		Ended::Killed(why) => {
			println!("INCONCLUSIVE: the check process was killed ({why})");
			return 2;
		}
		Ended::Crashed(why) => why,
	};
	if let Some(k) = args.iter().position(|a| a == "--replay") {
		// a single saved case: the file given is the replay
		println!("VIOLATION property={id} replay={}", args.get(k + 1).cloned().unwrap_or_default());
		println!("  the process replaying this case died ({why})");
		return 1;
	}
	println!("note: the check process died ({why}); running it again with case tracing to find the case that kills it");
	let dir = std::path::PathBuf::from(format!("/dev/shm/fbverif-trace-{}", std::process::id()));
	let _ = std::fs::remove_dir_all(&dir);
	let _ = std::fs::create_dir_all(&dir);
	let (ended2, out2) = run_child(args, Some(&dir), true, false);
	let rc = match ended2 {
		Ended::Code(c) => {
			// did not die again: what this run says counts; a clean pass after a crash is inconclusive
			print!("{out2}");
			if c == 0 {
				println!("INCONCLUSIVE: the check process died once ({why}) and passed when repeated");
				2
			} else {
				c
			}
		}
		Ended::Killed(w) => {
			println!("INCONCLUSIVE: the repeated check process was killed ({w})");
			2
		}
		Ended::Crashed(why2) => {
			let mut files: Vec<_> = std::fs::read_dir(&dir).map(|d| d.flatten().map(|e| e.path()).collect()).unwrap_or_default();
			files.sort();
			let replay_dir = std::path::Path::new("/verif/replays").join(id);
			let _ = std::fs::create_dir_all(&replay_dir);
			let mut reported = 0;
			for f in &files {
				if reported >= 3 {
					break;
				}
				let rargs = vec![id.to_string(), "--replay".to_string(), f.display().to_string()];
				let (e, _) = run_child(&rargs, None, true, true);
				let died = match e {
					Ended::Crashed(w) => Some(w),
					Ended::Code(1) => Some("reported as a violation when replayed".to_string()),
					_ => None,
				};
				if let Some(w) = died {
					let text = std::fs::read_to_string(f).unwrap_or_default();
					let v: serde_json::Value = serde_json::from_str(&text).unwrap_or_default();
					let h = fbverif::engine::fnv64(text.as_bytes());
					let sub = v["sub"].as_str().unwrap_or("?").to_string();
					let path = replay_dir.join(format!("fail-crash-{}-{h:016x}.json", sub.replace('/', "_")));
					let _ = std::fs::write(&path, serde_json::to_string_pretty(&v).unwrap_or(text));
					println!("VIOLATION property={id} replay={}", path.display());
					println!("  sub-check {sub}: the process running this case died ({w}); nothing the code under test is given may take the process down");
					reported += 1;
				}
			}
			if reported == 0 {
				let path = replay_dir.join("fail-crash-whole-check.json");
				let v = serde_json::json!({ "property": id, "sub": "*", "reason": format!("the check process died ({why2}) and no single traced case reproduces it: replaying repeats the whole check"), "case": null, "args": args });
				let _ = std::fs::write(&path, serde_json::to_string_pretty(&v).unwrap_or_default());
				println!("VIOLATION property={id} replay={}", path.display());
				println!("  the check process died twice ({why}; {why2}) outside a traced case (enumerated sub-checks are not traced)");
			}
			1
		}
	};
	let _ = std::fs::remove_dir_all(&dir);
	rc
}

fn main() {
	// anyhow captures a backtrace per error when RUST_BACKTRACE is set: slow and serialised by a global lock
	std::env::set_var("RUST_LIB_BACKTRACE", "0");
	let args: Vec<String> = std::env::args().skip(1).collect();
	if args.is_empty() {
		usage();
	}
	let id = args[0].clone();
	let own_process = args.iter().any(|a| matches!(a.as_str(), "--inproc" | "--child" | "--child-one" | "--dump-hostile")) || std::env::var_os("VERIF_INPROC").is_some();
	if !own_process {
		// a replay of "the whole check died" repeats the whole check
		if let Some(k) = args.iter().position(|a| a == "--replay") {
			if let Some(v) = args.get(k + 1).and_then(|p| std::fs::read_to_string(p).ok()).and_then(|t| serde_json::from_str::<serde_json::Value>(&t).ok()) {
				if v["sub"] == "*" {
					let a: Vec<String> = v["args"].as_array().map(|x| x.iter().filter_map(|s| s.as_str().map(String::from)).collect()).unwrap_or_else(|| vec![id.clone()]);
					std::process::exit(supervise(&id, &a));
				}
			}
		}
		std::process::exit(supervise(&id, &args));
	}
	let mut tier = match std::env::var("VERIF_TIER").ok().as_deref() {
		Some("thorough") => Tier::Thorough,
		_ => Tier::Quick,
	};
	let mut replay: Option<String> = None;
	let mut strict = false;
	let mut i = 1;
	while i < args.len() {
		match args[i].as_str() {
			"--tier" => {
				i += 1;
				tier = match args.get(i).map(|s| s.as_str()) {
					Some("quick") => Tier::Quick,
					Some("thorough") => Tier::Thorough,
					_ => usage(),
				};
			}
			"--replay" => {
				i += 1;
				replay = Some(args.get(i).cloned().unwrap_or_else(|| usage()));
			}
			"--strict" => strict = true,
			"--inproc" => {}
			"--child" => {
				// sandboxed child of C16: --child <shard> <nshards> <start>
				let n = |k: usize| args.get(i + k).and_then(|s| s.parse::<u64>().ok()).unwrap_or_else(|| usage());
				let seed: u64 = std::env::var("VERIF_SEED").ok().and_then(|s| s.trim().parse::<i128>().ok()).map(|v| v as u64).unwrap_or(1);
				install_panic_hook();
				fbverif::props::c16::child(seed, tier, n(1) as usize, n(2) as usize, n(3));
			}
			"--dump-hostile" => {
				fbverif::props::c16::dump_hostile();
				std::process::exit(0);
			}
			"--child-one" => {
				let path = args.get(i + 1).cloned().unwrap_or_else(|| usage());
				let text = std::fs::read_to_string(&path).unwrap_or_default();
				let v: serde_json::Value = serde_json::from_str(&text).unwrap_or_default();
				install_panic_hook();
				fbverif::props::c16::child_one(&v["case"]);
			}
			_ => usage(),
		}
		i += 1;
	}
	let seed: u64 = std::env::var("VERIF_SEED").ok().and_then(|s| s.trim().parse::<i128>().ok()).map(|v| v as u64).unwrap_or(1);
	install_panic_hook();
	let mut ctx = Ctx::new(&id, tier, seed);
	ctx.strict = strict;
	if let Some(path) = replay {
		let text = std::fs::read_to_string(&path).unwrap_or_else(|e| {
			eprintln!("cannot read replay file {path}: {e}");
			std::process::exit(2)
		});
		let v: serde_json::Value = serde_json::from_str(&text).unwrap_or_else(|e| {
			eprintln!("cannot parse replay file {path}: {e}");
			std::process::exit(2)
		});
		let sub = v["sub"].as_str().unwrap_or("").to_string();
		ctx.replay = Some((sub, v["case"].clone()));
		// a replay runs with the known-finding masks off, except when the supervisor replays the cases that were in flight
		// when a check process died (there a masked deviation must not be mistaken for the crash)
		ctx.strict = std::env::var_os("VERIF_REPLAY_MASKS").is_none();
		if !fbverif::props::run(&mut ctx) {
			usage();
		}
		if ctx.violations.is_empty() {
			println!("replay {path}: property held");
			std::process::exit(0);
		}
		for v in &ctx.violations {
			println!("VIOLATION property={} replay={}", id, path);
			println!("  sub-check {}: {}", v.sub, v.reason);
		}
		std::process::exit(1);
	}
	if !fbverif::props::run(&mut ctx) {
		eprintln!("unknown property {id}; known: {:?}", fbverif::props::all());
		std::process::exit(2);
	}
	std::process::exit(ctx.finish());
}
