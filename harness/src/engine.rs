//! Engine: proptest driven from a binary, sharded over threads, with label counters,
//! distinct/non-trivial accounting, shrink -> replay files, known-findings masks and the
//! evidence writer.  A run is a pure function of (tree, VERIF_SEED, tier).

use proptest::strategy::Strategy;
use proptest::test_runner::{Config, RngSeed, TestCaseError, TestError, TestRunner};
use serde::de::DeserializeOwned;
use serde::Serialize;
use serde_json::{json, Value};
use std::cell::RefCell;
use std::collections::{BTreeMap, BTreeSet, HashSet};
use std::fmt::Debug;
use std::panic::{catch_unwind, AssertUnwindSafe};
use std::path::{Path, PathBuf};
use std::sync::atomic::{AtomicBool, Ordering};
use std::time::Instant;

pub const VERIF: &str = "/verif";

#[derive(Clone, Copy, PartialEq, Eq, Debug)]
pub enum Tier {
	Quick,
	Thorough,
}

impl Tier {
	pub fn name(self) -> &'static str {
		match self {
			Tier::Quick => "quick",
			Tier::Thorough => "thorough",
		}
	}
	/// case count helper
	pub fn pick(self, quick: u32, thorough: u32) -> u32 {
		match self {
			Tier::Quick => quick,
			Tier::Thorough => thorough,
		}
	}
}

pub fn fnv64(bytes: &[u8]) -> u64 {
	let mut h: u64 = 0xcbf29ce484222325;
	for b in bytes {
		h ^= *b as u64;
		h = h.wrapping_mul(0x100000001b3);
	}
	h
}

/// monotone index mapping (shrinks well): maps a u16 onto 0..len
pub fn idx(i: u16, len: usize) -> usize {
	if len == 0 {
		return 0;
	}
	((i as usize) * len) >> 16
}

// ---------------------------------------------------------------------------------------------
// panic capture

thread_local! {
	static LAST_PANIC: RefCell<Option<String>> = const { RefCell::new(None) };
	static QUIET: RefCell<bool> = const { RefCell::new(false) };
}

pub fn install_panic_hook() {
	let default = std::panic::take_hook();
	std::panic::set_hook(Box::new(move |info| {
		let quiet = QUIET.with(|q| *q.borrow());
		if quiet {
			let loc = info.location().map(|l| format!("{}:{}", l.file(), l.line())).unwrap_or_default();
			let msg = if let Some(s) = info.payload().downcast_ref::<&str>() {
				s.to_string()
			} else if let Some(s) = info.payload().downcast_ref::<String>() {
				s.clone()
			} else {
				"<non-string panic>".to_string()
			};
			LAST_PANIC.with(|p| *p.borrow_mut() = Some(format!("panic at {loc}: {msg}")));
		} else {
			default(info);
		}
	}));
}

/// Runs `f`, converting a panic into `Err(description)`.
pub fn no_panic<T>(f: impl FnOnce() -> T) -> Result<T, String> {
	let prev = QUIET.with(|q| std::mem::replace(&mut *q.borrow_mut(), true));
	let r = catch_unwind(AssertUnwindSafe(f));
	QUIET.with(|q| *q.borrow_mut() = prev);
	match r {
		Ok(v) => Ok(v),
		Err(_) => Err(LAST_PANIC.with(|p| p.borrow_mut().take()).unwrap_or_else(|| "panic".into())),
	}
}

// ---------------------------------------------------------------------------------------------
// crash attribution: when the supervising parent (bin/check.rs) re-runs a check whose process died, VERIF_TRACE_DIR is set
// and every case is written down before it runs; the files left behind are the candidates for the crash

fn trace_dir() -> Option<&'static PathBuf> {
	static DIR: std::sync::OnceLock<Option<PathBuf>> = std::sync::OnceLock::new();
	DIR.get_or_init(|| std::env::var_os("VERIF_TRACE_DIR").map(PathBuf::from)).as_ref()
}

pub fn trace_case<T: Serialize>(property: &str, sub: &str, slot: &str, case: &T) {
	if let Some(dir) = trace_dir() {
		let v = json!({ "property": property, "sub": sub, "reason": "the check process died while this case was running", "case": case });
		let _ = std::fs::write(dir.join(format!("{}.json", slot.replace('/', "_"))), serde_json::to_string(&v).unwrap_or_default());
	}
}

pub fn trace_done(slot: &str) {
	if let Some(dir) = trace_dir() {
		let _ = std::fs::remove_file(dir.join(format!("{}.json", slot.replace('/', "_"))));
	}
}

// ---------------------------------------------------------------------------------------------
// known findings

#[derive(Clone, Debug, serde::Deserialize)]
pub struct Finding {
	pub id: String,
	pub property: String,
	pub status: String, // "open" | "fixed"
	pub what: String,
	#[serde(default)]
	pub replay: Option<String>,
	#[serde(default)]
	pub commit: Option<String>,
	/// C16: exact verdict signature masked by this finding
	#[serde(default)]
	pub signature: Option<String>,
}

#[derive(Clone, Debug, Default, serde::Deserialize)]
pub struct Findings {
	pub findings: Vec<Finding>,
}

impl Findings {
	pub fn load() -> Findings {
		let p = Path::new(VERIF).join("known_findings.json");
		match std::fs::read_to_string(&p) {
			Ok(s) => serde_json::from_str(&s).unwrap_or_else(|e| {
				eprintln!("cannot parse {p:?}: {e}");
				std::process::exit(2)
			}),
			Err(_) => Findings::default(),
		}
	}
	pub fn open_ids(&self, property: &str) -> BTreeSet<String> {
		self.findings.iter().filter(|f| f.property == property && f.status == "open").map(|f| f.id.clone()).collect()
	}
}

// ---------------------------------------------------------------------------------------------
// observation of one case

#[derive(Default)]
pub struct Obs {
	pub labels: Vec<String>,
	pub nontrivial: bool,
	pub masked: Vec<String>,
	open: BTreeSet<String>,
	strict: bool,
	/// findings that stay masked under --strict (env VERIF_STRICT_EXCEPT, used to isolate one finding)
	except: BTreeSet<String>,
}

impl Obs {
	/// an observation with the given findings treated as open (used by the libFuzzer targets, which
	/// tolerate the open findings in-target so that a campaign does not rediscover them forever)
	pub fn with_open(ids: &[&str]) -> Obs {
		Obs { open: ids.iter().map(|s| s.to_string()).collect(), ..Obs::default() }
	}
	pub fn label(&mut self, l: impl Into<String>) {
		self.labels.push(l.into());
	}
	pub fn label_if(&mut self, c: bool, l: &str) {
		if c {
			self.labels.push(l.to_string());
		}
	}
	pub fn nontrivial(&mut self) {
		self.nontrivial = true;
	}
	pub fn nontrivial_if(&mut self, c: bool) {
		if c {
			self.nontrivial = true;
		}
	}
	/// Is the deviation with this finding id an open known finding (and masks enabled)?
	/// Records the masking when it is.
	pub fn known(&mut self, id: &str) -> bool {
		if (!self.strict || self.except.contains(id)) && self.open.contains(id) {
			self.masked.push(id.to_string());
			true
		} else {
			false
		}
	}
	/// Same as `known` but does not count.
	pub fn is_open(&self, id: &str) -> bool {
		(!self.strict || self.except.contains(id)) && self.open.contains(id)
	}
}

pub type PropResult = Result<(), String>;

#[derive(Default)]
struct SubStats {
	evaluations: u64,
	labels: BTreeMap<String, u64>,
	masked: BTreeMap<String, u64>,
	nontrivial_hashes: HashSet<u64>,
	nontrivial: u64,
	samples: Vec<Value>,
}

pub struct Violation {
	pub sub: String,
	pub reason: String,
	pub replay: PathBuf,
}

pub struct Ctx {
	pub property: String,
	pub tier: Tier,
	pub seed: u64,
	pub threads: usize,
	pub findings: Findings,
	open: BTreeSet<String>,
	pub strict: bool,
	pub replay: Option<(String, Value)>,
	start: Instant,
	subs: BTreeMap<String, SubStats>,
	sub_order: Vec<String>,
	pub violations: Vec<Violation>,
	pub assumptions: Vec<String>,
	pub rule: String,
	pub level: &'static str,
	pub extra: BTreeMap<String, Value>,
	pub known_lines: Vec<String>,
	pub inconclusive: Vec<String>,
	pub exhaustive: bool,
	/// saved cases under /verif/replays/<id>/: (path, sub, case)
	saved: Vec<(PathBuf, String, Value)>,
	pub replayed: u64,
}

fn truncate_value(v: Value, max: usize) -> Value {
	let s = v.to_string();
	if s.len() <= max {
		v
	} else {
		let mut cut = max;
		while !s.is_char_boundary(cut) {
			cut -= 1;
		}
		Value::String(format!("{}…(truncated, {} bytes)", &s[..cut], s.len()))
	}
}

impl Ctx {
	pub fn new(property: &str, tier: Tier, seed: u64) -> Ctx {
		let findings = Findings::load();
		let open = findings.open_ids(property);
		let threads = std::env::var("VERIF_THREADS").ok().and_then(|s| s.parse().ok()).unwrap_or(16usize).max(1);
		Ctx {
			property: property.to_string(),
			tier,
			seed,
			threads,
			findings,
			open,
			strict: false,
			replay: None,
			start: Instant::now(),
			subs: BTreeMap::new(),
			sub_order: Vec::new(),
			violations: Vec::new(),
			assumptions: Vec::new(),
			rule: String::new(),
			level: "exploration",
			extra: BTreeMap::new(),
			known_lines: Vec::new(),
			inconclusive: Vec::new(),
			exhaustive: false,
			saved: load_saved(property),
			replayed: 0,
		}
	}

	/// Replay tier: saved cases of this sub-check run before generation.  `known-<id>.json` files are
	/// the minimal inputs of open findings (expected to fail with masks off -> KNOWN-FINDING line);
	/// every other file is a regression input and must pass.
	fn run_saved<T: DeserializeOwned + Serialize>(&mut self, name: &str, prop: &(impl Fn(&T, &mut Obs) -> PropResult + Sync)) {
		let saved: Vec<_> = self.saved.iter().filter(|(_, sub, _)| sub == name).cloned().collect();
		for (path, _, value) in saved {
			let case: T = match serde_json::from_value(value) {
				Ok(c) => c,
				Err(e) => {
					eprintln!("note: saved case {path:?} no longer decodes ({e}); skipped");
					continue;
				}
			};
			let fname = path.file_name().and_then(|f| f.to_str()).unwrap_or("").to_string();
			self.replayed += 1;
			trace_case(&self.property, name, &format!("{name}-saved"), &case);
			if let Some(id) = fname.strip_prefix("known-").and_then(|f| f.strip_suffix(".json")) {
				let finding = self.findings.findings.iter().find(|f| f.id == id).cloned();
				let Some(finding) = finding else {
					eprintln!("note: {path:?} names no finding in known_findings.json; skipped");
					continue;
				};
				if finding.status != "open" {
					// a fixed finding suppresses nothing: its input is a plain regression case
					let mut obs = self.new_obs();
					if let Err(reason) = no_panic(|| prop(&case, &mut obs)).and_then(|r| r) {
						self.violations.push(Violation { sub: name.to_string(), reason, replay: path.clone() });
					}
					continue;
				}
				let mut obs = self.new_obs();
				obs.strict = true;
				match no_panic(|| prop(&case, &mut obs)).and_then(|r| r) {
					Err(_) => self.known_lines.push(format!("{} [{}]", finding.what, finding.id)),
					Ok(()) => eprintln!("note: open finding {id} no longer reproduces from {path:?}"),
				}
			} else {
				let mut obs = self.new_obs();
				if let Err(reason) = no_panic(|| prop(&case, &mut obs)).and_then(|r| r) {
					self.violations.push(Violation { sub: name.to_string(), reason, replay: path.clone() });
				}
			}
		}
	}

	/// Replay tier for enumerated sub-checks: `f` gets the saved case as JSON.
	pub fn run_saved_values(&mut self, name: &str, f: &dyn Fn(&Value, &mut Obs) -> PropResult) {
		let saved: Vec<_> = self.saved.iter().filter(|(_, sub, _)| sub == name).cloned().collect();
		for (path, _, value) in saved {
			let fname = path.file_name().and_then(|f| f.to_str()).unwrap_or("").to_string();
			self.replayed += 1;
			let known = fname.strip_prefix("known-").and_then(|f| f.strip_suffix(".json")).and_then(|id| self.findings.findings.iter().find(|f| f.id == id).cloned());
			trace_case(&self.property, name, &format!("{name}-saved"), &value);
			match known {
				Some(finding) if finding.status == "open" => {
					let mut obs = self.new_obs();
					obs.strict = true;
					match no_panic(|| f(&value, &mut obs)).and_then(|r| r) {
						Err(_) => self.known_lines.push(format!("{} [{}]", finding.what, finding.id)),
						Ok(()) => eprintln!("note: open finding {} no longer reproduces from {path:?}", finding.id),
					}
				}
				_ => {
					let mut obs = self.new_obs();
					if let Err(reason) = no_panic(|| f(&value, &mut obs)).and_then(|r| r) {
						self.violations.push(Violation { sub: name.to_string(), reason, replay: path.clone() });
					}
				}
			}
		}
	}

	/// In replay mode: the case addressed to sub-check `name`, if any.
	pub fn replay_case(&self, name: &str) -> Option<Value> {
		match &self.replay {
			Some((sub, v)) if sub == name => Some(v.clone()),
			_ => None,
		}
	}
	pub fn in_replay(&self) -> bool {
		self.replay.is_some()
	}
	pub fn violations_push_saved(&mut self, sub: &str, reason: String, replay: PathBuf) {
		self.violations.push(Violation { sub: sub.to_string(), reason, replay });
	}
	pub fn push_violation(&mut self, sub: &str, reason: String) {
		self.violations.push(Violation { sub: sub.to_string(), reason, replay: PathBuf::new() });
	}

	pub fn assume(&mut self, s: &str) {
		self.assumptions.push(s.to_string());
	}

	pub fn new_obs(&self) -> Obs {
		let except = std::env::var("VERIF_STRICT_EXCEPT").map(|s| s.split(',').map(|x| x.trim().to_string()).collect()).unwrap_or_default();
		Obs { open: self.open.clone(), strict: self.strict, except, ..Obs::default() }
	}

	fn replay_dir(&self) -> PathBuf {
		Path::new(VERIF).join("replays").join(&self.property)
	}

	/// Run one generated sub-check.
	pub fn run_sub<S, T>(
		&mut self,
		name: &str,
		cases: u32,
		make_strategy: impl Fn() -> S + Sync,
		prop: impl Fn(&T, &mut Obs) -> PropResult + Sync,
	) where
		S: Strategy<Value = T>,
		T: Debug + Clone + Serialize + DeserializeOwned + Send,
	{
		// replay mode: run only the addressed sub-check on the saved case
		if let Some((sub, value)) = &self.replay {
			if sub != name {
				return;
			}
			let case: T = match serde_json::from_value(value.clone()) {
				Ok(c) => c,
				Err(e) => {
					self.inconclusive.push(format!("cannot decode replay case for {name}: {e}"));
					return;
				}
			};
			let mut obs = self.new_obs();
			let r = no_panic(|| prop(&case, &mut obs)).and_then(|r| r);
			self.record_sub(name);
			let st = self.subs.get_mut(name).unwrap();
			st.evaluations += 1;
			if let Err(reason) = r {
				self.violations.push(Violation { sub: name.to_string(), reason, replay: PathBuf::new() });
			}
			return;
		}

		self.record_sub(name);
		self.run_saved(name, &prop);
		trace_done(&format!("{name}-saved"));
		let shards = self.threads.min(cases.max(1) as usize).max(1);
		let per = cases.div_ceil(shards as u32);
		let base_seed = self.seed ^ fnv64(self.property.as_bytes()) ^ fnv64(name.as_bytes()).rotate_left(17);

		struct ShardOut<T> {
			stats: SubStats,
			fail: Option<(String, T)>,
			abort: Option<String>,
		}

		let outs: Vec<ShardOut<T>> = std::thread::scope(|scope| {
			let handles: Vec<_> = (0..shards)
				.map(|shard| {
					let make_strategy = &make_strategy;
					let prop = &prop;
					let this = &*self;
					scope.spawn(move || {
						let seed = base_seed ^ (shard as u64).wrapping_mul(0x9E3779B97F4A7C15);
						let config = Config {
							cases: per,
							rng_seed: RngSeed::Fixed(seed),
							failure_persistence: None,
							max_shrink_iters: 3000,
							max_global_rejects: 100_000,
							max_local_rejects: 1_000_000,
							..Config::default()
						};
						let mut runner = TestRunner::new(config);
						let stats = RefCell::new(SubStats::default());
						let failed = AtomicBool::new(false);
						let strategy = make_strategy();
						let slot = format!("{name}-shard{shard}");
						let res = runner.run(&strategy, |case: T| {
							let mut obs = this.new_obs();
							trace_case(&this.property, name, &slot, &case);
							let r = no_panic(|| prop(&case, &mut obs)).and_then(|r| r);
							if !failed.load(Ordering::Relaxed) {
								if r.is_err() {
									failed.store(true, Ordering::Relaxed);
								} else {
									let mut st = stats.borrow_mut();
									st.evaluations += 1;
									for l in obs.labels {
										*st.labels.entry(l).or_insert(0) += 1;
									}
									for m in obs.masked {
										*st.masked.entry(m).or_insert(0) += 1;
									}
									if obs.nontrivial {
										st.nontrivial += 1;
										let js = serde_json::to_string(&case).unwrap_or_default();
										st.nontrivial_hashes.insert(fnv64(js.as_bytes()));
										if st.samples.len() < 2 {
											if let Ok(v) = serde_json::to_value(&case) {
												st.samples.push(truncate_value(v, 1500));
											}
										}
									}
								}
							}
							r.map_err(TestCaseError::fail)
						});
						trace_done(&slot);
						let mut out = ShardOut { stats: stats.into_inner(), fail: None, abort: None };
						match res {
							Ok(()) => {}
							Err(TestError::Fail(reason, value)) => out.fail = Some((reason.message().to_string(), value)),
							Err(TestError::Abort(reason)) => out.abort = Some(reason.message().to_string()),
						}
						out
					})
				})
				.collect();
			handles.into_iter().map(|h| h.join().expect("shard thread")).collect()
		});

		let mut first_fail: Option<(String, T)> = None;
		for out in outs {
			let st = self.subs.get_mut(name).unwrap();
			st.evaluations += out.stats.evaluations;
			st.nontrivial += out.stats.nontrivial;
			for (k, v) in out.stats.labels {
				*st.labels.entry(k).or_insert(0) += v;
			}
			for (k, v) in out.stats.masked {
				*st.masked.entry(k).or_insert(0) += v;
			}
			st.nontrivial_hashes.extend(out.stats.nontrivial_hashes);
			for s in out.stats.samples {
				if st.samples.len() < 4 {
					st.samples.push(s);
				}
			}
			if let Some(a) = out.abort {
				self.inconclusive.push(format!("{name}: generator aborted: {a}"));
			}
			if first_fail.is_none() {
				first_fail = out.fail;
			}
		}
		if let Some((reason, value)) = first_fail {
			self.report_violation(name, &reason, &value);
		}
	}

	/// Run an enumerated (non-proptest) sub-check: `body` gets a recorder.
	pub fn run_enum(&mut self, name: &str, body: impl FnOnce(&mut EnumRec)) {
		if let Some((sub, _)) = &self.replay {
			if sub != name && !sub.starts_with(&format!("{name}/")) {
				return;
			}
		}
		self.record_sub(name);
		let mut rec = EnumRec { obs_template: self.new_obs(), stats: SubStats::default(), fails: Vec::new() };
		body(&mut rec);
		let st = self.subs.get_mut(name).unwrap();
		st.evaluations += rec.stats.evaluations;
		st.nontrivial += rec.stats.nontrivial;
		for (k, v) in rec.stats.labels {
			*st.labels.entry(k).or_insert(0) += v;
		}
		for (k, v) in rec.stats.masked {
			*st.masked.entry(k).or_insert(0) += v;
		}
		st.nontrivial_hashes.extend(rec.stats.nontrivial_hashes);
		for s in rec.stats.samples {
			if st.samples.len() < 4 {
				st.samples.push(s);
			}
		}
		for (reason, value) in rec.fails {
			self.report_violation(name, &reason, &value);
		}
	}

	pub fn report_violation<T: Serialize>(&mut self, sub: &str, reason: &str, case: &T) {
		let v = json!({ "property": self.property, "sub": sub, "reason": reason, "case": case });
		let text = serde_json::to_string_pretty(&v).unwrap_or_default();
		let dir = self.replay_dir();
		let _ = std::fs::create_dir_all(&dir);
		let h = fnv64(serde_json::to_string(&json!({"sub": sub, "case": case})).unwrap_or_default().as_bytes());
		let path = dir.join(format!("fail-{sub}-{h:016x}.json").replace('/', "_"));
		let path = if self.replay.is_some() { PathBuf::new() } else { path };
		if !path.as_os_str().is_empty() {
			let _ = std::fs::write(&path, text);
		}
		self.violations.push(Violation { sub: sub.to_string(), reason: reason.to_string(), replay: path });
	}

	fn record_sub(&mut self, name: &str) {
		if !self.subs.contains_key(name) {
			self.subs.insert(name.to_string(), SubStats::default());
			self.sub_order.push(name.to_string());
		}
	}

	pub fn add_label(&mut self, sub: &str, label: &str, n: u64) {
		self.record_sub(sub);
		*self.subs.get_mut(sub).unwrap().labels.entry(label.to_string()).or_insert(0) += n;
	}

	pub fn label_count(&self, sub: &str, label: &str) -> u64 {
		self.subs.get(sub).and_then(|s| s.labels.get(label)).copied().unwrap_or(0)
	}

	/// Writes the evidence file and prints the verdict lines; returns the exit code.
	pub fn finish(&mut self) -> i32 {
		let wall = self.start.elapsed().as_secs_f64();
		let mut evaluations = 0u64;
		let mut distinct = 0u64;
		let mut samples: Vec<Value> = Vec::new();
		let mut subs_json = serde_json::Map::new();
		let mut masked_total: BTreeMap<String, u64> = BTreeMap::new();
		for name in &self.sub_order {
			let st = &self.subs[name];
			evaluations += st.evaluations;
			distinct += st.nontrivial_hashes.len() as u64;
			for s in st.samples.iter().take(2) {
				samples.push(json!({ "sub": name, "case": s }));
			}
			for (k, v) in &st.masked {
				*masked_total.entry(k.clone()).or_insert(0) += v;
			}
			subs_json.insert(
				name.clone(),
				json!({
					"evaluations": st.evaluations,
					"nontrivial": st.nontrivial,
					"distinct_nontrivial": st.nontrivial_hashes.len(),
					"labels": st.labels,
					"masked_by_known_finding": st.masked,
				}),
			);
		}
		if samples.is_empty() {
			samples.push(json!("no non-trivial sample recorded in this run"));
		}
		let mut coverage = serde_json::Map::new();
		coverage.insert("evaluations".into(), json!(evaluations));
		coverage.insert("distinct_nontrivial".into(), json!(distinct));
		coverage.insert("rule".into(), json!(self.rule));
		coverage.insert("samples".into(), Value::Array(samples));
		coverage.insert("sub_checks".into(), Value::Object(subs_json));
		coverage.insert("masked_by_known_finding".into(), json!(masked_total));
		coverage.insert("known_findings_reported".into(), json!(self.known_lines));
		coverage.insert("saved_cases_replayed".into(), json!(self.replayed));
		if self.exhaustive {
			coverage.insert("exhaustive".into(), json!(true));
		}
		if !self.inconclusive.is_empty() {
			coverage.insert("inconclusive".into(), json!(self.inconclusive));
		}
		for (k, v) in &self.extra {
			coverage.insert(k.clone(), v.clone());
		}
		let evidence = json!({
			"property_id": self.property,
			"tier": self.tier.name(),
			"seed": self.seed,
			"level": self.level,
			"coverage": Value::Object(coverage),
			"assumptions": self.assumptions,
			"wall_s": (wall * 1000.0).round() / 1000.0,
			"violations": self.violations.len(),
		});
		if self.replay.is_none() {
			let dir = Path::new(VERIF).join("evidence");
			let _ = std::fs::create_dir_all(&dir);
			let path = dir.join(format!("{}.json", self.property));
			if let Err(e) = std::fs::write(&path, serde_json::to_string_pretty(&evidence).unwrap_or_default() + "\n") {
				eprintln!("cannot write evidence {path:?}: {e}");
				return 2;
			}
		}
		for l in &self.known_lines {
			println!("KNOWN-FINDING: property={} {}", self.property, l);
		}
		for v in &self.violations {
			println!("VIOLATION property={} replay={}", self.property, v.replay.display());
			println!("  sub-check {}: {}", v.sub, v.reason.replace('\n', "\n    "));
		}
		println!(
			"{} {} seed={} evaluations={} distinct_nontrivial={} violations={} wall={:.1}s",
			self.property,
			self.tier.name(),
			self.seed,
			evaluations,
			distinct,
			self.violations.len(),
			wall
		);
		if !self.violations.is_empty() {
			1
		} else if !self.inconclusive.is_empty() {
			for i in &self.inconclusive {
				println!("INCONCLUSIVE: {i}");
			}
			2
		} else {
			0
		}
	}
}

/// Recorder for enumerated sub-checks.
pub struct EnumRec {
	obs_template: Obs,
	stats: SubStats,
	fails: Vec<(String, Value)>,
}

impl EnumRec {
	pub fn obs(&self) -> Obs {
		Obs { open: self.obs_template.open.clone(), strict: self.obs_template.strict, except: self.obs_template.except.clone(), ..Obs::default() }
	}
	/// record one evaluated case
	pub fn case(&mut self, case_repr: impl FnOnce() -> Value, hash: u64, obs: Obs, result: PropResult) {
		self.stats.evaluations += 1;
		for l in obs.labels {
			*self.stats.labels.entry(l).or_insert(0) += 1;
		}
		for m in obs.masked {
			*self.stats.masked.entry(m).or_insert(0) += 1;
		}
		let need_sample = (obs.nontrivial && self.stats.samples.len() < 4) || result.is_err();
		let repr = if need_sample { Some(case_repr()) } else { None };
		if obs.nontrivial {
			self.stats.nontrivial += 1;
			self.stats.nontrivial_hashes.insert(hash);
			if self.stats.samples.len() < 4 {
				if let Some(r) = &repr {
					self.stats.samples.push(truncate_value(r.clone(), 1500));
				}
			}
		}
		if let Err(e) = result {
			if self.fails.len() < 5 {
				self.fails.push((e, repr.unwrap_or(Value::Null)));
			}
		}
	}
	pub fn bulk(&mut self, evaluations: u64, nontrivial_hashes: impl IntoIterator<Item = u64>, labels: &BTreeMap<String, u64>) {
		self.stats.evaluations += evaluations;
		for h in nontrivial_hashes {
			self.stats.nontrivial += 1;
			self.stats.nontrivial_hashes.insert(h);
		}
		for (k, v) in labels {
			*self.stats.labels.entry(k.clone()).or_insert(0) += v;
		}
	}
	pub fn masked(&mut self, id: &str, n: u64) {
		*self.stats.masked.entry(id.to_string()).or_insert(0) += n;
	}
	pub fn sample(&mut self, v: Value) {
		if self.stats.samples.len() < 4 {
			self.stats.samples.push(truncate_value(v, 1500));
		}
	}
	pub fn fail(&mut self, reason: String, case: Value) {
		if self.fails.len() < 25 {
			self.fails.push((reason, case));
		}
	}
	pub fn failed(&self) -> bool {
		!self.fails.is_empty()
	}
}

fn load_saved(property: &str) -> Vec<(PathBuf, String, Value)> {
	let dir = Path::new(VERIF).join("replays").join(property);
	let mut out = Vec::new();
	let Ok(rd) = std::fs::read_dir(&dir) else { return out };
	let mut paths: Vec<PathBuf> = rd.filter_map(|e| e.ok().map(|e| e.path())).filter(|p| p.extension().is_some_and(|x| x == "json")).collect();
	paths.sort();
	for p in paths {
		let Ok(text) = std::fs::read_to_string(&p) else { continue };
		let Ok(v) = serde_json::from_str::<Value>(&text) else { continue };
		let sub = v["sub"].as_str().unwrap_or("").to_string();
		out.push((p, sub, v["case"].clone()));
	}
	out
}

/// The repository prints diagnostics (eprintln!) on hot paths; send fd 2 to /dev/null for the rest of the run.
pub fn silence_stderr() {
	if std::env::var_os("VERIF_KEEP_STDERR").is_some() {
		return;
	}
	if let Ok(f) = std::fs::OpenOptions::new().write(true).open("/dev/null") {
		use std::os::fd::AsRawFd;
		unsafe {
			libc::dup2(f.as_raw_fd(), 2);
		}
	}
}

// ---------------------------------------------------------------------------------------------
// scratch directories on tmpfs

pub struct Scratch {
	pub path: PathBuf,
}

impl Scratch {
	pub fn new(tag: &str) -> Scratch {
		use std::sync::atomic::AtomicU64;
		static N: AtomicU64 = AtomicU64::new(0);
		let n = N.fetch_add(1, Ordering::Relaxed);
		let base = if Path::new("/dev/shm").is_dir() { PathBuf::from("/dev/shm") } else { std::env::temp_dir() };
		let path = base.join(format!("fbverif-{}-{}-{}", std::process::id(), tag, n));
		let _ = std::fs::remove_dir_all(&path);
		std::fs::create_dir_all(&path).expect("create scratch dir");
		Scratch { path }
	}
}

impl Drop for Scratch {
	fn drop(&mut self) {
		let _ = std::fs::remove_dir_all(&self.path);
	}
}

// ---------------------------------------------------------------------------------------------
// sinks and sources with short writes / short reads (as pipes, sockets and compressed streams behave):
// `Write::write` and `Read::read` may transfer fewer bytes than offered, the code under test must cope

pub struct ShortWrites {
	pub out: Vec<u8>,
	step: usize,
}

impl ShortWrites {
	pub fn new() -> ShortWrites {
		ShortWrites { out: Vec::new(), step: 3 }
	}
}

impl Default for ShortWrites {
	fn default() -> Self {
		Self::new()
	}
}

impl std::io::Write for ShortWrites {
	fn write(&mut self, buf: &[u8]) -> std::io::Result<usize> {
		let n = buf.len().min(self.step);
		self.out.extend_from_slice(&buf[..n]);
		self.step = self.step % 7 + 1;
		Ok(n)
	}
	fn flush(&mut self) -> std::io::Result<()> {
		Ok(())
	}
}

pub struct ShortReads<'a> {
	inner: std::io::Cursor<&'a [u8]>,
	step: usize,
}

impl<'a> ShortReads<'a> {
	pub fn new(data: &'a [u8]) -> ShortReads<'a> {
		ShortReads { inner: std::io::Cursor::new(data), step: 2 }
	}
	pub fn position(&self) -> u64 {
		self.inner.position()
	}
}

impl std::io::Read for ShortReads<'_> {
	fn read(&mut self, buf: &mut [u8]) -> std::io::Result<usize> {
		let n = buf.len().min(self.step);
		self.step = self.step % 5 + 1;
		std::io::Read::read(&mut self.inner, &mut buf[..n])
	}
}

impl std::io::Seek for ShortReads<'_> {
	fn seek(&mut self, pos: std::io::SeekFrom) -> std::io::Result<u64> {
		std::io::Seek::seek(&mut self.inner, pos)
	}
}
