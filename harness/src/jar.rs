//! Jar helpers for C07, C13, C14, C15: build `ParsedJar`s from encoder output, reopen results
//! through the zip layer, and expose a quill remapper as plain-string answers.

use crate::classfile::rename::{Answers, R};
use dukebox::storage::{BasicFileAttributes, ClassRepr, Jar, JarEntry, JarEntryEnum, OpenedJar, ParsedJar, ParsedJarEntry, UnnamedMemJar};
use java_string::{JavaStr, JavaString};
use quill::remapper::BRemapper;
use std::io::{Cursor, Read};

#[derive(Clone, Debug, PartialEq, Eq)]
pub enum Entry {
	Dir,
	Class(Vec<u8>),
	Other(Vec<u8>),
}

/// `parsed`: class entries are handed over as already parsed trees (otherwise as bytes)
pub fn build_jar(entries: &[(String, Entry)], parsed: bool) -> Result<ParsedJar<ClassRepr, Vec<u8>>, String> {
	let mut jar = ParsedJar { entries: indexmap::IndexMap::new() };
	for (name, e) in entries {
		let content = match e {
			Entry::Dir => JarEntryEnum::Dir,
			Entry::Other(b) => JarEntryEnum::Other(b.clone()),
			Entry::Class(b) => JarEntryEnum::Class(if parsed {
				ClassRepr::Parsed { class: duke::read_class(&mut Cursor::new(b)).map_err(|e| format!("duke::read_class rejected a well-formed class file: {e:#}"))? }
			} else {
				ClassRepr::Vec { data: b.clone() }
			}),
		};
		jar.entries.insert(name.clone(), ParsedJarEntry { attr: BasicFileAttributes::default(), content });
	}
	Ok(jar)
}

/// writes the jar through the zip layer and lists what a zip reader finds, in order
pub fn reopen(jar: ParsedJar<ClassRepr, Vec<u8>>) -> Result<Vec<(String, Entry)>, String> {
	let mem: UnnamedMemJar = jar.to_mem().map_err(|e| format!("writing the jar failed: {e:#}"))?;
	list_zip(&mem.data)
}

pub fn list_zip(data: &[u8]) -> Result<Vec<(String, Entry)>, String> {
	let mut zip = zip::ZipArchive::new(Cursor::new(data)).map_err(|e| format!("the written jar does not open as a zip archive: {e}"))?;
	let mut out = Vec::new();
	for i in 0..zip.len() {
		let mut f = zip.by_index(i).map_err(|e| format!("zip entry {i}: {e}"))?;
		let name = f.name().to_string();
		if f.is_dir() {
			out.push((name, Entry::Dir));
			continue;
		}
		let mut b = Vec::new();
		f.read_to_end(&mut b).map_err(|e| format!("zip entry {name}: {e}"))?;
		out.push((name.clone(), if name.ends_with(".class") { Entry::Class(b) } else { Entry::Other(b) }));
	}
	Ok(out)
}

/// the entries of an opened jar as dukebox itself sees them
pub fn list_jar(jar: &impl Jar) -> Result<Vec<(String, Entry)>, String> {
	let mut o = jar.open().map_err(|e| format!("{e:#}"))?;
	let mut out = Vec::new();
	for k in o.entry_keys() {
		let e = o.by_entry_key(k).map_err(|e| format!("{e:#}"))?;
		let name = e.name().to_string();
		use dukebox::storage::{IsClass, IsOther};
		out.push((
			name,
			match e.to_jar_entry_enum().map_err(|e| format!("{e:#}"))? {
				JarEntryEnum::Dir => Entry::Dir,
				JarEntryEnum::Class(c) => Entry::Class(c.write().map_err(|e| format!("{e:#}"))?.as_ref().to_vec()),
				JarEntryEnum::Other(o) => Entry::Other(o.get_data_owned()),
			},
		));
	}
	Ok(out)
}

// ---------------------------------------------------------------------------------------------

pub struct RemapperAnswers<'a, B: BRemapper>(pub &'a B);

fn js(s: &str) -> JavaString {
	JavaString::from(s)
}

fn back(s: &JavaStr) -> R<String> {
	s.as_str().map(|x| x.to_string()).map_err(|e| format!("remapper answered a non-UTF-8 string: {e}"))
}

macro_rules! conv {
	($t:ty, $s:expr) => {
		<$t>::try_from(js($s)).map_err(|e| format!("harness: {:?} is not a valid {}: {e:#}", $s, stringify!($t)))
	};
}

impl<B: BRemapper> Answers for RemapperAnswers<'_, B> {
	fn class(&self, name: &str) -> R<String> {
		use duke::tree::class::ObjClassName;
		let n = conv!(ObjClassName, name)?;
		back(self.0.map_class(&n).map_err(|e| format!("remapper: {e:#}"))?.as_inner())
	}
	fn class_any(&self, name: &str) -> R<String> {
		use duke::tree::class::ClassName;
		let n = conv!(ClassName, name)?;
		back(self.0.map_class_any(&n).map_err(|e| format!("remapper: {e:#}"))?.as_inner())
	}
	fn field_desc(&self, d: &str) -> R<String> {
		use duke::tree::field::FieldDescriptor;
		let n = conv!(FieldDescriptor, d)?;
		back(self.0.map_field_desc(&n).map_err(|e| format!("remapper: {e:#}"))?.as_inner())
	}
	fn method_desc(&self, d: &str) -> R<String> {
		use duke::tree::method::MethodDescriptor;
		let n = conv!(MethodDescriptor, d)?;
		back(self.0.map_method_desc(&n).map_err(|e| format!("remapper: {e:#}"))?.as_inner())
	}
	fn return_desc(&self, d: &str) -> R<String> {
		use duke::tree::descriptor::ReturnDescriptor;
		let n = conv!(ReturnDescriptor, d)?;
		back(self.0.map_return_desc(&n).map_err(|e| format!("remapper: {e:#}"))?.as_inner())
	}
	fn field(&self, owner: &str, name: &str, desc: &str) -> R<(String, String)> {
		use duke::tree::class::ObjClassName;
		use duke::tree::field::{FieldDescriptor, FieldName};
		let (o, n, d) = (conv!(ObjClassName, owner)?, conv!(FieldName, name)?, conv!(FieldDescriptor, desc)?);
		let r = self.0.map_field(&o, &n, &d).map_err(|e| format!("remapper: {e:#}"))?;
		Ok((back(r.name.as_inner())?, back(r.desc.as_inner())?))
	}
	fn method(&self, owner: &str, name: &str, desc: &str) -> R<(String, String)> {
		use duke::tree::class::ObjClassName;
		use duke::tree::method::{MethodDescriptor, MethodName};
		let (o, n, d) = (conv!(ObjClassName, owner)?, conv!(MethodName, name)?, conv!(MethodDescriptor, desc)?);
		let r = self.0.map_method(&o, &n, &d).map_err(|e| format!("remapper: {e:#}"))?;
		Ok((back(r.name.as_inner())?, back(r.desc.as_inner())?))
	}
	fn field_ref(&self, owner: &str, name: &str, desc: &str) -> R<(String, String, String)> {
		let (n, d) = self.field(owner, name, desc)?;
		Ok((self.class(owner)?, n, d))
	}
	fn method_ref(&self, owner: &str, name: &str, desc: &str) -> R<(String, String, String)> {
		if owner.starts_with('[') {
			// a method of an array class: only the class name is a reference into the mappings
			return Ok((self.class_any(owner)?, name.to_string(), desc.to_string()));
		}
		let (n, d) = self.method(owner, name, desc)?;
		Ok((self.class(owner)?, n, d))
	}
}

/// lets a borrowed remapper be passed where dukebox wants one by value
pub struct ByRef<'a, B: BRemapper>(pub &'a B);

impl<B: BRemapper> quill::remapper::ARemapper for ByRef<'_, B> {
	fn map_class_fail(&self, class: &duke::tree::class::ObjClassNameSlice) -> anyhow::Result<Option<duke::tree::class::ObjClassName>> {
		self.0.map_class_fail(class)
	}
}

impl<B: BRemapper> BRemapper for ByRef<'_, B> {
	fn map_field_fail(
		&self,
		owner_name: &duke::tree::class::ObjClassNameSlice,
		field_name: &duke::tree::field::FieldNameSlice,
		field_desc: &duke::tree::field::FieldDescriptorSlice,
	) -> anyhow::Result<Option<duke::tree::field::FieldNameAndDesc>> {
		self.0.map_field_fail(owner_name, field_name, field_desc)
	}
	fn map_method_fail(
		&self,
		owner_name: &duke::tree::class::ObjClassNameSlice,
		method_name: &duke::tree::method::MethodNameSlice,
		method_desc: &duke::tree::method::MethodDescriptorSlice,
	) -> anyhow::Result<Option<duke::tree::method::MethodNameAndDesc>> {
		self.0.map_method_fail(owner_name, method_name, method_desc)
	}
}
