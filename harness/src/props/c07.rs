//! C07 — remapping a jar renames every reference consistently and nothing else.

use crate::classfile::encode::{encode, Choices};
use crate::classfile::gen::{choices, class_from_stream, class_stream, CLASS_NAMES};
use crate::classfile::model::*;
use crate::classfile::project::project;
use crate::classfile::rename::{blank_unasserted, Gaps, Renamer};
use crate::engine::{Ctx, Obs, PropResult};
use crate::jar::{build_jar, reopen, ByRef, Entry, RemapperAnswers};
use crate::mapmodel::conv::to_quill;
use crate::mapmodel::gen::Draws;
use crate::mapmodel::{MClass, MField, MMethod, MapSet, MemberKey};
use crate::props::c01::first_diff;
use dukebox::storage::{ClassRepr, Jar, JarEntryEnum};
use proptest::prelude::*;
use serde::{Deserialize, Serialize};
use std::collections::{BTreeMap, BTreeSet};

struct Ns;

pub const JAR_CLASS_NAMES: &[&str] = &["a/B", "C", "pkg/Outer$Inner", "x/y/Z"];

#[derive(Clone, Debug, Serialize, Deserialize)]
pub struct Case {
	pub streams: Vec<Vec<u8>>,
	pub ch: Choices,
	/// drives the choice of what is renamed and where members are declared
	pub map_stream: Vec<u8>,
	/// class entries are handed over parsed / as bytes / the whole jar as a zip archive
	pub input_form: u8,
	/// seed of the generic signatures put on classes, members, record components and local variables (0 = the random
	/// strings of the class generator stay)
	#[serde(default)]
	pub sigs: u64,
}

fn strategy() -> impl Strategy<Value = Case> {
	(proptest::collection::vec(class_stream(), 1..=4), choices(), proptest::collection::vec(any::<u8>(), 0..120), 0u8..3, prop_oneof![1 => Just(0u64), 3 => any::<u64>()])
		.prop_map(|(streams, ch, map_stream, input_form, sigs)| Case { streams, ch, map_stream, input_form, sigs })
}

/// Generic signatures from the JVMS 4.7.9.1 grammar over the class names the jar and the mappings speak about: every
/// Signature attribute (class, field, method, record component) and every LocalVariableTypeTable entry gets one, and
/// members without a Signature get one in one case of three.
pub fn realistic_signatures(models: &mut [CClass], seed: u64) {
	if seed == 0 {
		return;
	}
	let names: Vec<String> = CLASS_NAMES.iter().chain(JAR_CLASS_NAMES.iter()).filter(|n| !n.starts_with('[')).map(|s| s.to_string()).collect();
	let mut g = crate::classfile::signature::SigGen::new(seed, names);
	fn put(attrs: &mut Vec<Attr>, sig: String, add: bool) {
		let mut found = false;
		for a in attrs.iter_mut() {
			if let Attr::Signature(s) = a {
				*s = sig.clone();
				found = true;
			}
		}
		if !found && add {
			attrs.push(Attr::Signature(sig));
		}
	}
	for c in models.iter_mut() {
		let s = g.class_signature();
		let add = g.class_signature().len() % 3 == 0;
		put(&mut c.attrs, s, add);
		for a in c.attrs.iter_mut() {
			if let Attr::Record(rc) = a {
				for r in rc {
					let s = g.field_signature();
					put(&mut r.attrs, s, true);
				}
			}
		}
		for f in c.fields.iter_mut() {
			let s = g.field_signature();
			let add = s.len() % 3 == 0;
			put(&mut f.attrs, s, add);
		}
		for m in c.methods.iter_mut() {
			let s = g.method_signature();
			let add = s.len() % 3 == 0;
			put(&mut m.attrs, s, add);
			for a in m.attrs.iter_mut() {
				if let Attr::Code(code) = a {
					for ca in code.attrs.iter_mut() {
						if let Attr::LocalVariableTypeTable(t) = ca {
							for lv in t {
								lv.ty = g.field_signature();
							}
						}
					}
				}
			}
		}
	}
}

/// the signature-carrying positions of a class in canonical order: (where, text)
fn signature_slots(c: &CClass, with_record: bool) -> Vec<(String, String)> {
	let mut c = c.canon();
	if !with_record {
		c.attrs.retain(|a| !matches!(a, Attr::Record(_)));
	}
	let mut out = Vec::new();
	fn of(attrs: &[Attr], wher: &str, out: &mut Vec<(String, String)>) {
		for a in attrs {
			match a {
				Attr::Signature(s) => out.push((format!("{wher}: Signature"), s.clone())),
				Attr::Record(rc) => rc.iter().enumerate().for_each(|(i, r)| of(&r.attrs, &format!("{wher}: record component {i}"), out)),
				Attr::Code(code) => {
					for ca in &code.attrs {
						if let Attr::LocalVariableTypeTable(t) = ca {
							t.iter().enumerate().for_each(|(i, lv)| out.push((format!("{wher}: LocalVariableTypeTable entry {i}"), lv.ty.clone())));
						}
					}
				}
				_ => {}
			}
		}
	}
	of(&c.attrs, "class", &mut out);
	c.fields.iter().enumerate().for_each(|(i, f)| of(&f.attrs, &format!("field {i}"), &mut out));
	c.methods.iter().enumerate().for_each(|(i, m)| of(&m.attrs, &format!("method {i}"), &mut out));
	out
}

/// Generic signatures and the simple names of InnerClasses entries.  dukebox leaves both untouched today (TODOs in
/// remap.rs) and the statement does not list them among the reference-carrying positions, so two outcomes are accepted at
/// each position: the original text, or the text with every class name replaced by the remapper's answer (for the
/// `Outer<..>.Inner` form: any text of the same shape).  Anything else - a signature dropped, garbled, truncated or
/// attached to another member - is "non-name content changed".
fn check_signatures(what: &str, old: &str, input: &CClass, got: &CClass, answers: &impl crate::classfile::rename::Answers, obs: &mut Obs) -> PropResult {
	use crate::classfile::signature::{rename_signature, shape};
	// record components dropped as a whole are the business of the recorded finding, not of this comparison
	let with_record = got.attrs.iter().any(|a| matches!(a, Attr::Record(_)));
	let (a, b) = (signature_slots(input, with_record), signature_slots(got, with_record));
	if a.len() != b.len() || a.iter().zip(b.iter()).any(|(x, y)| x.0 != y.0) {
		return Err(format!("{what}: class {old}: the signature-carrying positions are {:?}, the input has {:?}", b.iter().map(|x| &x.0).collect::<Vec<_>>(), a.iter().map(|x| &x.0).collect::<Vec<_>>()));
	}
	for ((wher, orig), (_, g)) in a.iter().zip(b.iter()) {
		if g == orig {
			obs.label("signature:kept");
			continue;
		}
		let ok = match rename_signature(orig, &mut |n| answers.class(n)) {
			Some(Ok(r)) => *g == r.text || (r.dotted && shape(g).as_deref() == Some(r.shape.as_str())),
			_ => false,
		};
		if !ok {
			return Err(format!("{what}: class {old}: {wher} was {orig:?} and is {g:?} now: neither unchanged nor the same signature with the remapper's class names"));
		}
		obs.label("signature:renamed");
	}
	// simple names of InnerClasses entries: unchanged, or the tail of the new inner class name
	let inner = |c: &CClass| -> Vec<(String, Option<String>)> { c.canon().attrs.iter().filter_map(|a| if let Attr::InnerClasses(l) = a { Some(l.iter().map(|ic| (ic.inner.clone(), ic.name.clone())).collect::<Vec<_>>()) } else { None }).flatten().collect() };
	let (ia, ib) = (inner(input), inner(got));
	if ia.len() == ib.len() {
		for ((_, n_old), (new_inner, n_new)) in ia.iter().zip(ib.iter()) {
			let ok = match (n_old, n_new) {
				(None, None) => true,
				(Some(o), Some(n)) => o == n || (!n.is_empty() && new_inner.strip_suffix(n.as_str()).is_some_and(|p| p.ends_with('$') || p.ends_with(|c: char| c.is_ascii_digit()))),
				_ => false,
			};
			if !ok {
				return Err(format!("{what}: class {old}: the simple name of the InnerClasses entry for {new_inner} was {n_old:?} and is {n_new:?} now"));
			}
		}
	}
	Ok(())
}

/// the classes of the jar: distinct names, acyclic inheritance among them (unknown attributes at every level included)
pub fn jar_models(streams: &[Vec<u8>], max_members: usize, max_insns: usize) -> Vec<CClass> {
	let mut out = Vec::new();
	for (k, s) in streams.iter().enumerate().take(JAR_CLASS_NAMES.len()) {
		let mut m = class_from_stream(s, max_members, max_insns);
		m.name = JAR_CLASS_NAMES[k].to_string();
		let later: Vec<&str> = JAR_CLASS_NAMES[k + 1..].to_vec();
		let ok = |n: &str| later.contains(&n) || !JAR_CLASS_NAMES.contains(&n);
		if let Some(s) = &m.super_class {
			if !ok(s) {
				m.super_class = Some(later.first().map(|x| x.to_string()).unwrap_or("java/lang/Object".to_string()));
			}
		}
		m.interfaces.retain(|i| ok(i));
		m.interfaces.dedup();
		let mut seen = BTreeSet::new();
		m.interfaces.retain(|i| seen.insert(i.clone()));
		out.push(m);
	}
	out
}

/// every (owner, name, desc) of a field / method declared or referenced in the classes
fn members_of(models: &[CClass]) -> (BTreeSet<(String, String, String)>, BTreeSet<(String, String, String)>) {
	let mut fields = BTreeSet::new();
	let mut methods = BTreeSet::new();
	fn konst(k: &Const, fields: &mut BTreeSet<(String, String, String)>, methods: &mut BTreeSet<(String, String, String)>) {
		match k {
			Const::MethodHandle(h) => handle(h, fields, methods),
			Const::Dynamic { bsm, .. } => {
				handle(&bsm.handle, fields, methods);
				bsm.args.iter().for_each(|a| konst(a, fields, methods));
			}
			_ => {}
		}
	}
	fn handle(h: &Handle, fields: &mut BTreeSet<(String, String, String)>, methods: &mut BTreeSet<(String, String, String)>) {
		if h.kind <= 4 {
			fields.insert((h.owner.clone(), h.name.clone(), h.desc.clone()));
		} else {
			methods.insert((h.owner.clone(), h.name.clone(), h.desc.clone()));
		}
	}
	fn enums(v: &ElementValue, fields: &mut BTreeSet<(String, String, String)>) {
		match v {
			ElementValue::Enum { ty, name } => {
				if let Some(owner) = ty.strip_prefix('L').and_then(|t| t.strip_suffix(';')) {
					fields.insert((owner.to_string(), name.clone(), ty.clone()));
				}
			}
			ElementValue::Annotation(a) => a.pairs.iter().for_each(|(_, v)| enums(v, fields)),
			ElementValue::Array(l) => l.iter().for_each(|v| enums(v, fields)),
			_ => {}
		}
	}
	fn ann_attrs(attrs: &[Attr], fields: &mut BTreeSet<(String, String, String)>) {
		for a in attrs {
			match a {
				Attr::Annotations { list, .. } => list.iter().for_each(|a| a.pairs.iter().for_each(|(_, v)| enums(v, fields))),
				Attr::TypeAnnotations { list, .. } => list.iter().for_each(|a| a.annotation.pairs.iter().for_each(|(_, v)| enums(v, fields))),
				Attr::AnnotationDefault(v) => enums(v, fields),
				Attr::Code(c) => ann_attrs(&c.attrs, fields),
				Attr::Record(rc) => rc.iter().for_each(|r| ann_attrs(&r.attrs, fields)),
				_ => {}
			}
		}
	}
	for c in models {
		ann_attrs(&c.attrs, &mut fields);
		for m in c.fields.iter().chain(c.methods.iter()) {
			ann_attrs(&m.attrs, &mut fields);
		}
		for f in &c.fields {
			fields.insert((c.name.clone(), f.name.clone(), f.desc.clone()));
		}
		for m in &c.methods {
			methods.insert((c.name.clone(), m.name.clone(), m.desc.clone()));
		}
		for a in &c.attrs {
			if let Attr::EnclosingMethod { class, method: Some((n, d)) } = a {
				methods.insert((class.clone(), n.clone(), d.clone()));
			}
			if let Attr::Record(rc) = a {
				for r in rc {
					fields.insert((c.name.clone(), r.name.clone(), r.desc.clone()));
				}
			}
		}
		for code in c.codes() {
			for i in &code.insns {
				match i {
					Insn::Field { owner, name, desc, .. } => {
						fields.insert((owner.clone(), name.clone(), desc.clone()));
					}
					Insn::Invoke { owner, name, desc, .. } => {
						methods.insert((owner.clone(), name.clone(), desc.clone()));
					}
					Insn::Ldc(k) => konst(k, &mut fields, &mut methods),
					Insn::InvokeDynamic { bsm, .. } => {
						handle(&bsm.handle, &mut fields, &mut methods);
						bsm.args.iter().for_each(|a| konst(a, &mut fields, &mut methods));
					}
					_ => {}
				}
			}
		}
	}
	(fields, methods)
}

/// transitive super types of `c` inside the jar (declaration order, depth first)
fn supers(models: &[CClass], c: &str, out: &mut Vec<String>) {
	if let Some(m) = models.iter().find(|m| m.name == c) {
		for s in m.super_class.iter().chain(m.interfaces.iter()) {
			if !out.contains(s) {
				out.push(s.clone());
				supers(models, s, out);
			}
		}
	}
}

/// a two-namespace mapping set over the names the jar uses
pub fn mappings_for(models: &[CClass], stream: &[u8]) -> MapSet {
	let mut d = Draws::new(stream);
	let mut set = MapSet { ns: vec!["official".into(), "named".into()], classes: BTreeMap::new() };
	let mut n = 0usize;
	let mut fresh = |prefix: &str| {
		n += 1;
		format!("{prefix}{n}")
	};
	let mut universe: Vec<String> = CLASS_NAMES.iter().map(|s| s.to_string()).collect();
	for m in models {
		for n in std::iter::once(&m.name).chain(m.super_class.iter()).chain(m.interfaces.iter()) {
			if !universe.contains(n) {
				universe.push(n.clone());
			}
		}
	}
	for (i, c) in universe.iter().enumerate() {
		if d.pct(65) {
			let new = match d.next() % 4 {
				0 => fresh("N"),
				1 => format!("r/{}", fresh("N")),
				2 => format!("r/s/{}$In", fresh("N")),
				_ => {
					// never the name of another class of the universe (deep/C1 + 12 = deep/C112)
					let n = format!("{}{}", c, i);
					if universe.contains(&n) {
						format!("{}_{}", c, i)
					} else {
						n
					}
				}
			};
			set.classes.insert(c.to_string(), MClass { names: vec![Some(c.to_string()), Some(new)], ..MClass::default() });
		}
	}
	let (fields, methods) = members_of(models);
	for (is_method, list) in [(false, fields), (true, methods)] {
		for (owner, name, desc) in list {
			if owner.starts_with('[') || name.starts_with('<') || !d.pct(60) {
				continue;
			}
			// declare it in the owner or in one of its super types
			let mut sup = vec![owner.clone()];
			supers(models, &owner, &mut sup);
			let decl = sup[(d.next() as usize) % sup.len()].clone();
			if decl.starts_with('[') {
				continue;
			}
			let class = set.classes.entry(decl.clone()).or_insert_with(|| MClass { names: vec![Some(decl.clone()), None], ..MClass::default() });
			let key = MemberKey::new(&name, &desc);
			if is_method {
				let new = fresh("m");
				class.methods.entry(key).or_insert(MMethod { names: vec![Some(name.clone()), Some(new)], ..MMethod::default() });
			} else {
				let new = fresh("f");
				class.fields.entry(key).or_insert(MField { names: vec![Some(name.clone()), Some(new)], ..MField::default() });
			}
		}
	}
	set
}

/// the answers an independent reference remapper (written from the C06 statement) derives from the mapping model and
/// the jar's inheritance; used to cross-check the answers of quill's remapper, which the renaming follows
struct RefAnswers<'a> {
	r: crate::mapmodel::refops::RefRemapper<'a>,
	search: crate::mapmodel::refops::Search,
}

impl crate::classfile::rename::Answers for RefAnswers<'_> {
	fn class(&self, n: &str) -> Result<String, String> {
		Ok(self.r.map_class(n))
	}
	fn class_any(&self, n: &str) -> Result<String, String> {
		Ok(if n.starts_with('[') { self.r.map_desc(n) } else { self.r.map_class(n) })
	}
	fn field_desc(&self, d: &str) -> Result<String, String> {
		Ok(self.r.map_desc(d))
	}
	fn method_desc(&self, d: &str) -> Result<String, String> {
		Ok(self.r.map_desc(d))
	}
	fn return_desc(&self, d: &str) -> Result<String, String> {
		Ok(self.r.map_desc(d))
	}
	fn field(&self, owner: &str, name: &str, desc: &str) -> Result<(String, String), String> {
		Ok(self.r.map_member(owner, name, desc, false, self.search))
	}
	fn method(&self, owner: &str, name: &str, desc: &str) -> Result<(String, String), String> {
		Ok(self.r.map_member(owner, name, desc, true, self.search))
	}
	fn field_ref(&self, owner: &str, name: &str, desc: &str) -> Result<(String, String, String), String> {
		let (n, d) = self.field(owner, name, desc)?;
		Ok((self.class(owner)?, n, d))
	}
	fn method_ref(&self, owner: &str, name: &str, desc: &str) -> Result<(String, String, String), String> {
		if owner.starts_with('[') {
			return Ok((self.class_any(owner)?, name.to_string(), desc.to_string()));
		}
		let (n, d) = self.method(owner, name, desc)?;
		Ok((self.class(owner)?, n, d))
	}
}

pub fn canon_blank(c: &CClass) -> CClass {
	let mut c = c.canon();
	blank_unasserted(&mut c);
	c
}

fn check(case: &Case, obs: &mut Obs) -> PropResult {
	let mut models = jar_models(&case.streams, 4, 30);
	realistic_signatures(&mut models, case.sigs);
	let mut class_bytes: Vec<(String, Vec<u8>)> = Vec::new();
	for m in &models {
		match encode(m, &case.ch) {
			Ok(e) => class_bytes.push((m.name.clone(), e.bytes)),
			Err(_) => obs.label("class_not_encodable"),
		}
	}
	check_jar(class_bytes, &models, &case.map_stream, case.input_form, obs)
}

/// a chain of `depth` classes deep/C0 <: deep/C1 <: ... (every third link through an interface); the top declares a field and
/// two methods, the bottom overrides one method and uses all three through its own name, so that the remapper has to walk
/// the whole chain (limits on the depth of the walk, recursion)
#[derive(Clone, Debug, Serialize, Deserialize)]
pub struct DeepCase {
	pub depth: u16,
	pub map_stream: Vec<u8>,
	pub input_form: u8,
}

fn deep_models(depth: usize) -> Vec<CClass> {
	let name = |k: usize| format!("deep/C{k}");
	let ret = || Attr::Code(Code { max_stack: 2, max_locals: 2, insns: vec![Insn::Simple(177)], ..Code::default() });
	let mut out = Vec::new();
	for k in 0..depth {
		let mut c = CClass { minor: 0, major: 52, access: 0x0021, name: name(k), super_class: Some("java/lang/Object".into()), ..CClass::default() };
		if k + 1 < depth {
			if k % 3 == 2 {
				c.interfaces.push(name(k + 1));
			} else {
				c.super_class = Some(name(k + 1));
			}
		}
		if (k + 1) % 3 == 0 && k > 0 {
			c.access = 0x0601; // reached through `implements`: an interface
		}
		if k + 1 == depth {
			c.fields.push(CMember { access: 0x0001, name: "top".into(), desc: "I".into(), attrs: vec![] });
			c.methods.push(CMember { access: 0x0001, name: "over".into(), desc: "()V".into(), attrs: if c.access & 0x0200 != 0 { vec![] } else { vec![ret()] } });
			c.methods.push(CMember { access: 0x0001, name: "inherited".into(), desc: "(Ldeep/C0;)V".into(), attrs: if c.access & 0x0200 != 0 { vec![] } else { vec![ret()] } });
			if c.access & 0x0200 != 0 {
				c.methods.iter_mut().for_each(|m| m.access = 0x0401);
				c.fields.iter_mut().for_each(|f| f.access = 0x0019);
			}
		}
		if k == 0 {
			let code = Code {
				max_stack: 2,
				max_locals: 1,
				insns: vec![
					Insn::Local { op: 25, index: 0 },
					Insn::Field { op: 180, owner: name(0), name: "top".into(), desc: "I".into() },
					Insn::Simple(87),
					Insn::Local { op: 25, index: 0 },
					Insn::Local { op: 25, index: 0 },
					Insn::Invoke { op: 182, owner: name(0), name: "inherited".into(), desc: "(Ldeep/C0;)V".into(), itf: false },
					Insn::Local { op: 25, index: 0 },
					Insn::Invoke { op: 182, owner: name(0), name: "over".into(), desc: "()V".into(), itf: false },
					Insn::Simple(177),
				],
				..Code::default()
			};
			c.methods.push(CMember { access: 0x0001, name: "over".into(), desc: "()V".into(), attrs: vec![ret()] });
			c.methods.push(CMember { access: 0x0001, name: "use".into(), desc: "()V".into(), attrs: vec![Attr::Code(code)] });
		}
		out.push(c);
	}
	out
}

fn deep_check(case: &DeepCase, obs: &mut Obs) -> PropResult {
	const DEPTHS: &[usize] = &[2, 5, 33, 63, 64, 65, 66, 67, 100, 129, 257, 400];
	let depth = DEPTHS[crate::engine::idx(case.depth, DEPTHS.len())];
	let models = deep_models(depth);
	let mut class_bytes = Vec::new();
	for m in &models {
		let e = encode(m, &Choices::default()).map_err(|e| format!("harness: {e:?}"))?;
		class_bytes.push((m.name.clone(), e.bytes));
	}
	obs.label(format!("depth={depth}"));
	check_jar(class_bytes, &models, &case.map_stream, case.input_form, obs)
}

#[derive(Clone, Debug, Serialize, Deserialize)]
pub struct CorpusCase {
	pub picks: Vec<u16>,
	pub map_stream: Vec<u8>,
	pub input_form: u8,
}

fn corpus_models() -> &'static Vec<(String, Vec<u8>, CClass)> {
	static C: std::sync::OnceLock<Vec<(String, Vec<u8>, CClass)>> = std::sync::OnceLock::new();
	C.get_or_init(|| {
		crate::corpus::load()
			.into_iter()
			// one compilation only (class names must be unique inside a jar); the big class is left to C01/C02
			.filter(|(n, b)| n.starts_with("r17g/") && b.len() < 20_000)
			.filter_map(|(n, b)| crate::classfile::decode::decode(&b).ok().map(|m| (n, b, m)))
			.collect()
	})
}

fn corpus_check(case: &CorpusCase, obs: &mut Obs) -> PropResult {
	let all = corpus_models();
	if all.is_empty() {
		return Ok(());
	}
	let mut seen = BTreeSet::new();
	let mut class_bytes = Vec::new();
	let mut models = Vec::new();
	for p in &case.picks {
		let (_, b, m) = &all[crate::engine::idx(*p, all.len())];
		if seen.insert(m.name.clone()) {
			class_bytes.push((m.name.clone(), b.clone()));
			models.push(m.clone());
		}
	}
	check_jar(class_bytes, &models, &case.map_stream, case.input_form, obs)
}

/// Jars whose classes carry methods of 30-65 KB: the geometry classes of C02 (jumps laid out around +-32767 that the writer
/// has to widen, which takes it a second attempt at the Code attribute) and the 83 KB class javac compiled for the corpus.
#[derive(Clone, Debug, Serialize, Deserialize)]
pub struct LargeCase {
	pub geo: crate::props::c02::GeoCase,
	/// 0 geometry class only, 1 with the corpus class, 2 corpus class only
	pub with: u8,
	pub map_stream: Vec<u8>,
	pub input_form: u8,
}

fn corpus_big() -> &'static Vec<(Vec<u8>, CClass)> {
	static C: std::sync::OnceLock<Vec<(Vec<u8>, CClass)>> = std::sync::OnceLock::new();
	C.get_or_init(|| crate::corpus::load().into_iter().filter(|(n, b)| n.starts_with("r17g/") && b.len() >= 20_000).filter_map(|(_, b)| crate::classfile::decode::decode(&b).ok().map(|m| (b, m))).collect())
}

fn large_check(case: &LargeCase, obs: &mut Obs) -> PropResult {
	let mut class_bytes = Vec::new();
	let mut models = Vec::new();
	if case.with != 2 {
		for bump in 0..64u8 {
			let (model, ch) = crate::props::c02::geo_model(&case.geo, bump);
			match encode(&model, &ch) {
				Ok(e) => {
					class_bytes.push((model.name.clone(), e.bytes));
					models.push(model);
					break;
				}
				Err(crate::classfile::encode::EncodeError::BranchTooFar { .. }) | Err(crate::classfile::encode::EncodeError::CodeTooLarge(_)) => continue,
				Err(e) => return Err(format!("harness: encoder failed: {e:?}")),
			}
		}
	}
	if case.with != 0 || class_bytes.is_empty() {
		for (b, m) in corpus_big() {
			if !models.iter().any(|x: &CClass| x.name == m.name) {
				class_bytes.push((m.name.clone(), b.clone()));
				models.push(m.clone());
			}
		}
	}
	obs.label(format!("geometry_class={},corpus_class={}", case.with != 2 && models.iter().any(|m| m.methods.iter().any(|x| x.name == "geo")), models.len() > 1 || case.with == 2));
	obs.label(format!("template{}", case.geo.template));
	// a method whose worst-case encoding (every ldc as ldc_w, every jump widened) exceeds 65535 bytes may be refused by the
	// writer (C02 decides where exactly); those jars are left out here
	let fits = models.iter().all(|m| m.methods.iter().all(|x| x.attrs.iter().all(|a| if let Attr::Code(c) = a { crate::props::c02::worst_case_size(c) <= 65535 } else { true })));
	obs.nontrivial_if(true);
	match check_jar(class_bytes, &models, &case.map_stream, case.input_form, obs) {
		Err(e) if !fits && e.starts_with("writing the jar failed") => {
			obs.label("method_may_not_fit:writer_refused(left_to_C02)");
			Ok(())
		}
		other => {
			obs.label_if(!fits, "method_may_not_fit:written");
			other
		}
	}
}

fn check_jar(class_bytes: Vec<(String, Vec<u8>)>, models: &[CClass], map_stream: &[u8], input_form: u8, obs: &mut Obs) -> PropResult {
	struct CaseView<'a> {
		map_stream: &'a [u8],
		input_form: u8,
	}
	let case = CaseView { map_stream, input_form };
	let mut entries: Vec<(String, Entry)> = vec![("META-INF/MANIFEST.MF".into(), Entry::Other(b"Manifest-Version: 1.0\r\n".to_vec())), ("pkg/".into(), Entry::Dir)];
	for (n, b) in &class_bytes {
		entries.push((format!("{n}.class"), Entry::Class(b.clone())));
	}
	entries.push(("assets/data.bin".into(), Entry::Other(case.map_stream.to_vec())));
	entries.push(("a/B.txt".into(), Entry::Other(b"a/B C pkg/Outer$Inner".to_vec())));
	if class_bytes.is_empty() {
		return Ok(());
	}
	// what duke reads is the input (C01 is about reading)
	let mut inputs: BTreeMap<String, CClass> = BTreeMap::new();
	for (n, b) in &class_bytes {
		let tree = duke::read_class(&mut std::io::Cursor::new(b)).map_err(|e| format!("duke::read_class rejected a well-formed class file: {e:#}"))?;
		inputs.insert(n.clone(), project(&tree).map_err(|e| format!("harness: {e}"))?);
	}
	let kept_models: Vec<CClass> = models.iter().filter(|m| inputs.contains_key(&m.name)).cloned().collect();
	let set = mappings_for(&kept_models, case.map_stream);
	let q = to_quill::<2, Ns>(&set, 0).map_err(|e| format!("harness: mapping set not expressible: {e:#}"))?;

	let jar = build_jar(&entries, case.input_form == 1)?;
	let provider = jar.get_super_classes_provider().map_err(|e| format!("get_super_classes_provider failed: {e:#}"))?;
	let remapper = q.remapper_b_first_to_second(&provider).map_err(|e| format!("remapper_b failed: {e:#}"))?;
	let answers = RemapperAnswers(&remapper);

	let result = if case.input_form == 2 {
		let mem = jar.to_mem().map_err(|e| format!("harness: writing the input jar failed: {e:#}"))?;
		dukebox::remap::remap(mem, ByRef(&remapper))
	} else {
		dukebox::remap::remap(jar, ByRef(&remapper))
	}
	.map_err(|e| format!("dukebox::remap::remap failed: {e:#}"))?;
	// second use of the same remapper on an equal jar: the same entries and the same classes
	if case.map_stream.len() % 4 == 1 {
		let jar2 = build_jar(&entries, case.input_form == 1)?;
		let again = dukebox::remap::remap(jar2, ByRef(&remapper)).map_err(|e| format!("the second remap with the same remapper failed: {e:#}"))?;
		if again.entries.keys().collect::<Vec<_>>() != result.entries.keys().collect::<Vec<_>>() {
			return Err(format!("remapping an equal jar a second time with the same remapper gives other entries: {:?} vs {:?}", result.entries.keys().collect::<Vec<_>>(), again.entries.keys().collect::<Vec<_>>()));
		}
		for ((name, a), (_, b)) in result.entries.iter().zip(again.entries.iter()) {
			if let (JarEntryEnum::Class(ClassRepr::Parsed { class: ca }), JarEntryEnum::Class(ClassRepr::Parsed { class: cb })) = (&a.content, &b.content) {
				let (pa, pb) = (project(ca).map_err(|e| format!("harness: {e}"))?, project(cb).map_err(|e| format!("harness: {e}"))?);
				if pa != pb {
					return Err(format!("remapping an equal jar a second time with the same remapper gives another class {name}: {}", first_diff(&pa, &pb)));
				}
			}
		}
		obs.label("remapped_twice_with_one_remapper");
	}

	// expectations
	let open_gaps = Gaps { enum_const_unmapped: obs.is_open("C07-annotation-enum-const"), dynamic_desc_unmapped: obs.is_open("C07-dynamic-descriptor") };
	let mut expected_entries: Vec<(String, Entry)> = Vec::new();
	let mut expected_classes: BTreeMap<String, (CClass, CClass, String)> = BTreeMap::new();
	let mut changed_kinds: BTreeMap<&'static str, u64> = BTreeMap::new();
	for (name, e) in &entries {
		match e {
			Entry::Class(_) => {
				let cn = name.strip_suffix(".class").unwrap_or(name);
				let input = &inputs[cn];
				let mut strict = Renamer::new(&answers, Gaps::default());
				let exp_strict = strict.class_model(input).map_err(|e| format!("harness: reference renamer: {e}"))?;
				for (k, v) in strict.changed {
					*changed_kinds.entry(k).or_insert(0) += v;
				}
				let exp_gapped = Renamer::new(&answers, open_gaps).class_model(input).map_err(|e| format!("harness: reference renamer: {e}"))?;
				let new_name = format!("{}.class", exp_strict.name);
				expected_classes.insert(new_name.clone(), (exp_strict, exp_gapped, cn.to_string()));
				expected_entries.push((new_name, Entry::Class(Vec::new())));
			}
			other => expected_entries.push((name.clone(), other.clone())),
		}
	}

	// (0) the remapper's own answers against an independent reference remapper over the same mappings and the jar's
	// inheritance (super class first, then the interfaces in declaration order): every renamed position must agree.
	// Where depth-first and nearest-first search disagree (C06 accepts either) both are tried.
	{
		use crate::mapmodel::refops::{Inheritance, RefRemapper, Search};
		let inh: Inheritance = inputs.values().map(|m| (m.name.clone(), m.super_class.iter().chain(m.interfaces.iter()).cloned().collect())).collect();
		let mut agree = false;
		let mut why = String::new();
		for search in [Search::Dfs, Search::Bfs] {
			let ra = RefAnswers { r: RefRemapper::new(&set, 0, 1, &inh), search };
			let mut all = true;
			for (exp_strict, _, old) in expected_classes.values() {
				let by_ref = Renamer::new(&ra, Gaps::default()).class_model(&inputs[old]).map_err(|e| format!("harness: reference remapper: {e}"))?;
				if by_ref != *exp_strict {
					all = false;
					if why.is_empty() {
						why = format!("class {old}: (reference remapper vs quill's remapper) {}", first_diff(&by_ref, exp_strict));
					}
					break;
				}
			}
			if all {
				agree = true;
				break;
			}
		}
		if !agree {
			return Err(format!("the remapper's answers for the jar deviate from the mappings: {why}\nmappings = {set:?}"));
		}
	}

	// (1) the in-memory result
	let got_names: Vec<&String> = result.entries.keys().collect();
	let want_names: Vec<&String> = expected_entries.iter().map(|(n, _)| n).collect();
	if got_names != want_names {
		return Err(format!("entry names after remapping are {got_names:?}, expected {want_names:?}"));
	}
	let mut masked_gap = false;
	let mut compare = |what: &str, name: &str, got: &CClass, obs: &mut Obs| -> PropResult {
		let (strict, gapped, old) = &expected_classes[name];
		check_signatures(what, old, &inputs[old], got, &answers, obs)?;
		let got = canon_blank(got);
		let mut want = canon_blank(strict);
		if got != want && canon_blank(gapped) == got && *gapped != *strict {
			// exactly the deviation of an open finding
			let g1 = Renamer::new(&answers, Gaps { enum_const_unmapped: open_gaps.enum_const_unmapped, ..Gaps::default() }).class_model(&inputs[old]).map_err(|e| e.to_string())?;
			if g1 != *strict {
				obs.known("C07-annotation-enum-const");
			}
			let g2 = Renamer::new(&answers, Gaps { dynamic_desc_unmapped: open_gaps.dynamic_desc_unmapped, ..Gaps::default() }).class_model(&inputs[old]).map_err(|e| e.to_string())?;
			if g2 != *strict {
				obs.known("C07-dynamic-descriptor");
			}
			masked_gap = true;
			return Ok(());
		}
		if open_gaps != Gaps::default() {
			want = canon_blank(gapped);
		}
		// attributes the remapping drops (open findings)
		let drop_if = |want: &mut CClass, got: &CClass, id: &str, pred: &dyn Fn(&Attr) -> bool, obs: &mut Obs| {
			if want.attrs.iter().any(pred) && !got.attrs.iter().any(pred) && obs.known(id) {
				want.attrs.retain(|a| !pred(a));
			}
		};
		drop_if(&mut want, &got, "C07-record-components-dropped", &|a| matches!(a, Attr::Record(_)), obs);
		drop_if(&mut want, &got, "C07-module-dropped", &|a| matches!(a, Attr::Module(_) | Attr::ModulePackages(_) | Attr::ModuleMainClass(_)), obs);
		if got != want && want.methods.len() == got.methods.len() {
			// a jump that no longer fits 16 bits may come back as goto_w / jsr_w or as an inverted `if` over a goto_w (C02's
			// alignment: every target, range and table entry is compared through the instruction correspondence)
			for (mw, mg) in want.methods.iter_mut().zip(got.methods.iter()) {
				let cg = mg.attrs.iter().find_map(|a| if let Attr::Code(c) = a { Some(c) } else { None });
				let cw = mw.attrs.iter_mut().find_map(|a| if let Attr::Code(c) = a { Some(c) } else { None });
				if let (Some(cw), Some(cg)) = (cw, cg) {
					if cw.insns.len() != cg.insns.len() {
						if let Ok((aligned, _)) = crate::props::c02::align_code(cw, cg) {
							*cw = aligned;
						}
					}
				}
			}
		}
		if got != want {
			return Err(format!("{what}: class {old} (now {name}) is not the renamed input: (reference renaming vs result) {}", first_diff(&want, &got)));
		}
		Ok(())
	};
	for (name, entry) in &result.entries {
		if let JarEntryEnum::Class(c) = &entry.content {
			let tree = match c {
				ClassRepr::Parsed { class } => class.clone(),
				ClassRepr::Vec { data } => duke::read_class(&mut std::io::Cursor::new(data)).map_err(|e| format!("{e:#}"))?,
			};
			let got = project(&tree).map_err(|e| format!("harness: remapped tree cannot be projected: {e}"))?;
			compare("remapped tree", name, &got, obs)?;
		}
	}

	// (2) through the zip layer: names, non-class content, well-formed classes denoting the renamed input
	let written = reopen(result)?;
	if written.len() != expected_entries.len() {
		return Err(format!("the written jar has {} entries, expected {}: {:?}", written.len(), expected_entries.len(), written.iter().map(|x| &x.0).collect::<Vec<_>>()));
	}
	for ((gn, ge), (wn, we)) in written.iter().zip(expected_entries.iter()) {
		if gn != wn {
			return Err(format!("the written jar has entry {gn:?} where {wn:?} is expected"));
		}
		match (ge, we) {
			(Entry::Class(bytes), Entry::Class(_)) => {
				let old = &expected_classes[gn].2;
				if let Err(e) = crate::classfile::decode::decode(bytes) {
					return Err(format!("class {old} (now {gn}) of the written jar is not structurally valid: {e}"));
				}
				let tree = duke::read_class(&mut std::io::Cursor::new(bytes)).map_err(|e| format!("class {gn} of the written jar cannot be read back: {e:#}"))?;
				let got = project(&tree).map_err(|e| format!("harness: {e}"))?;
				// the frames are lost by the writer (C02 finding); everything else must survive
				let mut got2 = got.clone();
				let (strict, _, _) = &expected_classes[gn];
				let has_frames = strict.codes().any(|c| c.attrs.iter().any(|a| matches!(a, Attr::StackMapTable(f) if !f.is_empty())));
				let got_frames = got2.codes().any(|c| c.attrs.iter().any(|a| matches!(a, Attr::StackMapTable(_))));
				if has_frames && !got_frames && obs.known("C07-stackmap-not-written") {
					// put the expected frames back so that only they are excused
					for (mg, ms) in got2.methods.iter_mut().zip(strict.methods.iter()) {
						let frames: Vec<Attr> = ms.attrs.iter().filter_map(|a| if let Attr::Code(c) = a { Some(c.attrs.iter().filter(|x| matches!(x, Attr::StackMapTable(_))).cloned().collect::<Vec<_>>()) } else { None }).flatten().collect();
						for a in mg.attrs.iter_mut() {
							if let Attr::Code(c) = a {
								c.attrs.extend(frames.iter().cloned());
							}
						}
					}
				}
				compare("written jar", gn, &got2, obs)?;
			}
			(a, b) if a == b => {}
			_ => return Err(format!("entry {gn:?} of the written jar differs from the input entry (non-class entries must be unchanged)")),
		}
	}

	for (k, v) in &changed_kinds {
		if *v > 0 {
			obs.label(format!("renamed:{k}"));
		}
	}
	obs.label(format!("input_form={}", ["bytes", "parsed", "zip"][case.input_form as usize % 3]));
	obs.label(format!("classes={}", class_bytes.len()));
	obs.label_if(masked_gap, "masked_by_gap_finding");
	let cross_ref = changed_kinds.iter().any(|(k, v)| *v > 0 && (k.starts_with("insn.") || k.starts_with("handle.")));
	let member_renamed = changed_kinds.iter().any(|(k, v)| *v > 0 && k.ends_with(".name"));
	obs.nontrivial_if(cross_ref && member_renamed);
	Ok(())
}

pub fn run(ctx: &mut Ctx) {
	crate::engine::silence_stderr();
	ctx.rule = "jars of 1-4 generated classes (distinct names, acyclic inheritance among them and to classes outside the jar) + manifest, directory and resource entries, handed over as bytes / parsed trees / a zip archive; mapping sets generated over the names the classes use (65% of the class names, 60% of the members renamed; members declared in the owner or in a super type so that the remapper has to resolve through the jar's inheritance). Oracle: a reference renamer (positions from JVMS) applies the remapper's own answers to the model of each input class; the remapped tree and the class re-read from the written jar must equal it; entry names = remapped class name + .class; non-class entries byte-identical; every class passes the strict decoder. Non-trivial = a renamed reference inside code or a handle and a renamed member name; distinct by case hash".into();
	ctx.assume("generic signatures, simple inner names, annotation element names, local variable / parameter names and invokedynamic / condy names are not compared (the remapper gives no answer for them)");
	ctx.assume("unknown attributes are opaque bytes (as for duke's reader and writer): they must come out byte-identical at the same place");
	ctx.assume("inheritance among the classes of a jar is acyclic");
	ctx.run_sub("remap_jar", ctx.tier.pick(24000, 600000), strategy, check);
	ctx.run_sub(
		"deep_hierarchy",
		ctx.tier.pick(800, 8_000),
		|| (any::<u16>(), proptest::collection::vec(any::<u8>(), 4..40), 0u8..3).prop_map(|(depth, map_stream, input_form)| DeepCase { depth, map_stream, input_form }),
		deep_check,
	);
	ctx.run_sub(
		"large_methods",
		ctx.tier.pick(320, 6_000),
		|| (crate::props::c02::geo_strategy(), prop_oneof![3 => Just(0u8), 1 => Just(1u8), 1 => Just(2u8)], proptest::collection::vec(any::<u8>(), 4..60), 0u8..3).prop_map(|(geo, with, map_stream, input_form)| LargeCase { geo, with, map_stream, input_form }),
		large_check,
	);
	ctx.run_sub(
		"corpus_javac",
		ctx.tier.pick(4000, 60_000),
		|| (proptest::collection::vec(any::<u16>(), 1..6), proptest::collection::vec(any::<u8>(), 0..160), 0u8..3).prop_map(|(picks, map_stream, input_form)| CorpusCase { picks, map_stream, input_form }),
		corpus_check,
	);
}
