//! C09 — merging two mapping sets is a faithful join on the shared namespace.

use crate::engine::{Ctx, Obs, PropResult};
use crate::mapmodel::conv::{from_quill, to_quill};
use crate::mapmodel::gen::{draws, edit, mapset, order_seed, GenCfg, TargetStyle};
use crate::mapmodel::refops;
use crate::mapmodel::MapSet;
use proptest::prelude::*;
use quill::tree::mappings::Mappings;
use serde::{Deserialize, Serialize};

struct S;
struct A;
struct B;

#[derive(Clone, Debug, Serialize, Deserialize)]
pub struct Case {
	pub a: MapSet,
	pub b: MapSet,
	pub order: u64,
}

fn strategy(conflicts: bool) -> impl Strategy<Value = Case> {
	let cfg = GenCfg { ns_min: 2, ns_max: 2, p_missing: 15, style: TargetStyle::Arbitrary, max_classes: 5, backslash_docs: true, lone_surrogates: true, ..GenCfg::default() };
	(mapset(cfg), draws(), draws(), any::<u8>(), order_seed()).prop_map(move |(base, s1, s2, mode, order)| {
		let mut a = edit(&base, 1, &s1);
		let mut b = edit(&base, 1, &s2);
		b.ns[1] = "named".into();
		if !conflicts {
			// comments: never two different ones on the same entry, parameter source names agree
			let a0 = a.clone();
			for (ck, c) in b.classes.iter_mut() {
				let ac = a0.classes.get(ck);
				if let (Some(x), Some(y)) = (&c.doc, ac.and_then(|c| c.doc.as_ref())) {
					if x != y {
						c.doc = None;
					}
				}
				for (fk, f) in c.fields.iter_mut() {
					if let (Some(x), Some(y)) = (&f.doc, ac.and_then(|c| c.fields.get(fk)).and_then(|f| f.doc.as_ref())) {
						if x != y {
							f.doc = None;
						}
					}
				}
				for (mk, me) in c.methods.iter_mut() {
					let am = ac.and_then(|c| c.methods.get(mk));
					if let (Some(x), Some(y)) = (&me.doc, am.and_then(|f| f.doc.as_ref())) {
						if x != y {
							me.doc = None;
						}
					}
					for (pk, p) in me.params.iter_mut() {
						if let Some(ap) = am.and_then(|m| m.params.get(pk)) {
							p.names[0] = ap.names[0].clone();
							if let (Some(x), Some(y)) = (&p.doc, &ap.doc) {
								if x != y {
									p.doc = None;
								}
							}
						}
					}
				}
			}
		}
		if mode % 16 == 0 {
			// differing first namespaces: a fresh name on either side, or the first namespace of one side being the
			// *second* namespace of the other (both sets stay well-formed; a lookup by name instead of by position finds it)
			match (mode >> 4) % 4 {
				0 => a.ns[0] = "other".into(),
				1 => b.ns[0] = a.ns[1].clone(),
				2 => a.ns[0] = b.ns[1].clone(),
				_ => b.ns[0] = "other".into(),
			}
		}
		Case { a, b, order }
	})
}

fn check(case: &Case, obs: &mut Obs) -> PropResult {
	let qa: Mappings<2, (S, A)> = to_quill(&case.a, case.order).map_err(|e| format!("harness: {e:#}"))?;
	let qb: Mappings<2, (S, B)> = to_quill(&case.b, case.order.rotate_left(9)).map_err(|e| format!("harness: {e:#}"))?;
	let mut qa = qa;
	let mut qb = qb;
	// the comment of the set itself (the plain model has no slot for it): neither / one side / both equal / both different,
	// chosen from the order seed
	let top = |sel: u64| match sel % 3 {
		0 => None,
		1 => Some(quill::tree::mappings::JavadocMapping("about this set".to_string())),
		_ => Some(quill::tree::mappings::JavadocMapping("another\ncomment".to_string())),
	};
	let (ta, tb) = (top(case.order >> 3), top(case.order >> 7));
	qa.javadoc = ta.clone();
	qb.javadoc = tb.clone();
	let top_conflict = matches!((&ta, &tb), (Some(x), Some(y)) if x != y);
	let top_expected = ta.clone().or(tb.clone());
	let mut expected = refops::merge(&case.a, &case.b);
	if top_conflict && expected.is_ok() {
		expected = Err("the two sets carry different comments".to_string());
	}
	obs.label(match (&ta, &tb) {
		(None, None) => "set_comment:neither",
		(Some(_), None) | (None, Some(_)) => "set_comment:one_side",
		(Some(x), Some(y)) if x == y => "set_comment:both_equal",
		_ => "set_comment:both_different",
	});
	let got = Mappings::<2, (S, A, B)>::merge(&qa, &qb);
	if let Ok(r) = &got {
		if expected.is_ok() && r.javadoc != top_expected {
			return Err(format!("the comment of the merged set is {:?}, expected {:?} (left {:?}, right {:?})", r.javadoc, top_expected, ta, tb));
		}
	}
	// the plain model has no slot for the set's comment: checked above, dropped for the comparison below
	let got = got.map(|mut r| {
		r.javadoc = None;
		r
	});
	match (&expected, got) {
		(Err(why), Ok(r)) => {
			let r = from_quill(&r).map(|m| format!("{m:?}")).unwrap_or_else(|e| format!("<inconsistent: {e:#}>"));
			Err(format!("merge must report a conflict ({why}) but returned {r}\nA = {:?}\nB = {:?}", case.a, case.b))
		}
		(Err(_), Err(_)) => {
			obs.label("conflict_reported");
			Ok(())
		}
		(Ok(_), Err(e)) => Err(format!("merge failed without a conflict: {e:#}\nA = {:?}\nB = {:?}", case.a, case.b)),
		(Ok(exp), Ok(r)) => {
			let got = from_quill(&r).map_err(|e| format!("merge result inconsistent: {e:#}"))?;
			if &got != exp {
				return Err(format!("merge differs from the join\nA = {:?}\nB = {:?}\nexpected = {exp:?}\ngot      = {got:?}", case.a, case.b));
			}
			// projection law, independent of the reference merge: names, keys and A's comments come back
			let pa = refops::project(&got, 1, &case.a);
			if pa != case.a {
				return Err(format!("projection of the merge onto (s,a) is not A\nA = {:?}\nprojection = {pa:?}", case.a));
			}
			let pb = refops::project(&got, 2, &case.b);
			if pb != case.b {
				return Err(format!("projection of the merge onto (s,b) is not B\nB = {:?}\nprojection = {pb:?}", case.b));
			}
			// key union exactly
			for (ck, c) in &got.classes {
				let (ca, cb) = (case.a.classes.get(ck), case.b.classes.get(ck));
				if ca.is_none() && cb.is_none() {
					return Err(format!("merge invented class {ck}"));
				}
				for fk in c.fields.keys() {
					if !ca.is_some_and(|c| c.fields.contains_key(fk)) && !cb.is_some_and(|c| c.fields.contains_key(fk)) {
						return Err(format!("merge invented field {fk:?} in {ck}"));
					}
				}
			}
			let levels = level_mix(&case.a, &case.b);
			obs.label_if(levels >= 1, "one_sided_and_shared_at_1_level");
			obs.label_if(levels >= 2, "one_sided_and_shared_at_2_levels");
			obs.label("merged");
			obs.nontrivial_if(levels >= 2);
			Ok(())
		}
	}
}

/// number of levels (class, field, method, param) that have both one-sided and shared keys
fn level_mix(a: &MapSet, b: &MapSet) -> usize {
	let mut mix = [(false, false); 4];
	let mut see = |lvl: usize, in_a: bool, in_b: bool| {
		if in_a && in_b {
			mix[lvl].0 = true;
		} else {
			mix[lvl].1 = true;
		}
	};
	let keys: std::collections::BTreeSet<&String> = a.classes.keys().chain(b.classes.keys()).collect();
	for ck in keys {
		let (ca, cb) = (a.classes.get(ck), b.classes.get(ck));
		see(0, ca.is_some(), cb.is_some());
		if let (Some(ca), Some(cb)) = (ca, cb) {
			for fk in ca.fields.keys().chain(cb.fields.keys()) {
				see(1, ca.fields.contains_key(fk), cb.fields.contains_key(fk));
			}
			for mk in ca.methods.keys().chain(cb.methods.keys()) {
				see(2, ca.methods.contains_key(mk), cb.methods.contains_key(mk));
				if let (Some(ma), Some(mb)) = (ca.methods.get(mk), cb.methods.get(mk)) {
					for pk in ma.params.keys().chain(mb.params.keys()) {
						see(3, ma.params.contains_key(pk), mb.params.contains_key(pk));
					}
				}
			}
		}
	}
	mix.iter().filter(|(s, o)| *s && *o).count()
}

pub fn run(ctx: &mut Ctx) {
	ctx.rule = "pairs of two-namespace sets (s,a),(s,b) derived from a common base by independent edit scripts (independent sub-sampling at every level, comments on neither/one/both sides equal or different, parameter source names equal or different, occasionally different first namespace) compared with a reference join plus the projection law; non-trivial = one-sided and shared entries at >=2 levels; distinct by hash of the serialised case".into();
	ctx.run_sub("merge_compatible", ctx.tier.pick(128000, 1500000), || strategy(false), check);
	ctx.run_sub("merge_with_conflicts", ctx.tier.pick(96000, 1000000), || strategy(true), check);
}
