//! C18 — descriptor and name types accept and print exactly the JVMS grammar they claim.
//!
//! Bounded-exhaustive enumeration of all strings over the descriptor alphabet / the name alphabet
//! up to a length bound, plus proptest-generated long grammar members and their single-edit
//! neighbours.  Oracle: an independent recursive-descent recogniser of JVMS §4.2 / §4.3 returning
//! the type structure.

use crate::engine::{fnv64, Ctx, Obs, PropResult};
use duke::tree::class::{ArrClassName, ClassName, ObjClassName, ObjClassNameSlice};
use duke::tree::descriptor::{ArrayType, ParsedFieldDescriptor, ParsedMethodDescriptor, ParsedReturnDescriptor, ReturnDescriptorSlice, Type};
use duke::tree::field::{FieldDescriptorSlice, FieldName};
use duke::tree::method::code::LocalVariableName;
use duke::tree::method::{MethodDescriptorSlice, MethodName, ParameterName};
use java_string::{JavaStr, JavaString};
use proptest::prelude::*;
use serde::{Deserialize, Serialize};
use serde_json::json;
use std::collections::BTreeMap;

// ---------------------------------------------------------------------------------------------
// reference recogniser (JVMS §4.3.2, §4.3.3, §4.2.1, §4.2.2)

#[derive(Clone, Debug, PartialEq, Eq, Serialize, Deserialize)]
pub enum RType {
	Prim(char),
	Obj(String),
	/// dimensions (1..=255), element (Prim or Obj)
	Arr(u16, Box<RType>),
}

pub fn ref_unqualified(s: &str) -> bool {
	!s.is_empty() && !s.chars().any(|c| matches!(c, '.' | ';' | '[' | '/'))
}

pub fn ref_obj_class_name(s: &str) -> bool {
	!s.is_empty() && s.split('/').all(ref_unqualified)
}

pub fn ref_method_name(s: &str) -> bool {
	s == "<init>" || s == "<clinit>" || (ref_unqualified(s) && !s.chars().any(|c| matches!(c, '<' | '>')))
}

/// parses one FieldType at the start of `s`; returns the type and the rest
fn ref_field_type(s: &str) -> Option<(RType, &str)> {
	let dims = s.chars().take_while(|c| *c == '[').count();
	if dims > 255 {
		return None;
	}
	let rest = &s[dims..];
	let c = rest.chars().next()?;
	let (base, rest) = match c {
		'B' | 'C' | 'D' | 'F' | 'I' | 'J' | 'S' | 'Z' => (RType::Prim(c), &rest[1..]),
		'L' => {
			let end = rest.find(';')?;
			let name = &rest[1..end];
			if !ref_obj_class_name(name) {
				return None;
			}
			(RType::Obj(name.to_string()), &rest[end + 1..])
		}
		_ => return None,
	};
	Some((if dims == 0 { base } else { RType::Arr(dims as u16, Box::new(base)) }, rest))
}

pub fn ref_field_descriptor(s: &str) -> Option<RType> {
	match ref_field_type(s) {
		Some((t, "")) => Some(t),
		_ => None,
	}
}

pub fn ref_return_descriptor(s: &str) -> Option<Option<RType>> {
	if s == "V" {
		Some(None)
	} else {
		ref_field_descriptor(s).map(Some)
	}
}

pub fn ref_method_descriptor(s: &str) -> Option<(Vec<RType>, Option<RType>)> {
	let mut rest = s.strip_prefix('(')?;
	let mut params = Vec::new();
	loop {
		if let Some(r) = rest.strip_prefix(')') {
			return Some((params, ref_return_descriptor(r)?));
		}
		let (t, r) = ref_field_type(rest)?;
		params.push(t);
		rest = r;
	}
}

pub fn ref_arr_class_name(s: &str) -> bool {
	matches!(ref_field_descriptor(s), Some(RType::Arr(..)))
}

pub fn ref_class_name(s: &str) -> bool {
	ref_arr_class_name(s) || ref_obj_class_name(s)
}

// ---------------------------------------------------------------------------------------------
// conversions between duke's structure and the reference structure

fn from_duke(t: &Type) -> RType {
	let prim = |c| RType::Prim(c);
	match t {
		Type::B => prim('B'),
		Type::C => prim('C'),
		Type::D => prim('D'),
		Type::F => prim('F'),
		Type::I => prim('I'),
		Type::J => prim('J'),
		Type::S => prim('S'),
		Type::Z => prim('Z'),
		Type::Object(n) => RType::Obj(n.as_inner().to_string()),
		Type::Array(d, a) => RType::Arr(
			*d as u16,
			Box::new(match a {
				ArrayType::B => prim('B'),
				ArrayType::C => prim('C'),
				ArrayType::D => prim('D'),
				ArrayType::F => prim('F'),
				ArrayType::I => prim('I'),
				ArrayType::J => prim('J'),
				ArrayType::S => prim('S'),
				ArrayType::Z => prim('Z'),
				ArrayType::Object(n) => RType::Obj(n.as_inner().to_string()),
			}),
		),
	}
}

fn to_duke(t: &RType) -> Option<Type> {
	Some(match t {
		RType::Prim(c) => match c {
			'B' => Type::B,
			'C' => Type::C,
			'D' => Type::D,
			'F' => Type::F,
			'I' => Type::I,
			'J' => Type::J,
			'S' => Type::S,
			_ => Type::Z,
		},
		RType::Obj(n) => Type::Object(ObjClassName::try_from(JavaString::from(n.as_str())).ok()?),
		RType::Arr(d, e) => Type::Array(
			u8::try_from(*d).ok()?,
			match &**e {
				RType::Prim(c) => match c {
					'B' => ArrayType::B,
					'C' => ArrayType::C,
					'D' => ArrayType::D,
					'F' => ArrayType::F,
					'I' => ArrayType::I,
					'J' => ArrayType::J,
					'S' => ArrayType::S,
					_ => ArrayType::Z,
				},
				RType::Obj(n) => ArrayType::Object(ClassName::try_from(JavaString::from(n.as_str())).ok()?),
				RType::Arr(..) => return None,
			},
		),
	})
}

fn render(t: &RType, out: &mut String) {
	match t {
		RType::Prim(c) => out.push(*c),
		RType::Obj(n) => {
			out.push('L');
			out.push_str(n);
			out.push(';');
		}
		RType::Arr(d, e) => {
			for _ in 0..*d {
				out.push('[');
			}
			render(e, out);
		}
	}
}

// ---------------------------------------------------------------------------------------------
// the checks on one string

/// Which findings does a deviation on string `s` belong to? (exact signature of the known
/// deviations: the reference rejects only because of the class name inside some `L...;`)
fn only_l_content_wrong(s: &str) -> bool {
	// replace the content of every L...; by a valid name and ask the reference again
	let mut out = String::new();
	let mut rest = s;
	loop {
		let dims_and_prims: String = rest.chars().take_while(|c| *c != 'L').collect();
		out.push_str(&dims_and_prims);
		rest = &rest[dims_and_prims.len()..];
		if rest.is_empty() {
			break;
		}
		// at an 'L'
		match rest.find(';') {
			Some(end) => {
				out.push_str("Lx;");
				rest = &rest[end + 1..];
			}
			None => {
				out.push_str(rest);
				break;
			}
		}
	}
	out != s && (ref_field_descriptor(&out).is_some() || ref_method_descriptor(&out).is_some() || ref_return_descriptor(&out).is_some())
}

pub fn check_field(s: &str, obs: &mut Obs) -> PropResult {
	let js = JavaStr::from_str(s);
	// SAFETY of the harness: from_inner_unchecked performs no check; parse() is the function under test
	let slice = unsafe { FieldDescriptorSlice::from_inner_unchecked(js) };
	let expect = ref_field_descriptor(s);
	match (slice.parse(), &expect) {
		(Ok(p), Some(e)) => {
			if &from_duke(&p.0) != e {
				return Err(format!("field descriptor {s:?} parsed as {:?}, the grammar gives {e:?}", p.0));
			}
			let w = p.write();
			if w.as_inner() != js {
				return Err(format!("field descriptor {s:?} is printed as {:?}", w.as_inner()));
			}
			obs.label("field:member");
		}
		(Err(_), None) => obs.label("field:rejected"),
		(Ok(p), None) => {
			if only_l_content_wrong(s) && obs.known("C18-class-name-in-descriptor-unchecked") {
				return Ok(());
			}
			return Err(format!("field descriptor parser accepts {s:?} (as {:?}), which is outside the grammar", p.0));
		}
		(Err(e), Some(_)) => return Err(format!("field descriptor parser rejects the valid descriptor {s:?}: {e:#}")),
	}
	Ok(())
}

pub fn check_return(s: &str, obs: &mut Obs) -> PropResult {
	let js = JavaStr::from_str(s);
	let slice = unsafe { ReturnDescriptorSlice::from_inner_unchecked(js) };
	let expect = ref_return_descriptor(s);
	match (slice.parse(), &expect) {
		(Ok(p), Some(e)) => {
			if &p.0.as_ref().map(from_duke) != e {
				return Err(format!("return descriptor {s:?} parsed as {:?}, the grammar gives {e:?}", p.0));
			}
			let w = p.write();
			if w.as_inner() != js {
				return Err(format!("return descriptor {s:?} is printed as {:?}", w.as_inner()));
			}
			obs.label("return:member");
		}
		(Err(_), None) => obs.label("return:rejected"),
		(Ok(p), None) => {
			if only_l_content_wrong(s) && obs.known("C18-class-name-in-descriptor-unchecked") {
				return Ok(());
			}
			return Err(format!("return descriptor parser accepts {s:?} (as {:?}), which is outside the grammar", p.0));
		}
		(Err(e), Some(_)) => return Err(format!("return descriptor parser rejects the valid descriptor {s:?}: {e:#}")),
	}
	Ok(())
}

pub fn check_method(s: &str, obs: &mut Obs) -> PropResult {
	let js = JavaStr::from_str(s);
	let slice = unsafe { MethodDescriptorSlice::from_inner_unchecked(js) };
	let expect = ref_method_descriptor(s);
	match (slice.parse(), &expect) {
		(Ok(p), Some((ep, er))) => {
			let gp: Vec<RType> = p.parameter_descriptors.iter().map(from_duke).collect();
			let gr = p.return_descriptor.as_ref().map(from_duke);
			if &gp != ep || &gr != er {
				return Err(format!("method descriptor {s:?} parsed as {:?} -> {:?}, the grammar gives {ep:?} -> {er:?}", p.parameter_descriptors, p.return_descriptor));
			}
			let w = p.write();
			if w.as_inner() != js {
				return Err(format!("method descriptor {s:?} is printed as {:?}", w.as_inner()));
			}
			obs.label("method:member");
		}
		(Err(_), None) => obs.label("method:rejected"),
		(Ok(p), None) => {
			if only_l_content_wrong(s) && obs.known("C18-class-name-in-descriptor-unchecked") {
				return Ok(());
			}
			return Err(format!("method descriptor parser accepts {s:?} (as {:?} -> {:?}), which is outside the grammar", p.parameter_descriptors, p.return_descriptor));
		}
		(Err(e), Some(_)) => return Err(format!("method descriptor parser rejects the valid descriptor {s:?}: {e:#}")),
	}
	Ok(())
}

pub fn check_names(s: &str, obs: &mut Obs) -> PropResult {
	let js = JavaStr::from_str(s);
	let table: [(&str, bool, bool); 7] = [
		("class name", ClassName::is_valid(js), ref_class_name(s)),
		("array class name", ArrClassName::is_valid(js), ref_arr_class_name(s)),
		("object class name", ObjClassName::is_valid(js), ref_obj_class_name(s)),
		("field name", FieldName::is_valid(js), ref_unqualified(s)),
		("method name", MethodName::is_valid(js), ref_method_name(s)),
		("parameter name", ParameterName::is_valid(js), ref_unqualified(s)),
		("local variable name", LocalVariableName::is_valid(js), ref_unqualified(s)),
	];
	for (what, got, want) in table {
		if got != want {
			if (what == "class name" || what == "array class name") && s.starts_with('[') && got && obs.known("C18-array-class-name-predicate") {
				continue;
			}
			return Err(format!("{what} predicate says {got} for {s:?}, the documented rule says {want}"));
		}
		if want {
			obs.label(format!("valid {what}"));
		}
		// TryFrom agrees with is_valid
	}
	let tf = ObjClassName::try_from(JavaString::from(s)).is_ok();
	if tf != ObjClassName::is_valid(js) {
		return Err(format!("ObjClassName::try_from and is_valid disagree on {s:?}"));
	}
	// the helpers of a class name: array / object side, exactly one of them
	if ref_class_name(s) {
		let cn = ClassName::try_from(JavaString::from(s)).map_err(|e| format!("valid class name {s:?} refused: {e:#}"))?;
		let is_arr = s.starts_with('[');
		if cn.is_array() != is_arr {
			return Err(format!("ClassName({s:?}).is_array() = {}", cn.is_array()));
		}
		if cn.as_arr().is_some() != is_arr || cn.as_obj().is_some() == is_arr {
			return Err(format!("ClassName({s:?}): as_arr() is {:?}, as_obj() is {:?}", cn.as_arr().map(|x| x.as_inner()), cn.as_obj().map(|x| x.as_inner())));
		}
		match cn.as_arr_and_obj() {
			Ok(a) if is_arr && a.as_inner() == js => {}
			Err(o) if !is_arr && o.as_inner() == js => {}
			other => return Err(format!("ClassName({s:?}).as_arr_and_obj() = {other:?}")),
		}
		if cn.clone().into_arr().is_some() != is_arr || cn.clone().into_obj().is_some() == is_arr {
			return Err(format!("ClassName({s:?}): into_arr / into_obj disagree with the leading `[`"));
		}
		obs.label(if is_arr { "helpers:array" } else { "helpers:object" });
	}
	// inner class split / join
	if ref_obj_class_name(s) {
		let name = ObjClassName::try_from(JavaString::from(s)).map_err(|e| format!("valid object class name {s:?} refused: {e:#}"))?;
		let slice: &ObjClassNameSlice = &name;
		// the simple name is what follows the last `/`; the inner name / parent are the two halves of the split
		let simple = s.rsplit_once('/').map_or(s, |(_, x)| x);
		if slice.get_simple_name().as_inner() != JavaStr::from_str(simple) {
			return Err(format!("get_simple_name({s:?}) = {:?}, expected {simple:?}", slice.get_simple_name().as_inner()));
		}
		if slice.as_class_name().as_inner() != js {
			return Err(format!("as_class_name({s:?}) = {:?}", slice.as_class_name().as_inner()));
		}
		let split = slice.split_inner_class_parent_and_name();
		if slice.get_inner_class_parent() != split.map(|x| x.0) || slice.get_inner_class_name() != split.map(|x| x.1) {
			return Err(format!("get_inner_class_parent / get_inner_class_name of {s:?} disagree with split_inner_class_parent_and_name"));
		}
		if let Some((p, i)) = slice.split_inner_class_parent_and_name() {
			// reference split: last '$' of the string; parent and inner non-empty, parent not ending in '/', inner without '/'
			let (rp, ri) = s.rsplit_once('$').ok_or_else(|| format!("split of {s:?} succeeded without a `$`"))?;
			if p.as_inner() != JavaStr::from_str(rp) || i.as_inner() != JavaStr::from_str(ri) {
				return Err(format!("split of {s:?} gives ({:?}, {:?}), expected ({rp:?}, {ri:?})", p.as_inner(), i.as_inner()));
			}
			if !ref_obj_class_name(rp) || !ref_obj_class_name(ri) {
				return Err(format!("split of {s:?} produced an invalid class name: ({rp:?}, {ri:?})"));
			}
			let joined = ObjClassName::from_inner_class(p.to_owned(), i);
			if joined.as_inner() != js {
				return Err(format!("from_inner_class(split({s:?})) = {:?}", joined.as_inner()));
			}
			obs.label("split:some");
		} else {
			let should = s.rsplit_once('$').is_some_and(|(p, i)| !p.is_empty() && !i.is_empty() && !p.ends_with('/') && !i.contains('/'));
			if should {
				return Err(format!("split of {s:?} is None although it has a parent and an inner part around its last `$`"));
			}
			obs.label("split:none");
		}
	}
	Ok(())
}

/// join then split gives the parts back (inner without `$` and `/`)
fn check_join_split(parent: &str, inner: &str) -> PropResult {
	let p = ObjClassName::try_from(JavaString::from(parent)).map_err(|e| format!("{e:#}"))?;
	let i = ObjClassName::try_from(JavaString::from(inner)).map_err(|e| format!("{e:#}"))?;
	let joined = ObjClassName::from_inner_class(p.clone(), &i);
	if !ObjClassName::is_valid(joined.as_inner()) {
		return Err(format!("from_inner_class({parent:?}, {inner:?}) = {:?} is not a valid object class name", joined.as_inner()));
	}
	match joined.split_inner_class_parent_and_name() {
		Some((p2, i2)) if p2 == &p && i2 == &i => Ok(()),
		other => Err(format!("split(from_inner_class({parent:?}, {inner:?})) = {other:?}")),
	}
}

// ---------------------------------------------------------------------------------------------
// enumeration

const DESC_ALPHABET: &[u8] = b"BCDFIJSZVL;[()/a";
const NAME_ALPHABET: &[u8] = b".;[/<>$ab";

fn nth_string(alphabet: &[u8], len: usize, mut n: u64) -> String {
	let k = alphabet.len() as u64;
	let mut v = vec![0u8; len];
	for slot in v.iter_mut().rev() {
		*slot = alphabet[(n % k) as usize];
		n /= k;
	}
	String::from_utf8(v).unwrap()
}

fn near_member(s: &str) -> bool {
	// one deletion away from a member of any of the three grammars (cheap approximation of "one edit")
	let member = |x: &str| ref_field_descriptor(x).is_some() || ref_method_descriptor(x).is_some() || ref_return_descriptor(x).is_some();
	if member(s) {
		return true;
	}
	for (i, _) in s.char_indices() {
		let mut t = s.to_string();
		t.remove(i);
		if member(&t) {
			return true;
		}
	}
	false
}

struct ShardResult {
	evaluations: u64,
	nontrivial: Vec<u64>,
	labels: BTreeMap<String, u64>,
	masked: BTreeMap<String, u64>,
	fail: Option<(String, String)>,
	samples: Vec<String>,
}

fn enumerate(ctx: &mut Ctx, sub: &str, alphabet: &'static [u8], max_len: usize, check: fn(&str, &mut Obs) -> PropResult, nontrivial: fn(&str) -> bool) {
	let by_value = move |v: &serde_json::Value, obs: &mut Obs| -> PropResult { check(v["string"].as_str().unwrap_or(""), obs) };
	if ctx.in_replay() {
		if let Some(v) = ctx.replay_case(sub) {
			let mut obs = ctx.new_obs();
			if let Err(e) = crate::engine::no_panic(|| by_value(&v, &mut obs)).and_then(|x| x) {
				ctx.push_violation(sub, e);
			}
		}
		return;
	}
	ctx.run_saved_values(sub, &by_value);
	let threads = ctx.threads;
	let total_by_len: Vec<u64> = (0..=max_len).map(|l| (alphabet.len() as u64).pow(l as u32)).collect();
	let results: Vec<ShardResult> = std::thread::scope(|scope| {
		let handles: Vec<_> = (0..threads)
			.map(|shard| {
				let ctx_ref = &*ctx;
				let total_by_len = &total_by_len;
				scope.spawn(move || {
					let mut r = ShardResult { evaluations: 0, nontrivial: Vec::new(), labels: BTreeMap::new(), masked: BTreeMap::new(), fail: None, samples: Vec::new() };
					for (len, total) in total_by_len.iter().enumerate() {
						let mut n = shard as u64;
						while n < *total {
							let s = nth_string(alphabet, len, n);
							n += threads as u64;
							let mut obs = ctx_ref.new_obs();
							let res = crate::engine::no_panic(|| check(&s, &mut obs)).and_then(|x| x);
							r.evaluations += 1;
							for l in obs.labels {
								*r.labels.entry(l).or_insert(0) += 1;
							}
							for m in obs.masked {
								*r.masked.entry(m).or_insert(0) += 1;
							}
							if len >= 2 && nontrivial(&s) {
								r.nontrivial.push(fnv64(s.as_bytes()));
								if r.samples.len() < 3 && n % 7 == 0 {
									r.samples.push(s.clone());
								}
							}
							if let Err(e) = res {
								if r.fail.is_none() {
									// strings are enumerated by increasing length: the first failure is a shortest one
									r.fail = Some((e, s));
								}
							}
						}
					}
					r
				})
			})
			.collect();
		handles.into_iter().map(|h| h.join().expect("shard")).collect()
	});
	ctx.run_enum(sub, |rec| {
		let mut fails: Vec<(String, String)> = Vec::new();
		for r in results {
			rec.bulk(r.evaluations, r.nontrivial, &r.labels);
			for (k, v) in r.masked {
				rec.masked(&k, v);
			}
			for s in r.samples {
				rec.sample(json!(s));
			}
			if let Some(f) = r.fail {
				fails.push(f);
			}
		}
		fails.sort_by_key(|(_, s)| (s.len(), s.clone()));
		if let Some((reason, s)) = fails.into_iter().next() {
			rec.fail(reason, json!({ "string": s }));
		}
	});
}

// ---------------------------------------------------------------------------------------------
// random long members and neighbours

#[derive(Clone, Debug, Serialize, Deserialize)]
pub struct LongCase {
	pub string: String,
}

fn rtype_strategy() -> impl Strategy<Value = RType> {
	let name = prop_oneof![
		Just("a".to_string()),
		Just("java/lang/Object".to_string()),
		Just("L".to_string()),
		Just("I$V".to_string()),
		"[a-zA-Z$_<>\\-]{1,12}(/[a-zA-Z0-9$_ ]{1,12}){0,4}",
		"[\\p{L}\\p{N}]{1,6}",
		Just("x".repeat(300)),
	];
	let base = prop_oneof![proptest::sample::select(vec!['B', 'C', 'D', 'F', 'I', 'J', 'S', 'Z']).prop_map(RType::Prim), name.prop_map(RType::Obj)];
	(prop_oneof![4 => Just(0u16), 3 => 1u16..4, 1 => 250u16..=255], base).prop_map(|(d, b)| if d == 0 { b } else { RType::Arr(d, Box::new(b)) })
}

fn edit_strategy() -> impl Strategy<Value = (u8, u16, u8)> {
	(0u8..4, any::<u16>(), any::<u8>())
}

fn apply_edit(s: &str, (kind, pos, ch): (u8, u16, u8)) -> String {
	let chars: Vec<char> = s.chars().collect();
	let c = b"BCDFIJSZVL;[()/a.$<>"[(ch as usize) % 20] as char;
	let mut out = chars.clone();
	let p = crate::engine::idx(pos, chars.len() + 1);
	match kind {
		0 => return s.to_string(),
		1 => out.insert(p, c),
		2 => {
			if p < out.len() {
				out.remove(p);
			}
		}
		_ => {
			if p < out.len() {
				out[p] = c;
			}
		}
	}
	out.into_iter().collect()
}

fn long_case(case: &LongCase, obs: &mut Obs) -> PropResult {
	let s = &case.string;
	check_field(s, obs)?;
	check_return(s, obs)?;
	check_method(s, obs)?;
	check_names(s, obs)?;
	obs.label_if(s.chars().filter(|c| *c == '[').count() >= 255, "dims>=255");
	obs.label_if(s.len() > 200, "len>200");
	obs.label_if(!s.is_ascii(), "non_ascii");
	obs.nontrivial_if(s.len() >= 2 && near_member(s));
	Ok(())
}

#[derive(Clone, Debug, Serialize, Deserialize)]
pub struct StructCase {
	pub params: Vec<RType>,
	pub ret: Option<RType>,
}

/// parse(write(t)) == t for generated structures
fn structure_case(case: &StructCase, obs: &mut Obs) -> PropResult {
	let params: Option<Vec<Type>> = case.params.iter().map(to_duke).collect();
	let ret: Option<Option<Type>> = match &case.ret {
		None => Some(None),
		Some(r) => to_duke(r).map(Some),
	};
	let (Some(params), Some(ret)) = (params, ret) else {
		return Err("harness: generated structure is not expressible".into());
	};
	let m = ParsedMethodDescriptor { parameter_descriptors: params.clone(), return_descriptor: ret.clone() };
	let w = m.write();
	let mut expect = String::from("(");
	case.params.iter().for_each(|p| render(p, &mut expect));
	expect.push(')');
	match &case.ret {
		None => expect.push('V'),
		Some(r) => render(r, &mut expect),
	}
	if w.as_inner() != JavaStr::from_str(&expect) {
		return Err(format!("structure {case:?} is printed as {:?}, expected {expect:?}", w.as_inner()));
	}
	let back = w.parse().map_err(|e| format!("printed method descriptor {expect:?} does not parse: {e:#}"))?;
	if back != m {
		return Err(format!("parse(write(t)) != t for {expect:?}"));
	}
	for p in params.iter().chain(ret.iter()) {
		let f = ParsedFieldDescriptor(p.clone());
		let back = f.write().parse().map_err(|e| format!("printed field descriptor does not parse: {e:#}"))?;
		if back != f {
			return Err(format!("field parse(write(t)) != t for {p:?}"));
		}
	}
	let r = ParsedReturnDescriptor(ret.clone());
	let back = r.write().parse().map_err(|e| format!("printed return descriptor does not parse: {e:#}"))?;
	if back != r {
		return Err(format!("return parse(write(t)) != t for {ret:?}"));
	}
	obs.nontrivial_if(case.params.len() >= 2);
	obs.label_if(case.params.iter().any(|p| matches!(p, RType::Arr(d, _) if *d == 255)), "255 dimensions");
	Ok(())
}

#[derive(Clone, Debug, Serialize, Deserialize)]
pub struct JoinCase {
	pub parent: String,
	pub inner: String,
}

fn join_case(case: &JoinCase, obs: &mut Obs) -> PropResult {
	check_join_split(&case.parent, &case.inner)?;
	obs.nontrivial_if(case.parent.contains('$') || case.parent.contains('/'));
	Ok(())
}


/// Dimension counts around every place where a counter of 8 or 16 bits would wrap: `[`^d + element, given to
/// the three descriptor parsers (bare, as parameter and as return type) and to the name predicates;
/// for accepted array class names `dimension()` must be d.
/// Code points that share their low byte (or their low 16 bits) with a character of the descriptor alphabet: a parser that
/// looks at a truncated code point takes U+0149 for `I`, U+014C for `L`, U+015B for `[` ... One string per code point and
/// position: alone, as parameter, as return type, as array element, as the `L` of an object type, as its `;`.
fn lookalike_code_points(ctx: &mut Ctx) {
	let sub = "lookalike_code_points";
	let by_value = |v: &serde_json::Value, obs: &mut Obs| -> PropResult { lookalike_case(v["cp"].as_u64().unwrap_or(0) as u32, obs) };
	if ctx.in_replay() {
		if let Some(v) = ctx.replay_case(sub) {
			let mut obs = ctx.new_obs();
			if let Err(e) = crate::engine::no_panic(|| by_value(&v, &mut obs)).and_then(|x| x) {
				ctx.push_violation(sub, e);
			}
		}
		return;
	}
	ctx.run_saved_values(sub, &by_value);
	let tags: Vec<u32> = "BCDFIJSZLV[();/".chars().map(|c| c as u32).collect();
	let thorough = ctx.tier.pick(0, 1) == 1;
	ctx.run_enum(sub, |rec| {
		// quick: every page up to U+2FFF, every 16th page of the rest; thorough: every page of the code space
		for page in 1u32..=0x10FF {
			if !thorough && page > 0x2F && page % 16 != 1 {
				continue;
			}
			for t in &tags {
				let cp = page << 8 | t;
				if char::from_u32(cp).is_none() {
					continue;
				}
				let mut obs = rec.obs();
				let r = crate::engine::no_panic(|| lookalike_case(cp, &mut obs)).and_then(|x| x);
				rec.case(|| json!({"cp": cp}), fnv64(format!("cp{cp}").as_bytes()), obs, r);
				if rec.failed() {
					return;
				}
			}
		}
	});
}

fn lookalike_case(cp: u32, obs: &mut Obs) -> PropResult {
	let Some(c) = char::from_u32(cp) else { return Ok(()) };
	for s in [format!("{c}"), format!("{c}a;"), format!("[{c}"), format!("[[{c}a;"), format!("La{c}"), format!("L{c};"), format!("[L{c}/b;")] {
		check_field(&s, obs)?;
		check_return(&s, obs)?;
		check_names(&s, obs)?;
	}
	for s in [format!("({c})V"), format!("({c}a;)V"), format!("(){c}"), format!("(){c}a;"), format!("{c})V"), format!("(I{c}V"), format!("(I)V{c}"), format!("([{c})V"), format!("(La{c})V"), format!("(L{c};)L{c};")] {
		check_method(&s, obs)?;
	}
	obs.label(format!("low_byte={:?}", (cp & 0xff) as u8 as char));
	obs.nontrivial_if(true);
	Ok(())
}

fn dimension_boundaries(ctx: &mut Ctx) {
	let sub = "dimension_boundaries";
	let by_value = |v: &serde_json::Value, obs: &mut Obs| -> PropResult { dimension_case(v["dims"].as_u64().unwrap_or(0) as usize, v["element"].as_str().unwrap_or(""), obs) };
	if ctx.in_replay() {
		if let Some(v) = ctx.replay_case(sub) {
			let mut obs = ctx.new_obs();
			if let Err(e) = crate::engine::no_panic(|| by_value(&v, &mut obs)).and_then(|x| x) {
				ctx.push_violation(sub, e);
			}
		}
		return;
	}
	ctx.run_saved_values(sub, &by_value);
	let mut dims: Vec<usize> = (0..=8).collect();
	for base in [256usize, 512, 768, 1024, 4096, 32768, 65536, 65536 + 256, 131072, 1 << 20] {
		dims.extend(base - 3..=base + 3);
	}
	dims.extend([100, 127, 128, 129, 200, 65536 + 255, 65536 * 2 + 255]);
	dims.sort();
	dims.dedup();
	let elements = ["I", "J", "Z", "La;", "Ljava/lang/Object;", "L[I;", "V", "", "a", "L;", "La", "II"];
	ctx.run_enum(sub, |rec| {
		for &d in &dims {
			for e in elements {
				let mut obs = rec.obs();
				let r = crate::engine::no_panic(|| dimension_case(d, e, &mut obs)).and_then(|x| x);
				rec.case(|| json!({"dims": d, "element": e}), fnv64(format!("{d}:{e}").as_bytes()), obs, r);
				if rec.failed() {
					return; // dimensions ascend: the first failure is a smallest one
				}
			}
		}
	});
}

fn dimension_case(d: usize, element: &str, obs: &mut Obs) -> PropResult {
	let s = format!("{}{}", "[".repeat(d), element);
	check_field(&s, obs)?;
	check_return(&s, obs)?;
	check_method(&format!("({s})V"), obs)?;
	check_method(&format!("(I{s}J)V"), obs)?;
	check_method(&format!("(){s}"), obs)?;
	check_names(&s, obs)?;
	// TryFrom agrees with the predicates, and the dimension of an accepted array class name is d
	let js = JavaStr::from_str(&s);
	let arr = ArrClassName::try_from(JavaString::from(s.as_str()));
	if arr.is_ok() != ArrClassName::is_valid(js) {
		return Err(format!("ArrClassName::try_from and is_valid disagree on {d} dimensions of {element:?}"));
	}
	if ClassName::try_from(JavaString::from(s.as_str())).is_ok() != ClassName::is_valid(js) {
		return Err(format!("ClassName::try_from and is_valid disagree on {d} dimensions of {element:?}"));
	}
	if let Ok(a) = arr {
		if a.dimension() as usize != d {
			return Err(format!("array class name of {d} dimensions of {element:?} reports dimension() = {}", a.dimension()));
		}
		obs.label("valid array class name");
	}
	obs.label(if d > 255 { "dims>255" } else if d == 255 { "dims=255" } else { "dims<255" });
	obs.nontrivial_if(d >= 1);
	Ok(())
}

/// Names containing an unpaired surrogate code point (legal in class files, only representable as a JavaString):
/// the predicates exclude a handful of ASCII characters and nothing else, so every such name built around a valid
/// skeleton stays valid and every invalid skeleton stays invalid.
fn surrogate_case(template: &str, surrogate: u32, obs: &mut Obs) -> PropResult {
	use java_string::JavaCodePoint;
	// the template's `?` is replaced by the surrogate code point
	let mut js = JavaString::new();
	for c in template.chars() {
		if c == '?' {
			js.push_java(JavaCodePoint::from_u32(surrogate).ok_or("harness: not a code point")?);
		} else {
			js.push(c);
		}
	}
	// the same skeleton with an ordinary letter instead decides what the rule says
	let plain = template.replace('?', "x");
	let table: [(&str, bool, bool); 7] = [
		("class name", ClassName::is_valid(&js), ref_class_name(&plain)),
		("array class name", ArrClassName::is_valid(&js), ref_arr_class_name(&plain)),
		("object class name", ObjClassName::is_valid(&js), ref_obj_class_name(&plain)),
		("field name", FieldName::is_valid(&js), ref_unqualified(&plain)),
		("method name", MethodName::is_valid(&js), ref_method_name(&plain)),
		("parameter name", ParameterName::is_valid(&js), ref_unqualified(&plain)),
		("local variable name", LocalVariableName::is_valid(&js), ref_unqualified(&plain)),
	];
	for (what, got, want) in table {
		if got != want {
			return Err(format!("{what} predicate says {got} for {template:?} with U+{surrogate:04X} in place of `?`, the documented rule says {want}"));
		}
	}
	if ObjClassName::try_from(js.clone()).is_ok() != ObjClassName::is_valid(&js) {
		return Err(format!("ObjClassName::try_from and is_valid disagree on {template:?} with U+{surrogate:04X}"));
	}
	// a field descriptor around such a class name parses and prints back
	if ref_obj_class_name(&plain) {
		let mut d = JavaString::from("[L");
		d.push_java_str(&js);
		d.push(';');
		let fd = duke::tree::field::FieldDescriptor::try_from(d.clone()).map_err(|e| format!("field descriptor around {template:?} with U+{surrogate:04X} refused: {e:#}"))?;
		let parsed = fd.parse().map_err(|e| format!("field descriptor around {template:?} with U+{surrogate:04X} does not parse: {e:#}"))?;
		if parsed.write().as_inner() != d.as_java_str() {
			return Err(format!("field descriptor around {template:?} with U+{surrogate:04X} is printed differently"));
		}
	}
	obs.label("name_with_unpaired_surrogate");
	obs.nontrivial();
	Ok(())
}

/// method descriptors with very many parameters (the 255-slot limit of JVMS 4.3.3 constrains methods, not the grammar)
fn many_parameters_case(n: usize, element: &str, ret: &str, obs: &mut Obs) -> PropResult {
	let s = format!("({}){ret}", element.repeat(n));
	check_method(&s, obs)?;
	obs.label(if n >= 255 { "parameters>=255" } else { "parameters<255" });
	obs.nontrivial_if(n >= 2);
	Ok(())
}

pub fn run(ctx: &mut Ctx) {
	let quick = ctx.tier == crate::engine::Tier::Quick;
	let dl = if quick { 6 } else { 7 };
	ctx.rule = format!(
		"exhaustive: every string of length <= {dl} over the 16 symbols BCDFIJSZVL;[()/a is given to the field, method and return descriptor parsers (accept iff member of JVMS 4.3, parsed structure == reference structure, write(parse(s)) == s); every string of length <= 5 over . ; [ / < > $ a b and every string of length <= 4 over the descriptor alphabet is given to the seven name predicates and the inner-class split/join; dimension counts 0..8 and within 3 of every multiple of 256 / 65536 that an 8- or 16-bit counter would wrap at, for 12 element forms, to parsers and predicates (dimension() of an accepted array class name == d); method descriptors with 0..65535 parameters of 7 element forms; names with an unpaired surrogate code point in 18 skeletons; special names (<init>, <clinit>, module-info, $-edge cases) with all single deletions and one-character extensions, to the name predicates and the inner-class split/join; random: generated type structures (up to 255 dimensions, long and non-ASCII names) printed and re-parsed, long members and their single-edit neighbours. Non-trivial = length >= 2 and a grammar member or one deletion away from one (names: length >= 2); distinct by string hash"
	);
	ctx.assume("class names inside L...; follow JVMS 4.2.1 (non-empty `/`-separated unqualified names)");
	ctx.exhaustive = true;
	enumerate(ctx, "field_descriptors_exhaustive", DESC_ALPHABET, dl, check_field, near_member);
	enumerate(ctx, "method_descriptors_exhaustive", DESC_ALPHABET, dl, check_method, near_member);
	enumerate(ctx, "return_descriptors_exhaustive", DESC_ALPHABET, dl, check_return, near_member);
	enumerate(ctx, "names_exhaustive", NAME_ALPHABET, 5, check_names, |_| true);
	enumerate(ctx, "names_over_descriptor_alphabet", DESC_ALPHABET, 4, check_names, |_| true);
	dimension_boundaries(ctx);
	lookalike_code_points(ctx);
	ctx.run_enum("many_parameters", |rec| {
		for n in [0usize, 1, 2, 126, 127, 128, 129, 253, 254, 255, 256, 257, 300, 1000, 65535] {
			for element in ["I", "J", "D", "La;", "[I", "[[J", "Ljava/lang/Object;"] {
				for ret in ["V", "I", "[La;"] {
					let mut obs = rec.obs();
					let r = crate::engine::no_panic(|| many_parameters_case(n, element, ret, &mut obs)).and_then(|x| x);
					rec.case(|| json!({"n": n, "element": element, "ret": ret}), fnv64(format!("{n}:{element}:{ret}").as_bytes()), obs, r);
					if rec.failed() {
						return;
					}
				}
			}
		}
	});
	ctx.run_enum("names_with_surrogates", |rec| {
		for template in ["?", "a?", "?a", "a?b", "p/?", "?/a", "p/q/a?$b", "a$?", "?$a", "<?>", "<init>?", "a.?", "?;", "[?", "a/?/", "/?", "??", ""] {
			for surrogate in [0xD800u32, 0xDBFF, 0xDC00, 0xDFFF] {
				let mut obs = rec.obs();
				let r = crate::engine::no_panic(|| surrogate_case(template, surrogate, &mut obs)).and_then(|x| x);
				rec.case(|| json!({"template": template, "surrogate": surrogate}), fnv64(format!("{template}:{surrogate}").as_bytes()), obs, r);
				if rec.failed() {
					return;
				}
			}
		}
	});
	// names that are special as a whole, and their near misses (the name alphabets above cannot spell them)
	ctx.run_enum("special_names", |rec| {
		let bases = ["<init>", "<clinit>", "this", "module-info", "package-info", "java/lang/Object", "a$b", "$", "$$", "a$", "$a", "pkg/$a", "a/$", "a//b", "/a", "a/", "1", "é", "\u{10400}", " ", ""];
		let mut all: Vec<String> = Vec::new();
		for b in bases {
			all.push(b.to_string());
			// every single deletion and a few insertions
			let chars: Vec<char> = b.chars().collect();
			for i in 0..chars.len() {
				let mut c = chars.clone();
				c.remove(i);
				all.push(c.into_iter().collect());
			}
			for extra in ["x", "<", ">", "/", "$", "[", ";", "."] {
				all.push(format!("{b}{extra}"));
				all.push(format!("{extra}{b}"));
			}
			all.push(b.to_uppercase());
		}
		all.sort();
		all.dedup();
		for s in all {
			let mut obs = rec.obs();
			let r = crate::engine::no_panic(|| check_names(&s, &mut obs)).and_then(|x| x);
			obs.nontrivial_if(s.len() >= 2);
			rec.case(|| json!({"string": s}), fnv64(s.as_bytes()), obs, r);
		}
	});
	let long = || {
		(proptest::collection::vec(rtype_strategy(), 0..4), proptest::option::of(rtype_strategy()), 0u8..3, edit_strategy()).prop_map(|(params, ret, form, edit)| {
			let mut s = String::new();
			match form {
				0 => {
					if let Some(p) = params.first().or(ret.as_ref()) {
						render(p, &mut s)
					}
				}
				_ => {
					s.push('(');
					params.iter().for_each(|p| render(p, &mut s));
					s.push(')');
					match &ret {
						None => s.push('V'),
						Some(r) => render(r, &mut s),
					}
				}
			}
			LongCase { string: apply_edit(&s, edit) }
		})
	};
	ctx.run_sub("long_members_and_neighbours", ctx.tier.pick(40000, 4000000), long, long_case);
	ctx.run_sub("structures_print_parse", ctx.tier.pick(20000, 800000), || (proptest::collection::vec(rtype_strategy(), 0..5), proptest::option::of(rtype_strategy())).prop_map(|(params, ret)| StructCase { params, ret }), structure_case);
	let part = || "[a-zA-Z0-9_$]{1,8}";
	ctx.run_sub(
		"inner_class_join_split",
		ctx.tier.pick(20000, 800000),
		move || ((proptest::collection::vec(part(), 1..4), "[a-zA-Z0-9_]{1,8}").prop_map(|(p, i)| JoinCase { parent: p.join("/"), inner: i })),
		join_case,
	);
}
