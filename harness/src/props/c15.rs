//! C15 — bridge targets inherit the bridge's mapped name, nothing else changes.
//!
//! `/repo/src/specialized_methods/mod.rs` is compiled into the harness via `#[path]` (see lib.rs).

use crate::classfile::encode::{encode, Choices};
use crate::classfile::model::*;
use crate::engine::{Ctx, Obs, PropResult};
use crate::jar::{build_jar, Entry};
use crate::mapmodel::conv::{from_quill, to_quill};
use crate::mapmodel::gen::Draws;
use crate::mapmodel::refops::{map_desc, Inheritance, RefRemapper, Search};
use crate::mapmodel::{MClass, MMethod, MapSet, MemberKey};
use crate::specialized_methods::{add_specialized_methods_to_mappings, GetSpecializedMethods};
use crate::{Intermediary, Named, Official};
use proptest::prelude::*;
use serde::{Deserialize, Serialize};
use std::collections::{BTreeMap, BTreeSet};

/// main jar classes (official names) with their super class / interfaces drawn from these lists
const MAIN: &[&str] = &["p/A", "p/B", "p/C", "p/D", "p/I", "p/J"];
const LIB: &str = "lib/L";
const EXT: &str = "ext/X";
const TYPES: &[&str] = &["I", "J", "Ljava/lang/Object;", "Ljava/lang/String;", "Lp/A;", "Lp/B;", "Lp/C;", "Lp/I;", "Lext/X;", "Llib/L;", "[Lp/A;", "Lp/J;"];

#[derive(Clone, Debug, Serialize, Deserialize)]
pub struct Pattern {
	/// class index into MAIN
	pub class: usize,
	/// delegate: parameter types and return type (index into TYPES; ret None = void)
	pub params: Vec<u8>,
	pub ret: Option<u8>,
	/// how each position of the synthetic method differs: 0 same, 1 Object, 2 the first super type of the delegate's type, 3 an unrelated type, 4 a type outside the jar, 5 the farthest (transitive) super type;
	/// widen_ret 6: a value where the delegate returns void / void where the delegate returns a value
	pub widen: Vec<u8>,
	pub widen_ret: u8,
	pub arity_change: bool,
	pub synthetic: bool,
	pub bridge_flag: bool,
	/// 0 none, 1 private, 2 static, 3 final
	pub blocker: u8,
	/// 0 calls the delegate once, 1 calls nothing, 2 calls the delegate twice, 3 calls the delegate and another method, 4 delegate lives in the super class
	pub body: u8,
	pub same_name: bool,
	/// call the delegate an earlier pattern created for a bridge in *another* class (two bridges, one delegate)
	#[serde(default)]
	pub share: bool,
}

#[derive(Clone, Debug, Serialize, Deserialize)]
pub struct Case {
	/// super type choice per MAIN class
	pub supers: Vec<u8>,
	pub patterns: Vec<Pattern>,
	pub map_stream: Vec<u8>,
}

fn pattern() -> impl Strategy<Value = Pattern> {
	(
		(prop_oneof![6 => 0usize..4, 1 => 4usize..6], proptest::collection::vec(0u8..TYPES.len() as u8, 0..3), proptest::option::of(0u8..TYPES.len() as u8), proptest::collection::vec(prop_oneof![3 => Just(0u8), 2 => Just(1u8), 2 => Just(2u8), 1 => Just(3u8), 1 => Just(4u8), 2 => Just(5u8)], 3)),
		(prop_oneof![3 => Just(0u8), 2 => Just(1u8), 2 => Just(2u8), 1 => Just(3u8), 2 => Just(5u8), 1 => Just(6u8)], prop_oneof![9 => Just(false), 1 => Just(true)], prop_oneof![5 => Just(true), 1 => Just(false)], any::<bool>(), prop_oneof![6 => Just(0u8), 1 => 1u8..4], prop_oneof![5 => Just(0u8), 1 => 1u8..6], any::<bool>(), prop_oneof![4 => Just(false), 1 => Just(true)]),
	)
		.prop_map(|((class, params, ret, widen), (widen_ret, arity_change, synthetic, bridge_flag, blocker, body, same_name, share))| Pattern { class, params, ret, widen, widen_ret, arity_change, synthetic, bridge_flag, blocker, body, same_name, share })
}

fn strategy() -> impl Strategy<Value = Case> {
	(proptest::collection::vec(0u8..16, MAIN.len()), proptest::collection::vec(pattern(), 1..6), proptest::collection::vec(any::<u8>(), 0..80)).prop_map(|(supers, patterns, map_stream)| Case { supers, patterns, map_stream })
}

fn hierarchy(supers: &[u8]) -> Vec<(String, Option<String>, Vec<String>)> {
	// p/A: Object | lib/L | ext/X ; p/B extends A ; p/C extends B | A ; p/D extends A | Object ; p/I, p/J interfaces.
	// The low two bits of each choice select what they always selected; the high two bits add the second interface p/J
	// in front of / behind p/I (a class with several parents, some of them reachable twice) and let p/I extend p/J.
	let pick = |i: usize| supers.get(i).copied().unwrap_or(0) & 3;
	let hi = |i: usize| supers.get(i).copied().unwrap_or(0) >> 2;
	let with_j = |mut base: Vec<String>, how: u8| {
		match how {
			1 => base.push("p/J".into()),
			2 => base.insert(0, "p/J".into()),
			3 => base = vec!["p/J".into()],
			_ => {}
		}
		base
	};
	vec![
		("p/A".into(), Some(["java/lang/Object", LIB, EXT, "java/lang/Object"][pick(0) as usize % 4].to_string()), with_j(if pick(0) >= 2 { vec!["p/I".into()] } else { vec![] }, hi(0))),
		("p/B".into(), Some("p/A".into()), with_j(if pick(1) % 2 == 1 { vec!["p/I".into()] } else { vec![] }, hi(1))),
		("p/C".into(), Some(if pick(2) % 2 == 0 { "p/B" } else { "p/A" }.to_string()), with_j(vec![], hi(2) % 2)),
		("p/D".into(), Some(if pick(3) % 2 == 0 { "p/A" } else { "java/lang/Object" }.to_string()), vec![]),
		("p/I".into(), Some("java/lang/Object".into()), if hi(4) % 2 == 1 { vec!["p/J".into()] } else { vec![] }),
		("p/J".into(), Some("java/lang/Object".into()), vec![]),
	]
}

fn class_of(t: &str) -> Option<&str> {
	t.strip_prefix('L').and_then(|x| x.strip_suffix(';'))
}

fn ancestors(inh: &Inheritance, c: &str, out: &mut Vec<String>) {
	for s in inh.get(c).into_iter().flatten() {
		if s != "java/lang/Object" && !out.contains(s) {
			out.push(s.clone());
			ancestors(inh, s, out);
		}
	}
}

/// derive the synthetic method's type at one position
fn widened(t: &str, how: u8, inh: &Inheritance) -> String {
	match how {
		0 => t.to_string(),
		1 => "Ljava/lang/Object;".to_string(),
		2 => {
			let mut a = Vec::new();
			if let Some(c) = class_of(t) {
				ancestors(inh, c, &mut a);
			}
			match a.first() {
				Some(s) => format!("L{s};"),
				None => t.to_string(),
			}
		}
		3 => if t == "Lp/D;" { "Lp/C;".to_string() } else { "Lp/D;".to_string() },
		// the farthest super type (a transitive one whenever the type has a chain of super types in the jar)
		5 => {
			let mut a = Vec::new();
			if let Some(c) = class_of(t) {
				ancestors(inh, c, &mut a);
			}
			match a.last() {
				Some(s) => format!("L{s};"),
				None => t.to_string(),
			}
		}
		_ => "Lext/X;".to_string(),
	}
}

#[derive(Clone, Debug, PartialEq, Eq, PartialOrd, Ord)]
struct MRef {
	class: String,
	name: String,
	desc: String,
}

struct Built {
	models: Vec<CClass>,
	/// (synthetic candidate, its access, distinct invoked methods)
	candidates: Vec<(MRef, u16, BTreeSet<MRef>)>,
}

fn desc_of(params: &[String], ret: &Option<String>) -> String {
	format!("({}){}", params.concat(), ret.clone().unwrap_or_else(|| "V".into()))
}

fn build(case: &Case) -> (Built, Inheritance) {
	let h = hierarchy(&case.supers);
	let mut inh: Inheritance = BTreeMap::new();
	for (c, s, i) in &h {
		let mut v: Vec<String> = s.iter().cloned().collect();
		v.extend(i.iter().cloned());
		inh.insert(c.clone(), v);
	}
	inh.insert(LIB.into(), vec!["java/lang/Object".into()]);
	let mut models: Vec<CClass> = h
		.iter()
		.map(|(c, s, i)| CClass { minor: 0, major: 52, access: if c == "p/I" || c == "p/J" { 0x0601 } else { 0x21 }, name: c.clone(), super_class: s.clone(), interfaces: i.clone(), fields: vec![], methods: vec![], attrs: vec![] })
		.collect();
	let mut candidates = Vec::new();
	let mut used: BTreeSet<(usize, String, String)> = BTreeSet::new();
	let mut delegates_with_bridge: BTreeSet<(usize, String, String)> = BTreeSet::new();
	// delegates created so far: (class of the bridge, owner of the delegate, name, parameter types, return type)
	let mut made: Vec<(usize, usize, String, Vec<String>, Option<String>)> = Vec::new();
	for (k, p) in case.patterns.iter().enumerate() {
		let cls = MAIN[p.class].to_string();
		let mut params: Vec<String> = p.params.iter().map(|i| TYPES[*i as usize % TYPES.len()].to_string()).collect();
		let mut ret = p.ret.map(|i| TYPES[i as usize % TYPES.len()].to_string());
		let mut n_s = format!("spec{k}");
		// a second bridge, in another class, for a delegate that already has one
		let shared = if p.share { made.iter().find(|m| m.0 != p.class).cloned() } else { None };
		if let Some((_, _, name, ps, r)) = &shared {
			(params, ret, n_s) = (ps.clone(), r.clone(), name.clone());
		}
		let d_s = desc_of(&params, &ret);
		let mut bparams: Vec<String> = params.iter().enumerate().map(|(i, t)| widened(t, p.widen.get(i).copied().unwrap_or(0), &inh)).collect();
		if p.arity_change {
			bparams.push("I".into());
		}
		let bret = if p.widen_ret == 6 {
			// void against a value: never bridge-compatible
			if ret.is_none() { Some("Ljava/lang/Object;".to_string()) } else { None }
		} else {
			ret.as_ref().map(|t| widened(t, p.widen_ret, &inh))
		};
		let d_b = desc_of(&bparams, &bret);
		let n_b = if p.same_name { n_s.clone() } else { format!("bridge{k}") };
		// the delegate lives in this class, or (body 4) in the super class
		let owner_idx = match &shared {
			Some(m) => m.1,
			None if p.body == 4 => h[p.class].1.as_ref().and_then(|s| MAIN.iter().position(|m| m == s)).unwrap_or(p.class),
			None => p.class,
		};
		// same name and descriptor: the same method - unless the delegate lives in another class (javac's visibility bridge:
		// `Pub.run()` is synthetic and does `invokespecial Base.run()`)
		let same_signature = n_b == n_s && d_b == d_s;
		if same_signature && owner_idx == p.class {
			continue;
		}
		let owner = MAIN[owner_idx].to_string();
		if (shared.is_none() && !used.insert((owner_idx, n_s.clone(), d_s.clone()))) || !used.insert((p.class, n_b.clone(), d_b.clone())) {
			continue;
		}
		// at most one bridge per delegate and class
		if !delegates_with_bridge.insert((p.class, n_s.clone(), d_s.clone())) {
			continue;
		}
		let ret_insn = Insn::Simple(177);
		if shared.is_none() {
			models[owner_idx].methods.push(CMember { access: 1, name: n_s.clone(), desc: d_s.clone(), attrs: vec![Attr::Code(Code { max_stack: 1, max_locals: 8, insns: vec![ret_insn.clone()], exceptions: vec![], attrs: vec![] })] });
			made.push((p.class, owner_idx, n_s.clone(), params.clone(), ret.clone()));
		}
		let call = |name: &str, desc: &str, owner: &str| Insn::Invoke { op: if same_signature { 183 } else { 182 }, owner: owner.to_string(), name: name.to_string(), desc: desc.to_string(), itf: false };
		let mut insns = vec![Insn::Local { op: 25, index: 0 }];
		let mut refs: BTreeSet<MRef> = BTreeSet::new();
		let deleg = MRef { class: owner.clone(), name: n_s.clone(), desc: d_s.clone() };
		match p.body {
			1 | 5 => {}
			2 => {
				insns.push(call(&n_s, &d_s, &owner));
				insns.push(call(&n_s, &d_s, &owner));
				refs.insert(deleg.clone());
			}
			3 => {
				insns.push(call(&n_s, &d_s, &owner));
				insns.push(Insn::Invoke { op: 184, owner: "java/lang/Math".into(), name: "abs".into(), desc: "(I)I".into(), itf: false });
				refs.insert(deleg.clone());
				refs.insert(MRef { class: "java/lang/Math".into(), name: "abs".into(), desc: "(I)I".into() });
			}
			_ => {
				insns.push(call(&n_s, &d_s, &owner));
				refs.insert(deleg.clone());
			}
		}
		insns.push(ret_insn);
		let mut access: u16 = match p.blocker {
			1 => 0x0002,
			2 => 0x0009,
			3 => 0x0011,
			_ => 0x0001,
		};
		if p.synthetic {
			access |= 0x1000;
		}
		if p.bridge_flag {
			access |= 0x0040;
		}
		// body 5: the synthetic method has no code at all (abstract): it calls nothing, whatever the method in front of it calls
		if p.body == 5 {
			access = (access & !0x0010 & !0x0008 & !0x0002) | 0x0400;
			models[p.class].methods.push(CMember { access, name: n_b.clone(), desc: d_b.clone(), attrs: vec![] });
			models[p.class].access |= 0x0400;
		} else {
			models[p.class].methods.push(CMember { access, name: n_b.clone(), desc: d_b.clone(), attrs: vec![Attr::Code(Code { max_stack: 4, max_locals: 8, insns, exceptions: vec![], attrs: vec![] })] });
		}
		candidates.push((MRef { class: cls, name: n_b, desc: d_b }, access, refs));
	}
	(Built { models, candidates }, inh)
}

#[derive(PartialEq, Eq, Debug, Clone, Copy)]
enum Tri {
	Yes,
	No,
	/// the statement's "bridge-compatible" does not decide it (a super type of the delegate's type lies outside the jar)
	Unclear,
}

fn split_desc(d: &str) -> (Vec<String>, Option<String>) {
	let inner = &d[1..d.find(')').unwrap_or(1)];
	let ret = &d[d.find(')').map(|i| i + 1).unwrap_or(d.len())..];
	let mut params = Vec::new();
	let b = inner.as_bytes();
	let mut i = 0;
	while i < b.len() {
		let start = i;
		while b[i] == b'[' {
			i += 1;
		}
		if b[i] == b'L' {
			while b[i] != b';' {
				i += 1;
			}
		}
		i += 1;
		params.push(inner[start..i].to_string());
	}
	(params, if ret == "V" { None } else { Some(ret.to_string()) })
}

fn compatible(bridge: &str, spec: &str, in_jar: &BTreeSet<String>, inh: &Inheritance) -> Tri {
	if bridge == spec {
		return Tri::Yes;
	}
	let (Some(b), Some(s)) = (class_of(bridge), class_of(spec)) else { return Tri::No };
	if b == "java/lang/Object" || !in_jar.contains(b) {
		return Tri::Yes;
	}
	let mut a = Vec::new();
	ancestors(inh, s, &mut a);
	if a.iter().any(|x| x == b) {
		return Tri::Yes;
	}
	if a.iter().any(|x| !in_jar.contains(x)) {
		return Tri::Unclear;
	}
	Tri::No
}

/// the statement's predicate
fn is_bridge(m: &MRef, access: u16, refs: &BTreeSet<MRef>, in_jar: &BTreeSet<String>, inh: &Inheritance) -> (Tri, Option<MRef>) {
	if access & 0x1000 == 0 || refs.len() != 1 {
		return (Tri::No, None);
	}
	let s = refs.iter().next().unwrap().clone();
	if access & 0x0040 != 0 {
		return (Tri::Yes, Some(s));
	}
	if access & (0x0002 | 0x0008 | 0x0010) != 0 {
		return (Tri::No, None);
	}
	let (bp, br) = split_desc(&m.desc);
	let (sp, sr) = split_desc(&s.desc);
	if bp.len() != sp.len() {
		return (Tri::No, None);
	}
	let mut verdict = Tri::Yes;
	for (b, sp) in bp.iter().zip(sp.iter()) {
		match compatible(b, sp, in_jar, inh) {
			Tri::No => return (Tri::No, None),
			Tri::Unclear => verdict = Tri::Unclear,
			Tri::Yes => {}
		}
	}
	match (&br, &sr) {
		(None, None) => {}
		(Some(b), Some(sr)) => match compatible(b, sr, in_jar, inh) {
			Tri::No => return (Tri::No, None),
			Tri::Unclear => verdict = Tri::Unclear,
			Tri::Yes => {}
		},
		_ => return (Tri::No, None),
	}
	(verdict, Some(s))
}

fn check(case: &Case, obs: &mut Obs) -> PropResult {
	let (built, inh) = build(case);
	let ch = Choices::default();
	let mut entries: Vec<(String, Entry)> = Vec::new();
	for m in &built.models {
		let e = encode(m, &ch).map_err(|e| format!("harness: {e:?}"))?;
		entries.push((format!("{}.class", m.name), Entry::Class(e.bytes)));
	}
	let main = build_jar(&entries, false)?;
	let libm = CClass { minor: 0, major: 52, access: 0x21, name: LIB.into(), super_class: Some("java/lang/Object".into()), interfaces: vec![], fields: vec![], methods: vec![], attrs: vec![] };
	let lib = build_jar(&[(format!("{LIB}.class"), Entry::Class(encode(&libm, &ch).map_err(|e| format!("harness: {e:?}"))?.bytes))], false)?;
	let in_jar: BTreeSet<String> = MAIN.iter().map(|s| s.to_string()).collect();

	// mappings: calamus official -> intermediary, mappings intermediary -> named
	let mut d = Draws::new(&case.map_stream);
	let mut calamus = MapSet { ns: vec!["official".into(), "intermediary".into()], classes: BTreeMap::new() };
	for c in MAIN.iter().chain([LIB].iter()) {
		let mut mc = MClass { names: vec![Some(c.to_string()), if d.pct(85) { Some(format!("i/{}", c.replace('/', "_"))) } else { None }], ..MClass::default() };
		if let Some(m) = built.models.iter().find(|m| m.name == *c) {
			for (k, me) in m.methods.iter().enumerate() {
				if d.pct(60) {
					mc.methods.insert(MemberKey::new(&me.name, &me.desc), MMethod { names: vec![Some(me.name.clone()), Some(format!("m_{}_{k}", c.replace('/', "_")))], ..MMethod::default() });
				}
			}
		}
		calamus.classes.insert(c.to_string(), mc);
	}
	let cal = RefRemapper::new(&calamus, 0, 1, &inh);
	let inh_i: Inheritance = inh.iter().map(|(k, v)| (cal.map_class(k), v.iter().map(|x| cal.map_class(x)).collect())).collect();
	let to_i = |m: &MRef| -> MRef {
		let (n, dd) = cal.map_member(&m.class, &m.name, &m.desc, true, Search::Dfs);
		MRef { class: cal.map_class(&m.class), name: n, desc: dd }
	};
	let mut named = MapSet { ns: vec!["intermediary".into(), "named".into()], classes: BTreeMap::new() };
	for c in MAIN.iter() {
		if d.pct(85) {
			let ci = cal.map_class(c);
			named.classes.insert(ci.clone(), MClass { names: vec![Some(ci.clone()), if d.pct(80) { Some(format!("named/{}", c.replace('/', "_"))) } else { None }], ..MClass::default() });
		}
	}
	// name bridges (in their class or in a super class) and some delegates
	for (k, (b, _, refs)) in built.candidates.iter().enumerate() {
		let bi = to_i(b);
		if d.pct(70) {
			let mut owners = vec![b.class.clone()];
			ancestors(&inh, &b.class, &mut owners);
			let decl = cal.map_class(&owners[(d.next() as usize) % owners.len()]);
			if let Some(c) = named.classes.get_mut(&decl) {
				c.methods.entry(MemberKey::new(&bi.name, &bi.desc)).or_insert(MMethod { names: vec![Some(bi.name.clone()), Some(format!("namedBridge{k}"))], ..MMethod::default() });
			}
			// the bridge's own class has an entry for it as well, but one without a name (it only carries a comment): the name
			// still comes from the ancestor
			if decl != cal.map_class(&b.class) && d.pct(35) {
				if let Some(c) = named.classes.get_mut(&cal.map_class(&b.class)) {
					c.methods.entry(MemberKey::new(&bi.name, &bi.desc)).or_insert(MMethod { names: vec![Some(bi.name.clone()), None], doc: Some("own entry without a name".into()), ..MMethod::default() });
				}
			}
		}
		if d.pct(35) {
			if let Some(s) = refs.iter().next() {
				let si = to_i(s);
				if let Some(c) = named.classes.get_mut(&cal.map_class(&b.class)) {
					c.methods.entry(MemberKey::new(&si.name, &si.desc)).or_insert(MMethod { names: vec![Some(si.name.clone()), Some(format!("oldName{k}"))], doc: Some("kept".into()), ..MMethod::default() });
				}
			}
		}
	}

	// reference
	let mut expected = named.clone();
	let mut unclear: Vec<(String, MemberKey)> = Vec::new();
	let nm = RefRemapper::new(&named, 0, 1, &inh_i);
	let mut n_bridges = 0;
	let mut n_near = 0;
	let mut ref_pairs: BTreeMap<MRef, MRef> = BTreeMap::new();
	let mut unclear_bridges: BTreeSet<MRef> = BTreeSet::new();
	for (b, access, refs) in &built.candidates {
		let (verdict, s) = is_bridge(b, *access, refs, &in_jar, &inh);
		match verdict {
			Tri::No => n_near += 1,
			Tri::Yes | Tri::Unclear => {
				let s = s.unwrap();
				let (bi, si) = (to_i(b), to_i(&s));
				let (named_bridge, _) = nm.map_member(&bi.class, &bi.name, &bi.desc, true, Search::Dfs);
				let key = MemberKey::new(&si.name, &si.desc);
				if verdict == Tri::Unclear {
					unclear.push((bi.class.clone(), key));
					unclear_bridges.insert(b.clone());
					continue;
				}
				n_bridges += 1;
				ref_pairs.insert(b.clone(), s.clone());
				if let Some(c) = expected.classes.get_mut(&bi.class) {
					let e = c.methods.entry(key).or_default();
					e.names = vec![Some(si.name.clone()), Some(named_bridge)];
				}
			}
		}
	}

	// detection as such
	let found = main.get_specialized_methods().map_err(|e| format!("get_specialized_methods failed: {e:#}"))?;
	let got_pairs: BTreeMap<MRef, MRef> = found
		.bridge_to_specialized
		.iter()
		.map(|(b, s)| {
			let f = |m: &duke::tree::method::MethodRefObj| MRef { class: m.class.as_inner().to_string(), name: m.name.as_inner().to_string(), desc: m.desc.as_inner().to_string() };
			(f(b), f(s))
		})
		.filter(|(b, _)| !unclear_bridges.contains(b))
		.collect();
	if got_pairs != ref_pairs {
		return Err(format!("get_specialized_methods finds {got_pairs:?}, the statement's predicate gives {ref_pairs:?}"));
	}

	let qc = to_quill::<2, (Official, Intermediary)>(&calamus, 0).map_err(|e| format!("harness: {e:#}"))?;
	let qn = to_quill::<2, (Intermediary, Named)>(&named, 0).map_err(|e| format!("harness: {e:#}"))?;
	let out = add_specialized_methods_to_mappings(&main, &qc, &[lib], &qn).map_err(|e| format!("add_specialized_methods_to_mappings failed: {e:#}"))?;
	let mut got = from_quill(&out).map_err(|e| format!("harness: result not readable: {e:#}"))?;
	// entries whose bridge-ness the statement leaves open: take whatever the implementation did
	let mut exp = expected.clone();
	for (c, k) in &unclear {
		let g = got.classes.get(c).and_then(|x| x.methods.get(k)).cloned();
		if let Some(ec) = exp.classes.get_mut(c) {
			match g {
				Some(v) => {
					ec.methods.insert(k.clone(), v);
				}
				None => {
					ec.methods.remove(k);
				}
			}
		}
	}
	// the namespaces line is not part of the comparison of entries
	got.ns = exp.ns.clone();
	if got != exp {
		for (c, ec) in &exp.classes {
			let gc = got.classes.get(c);
			if gc != Some(ec) {
				return Err(format!("mappings after add_specialized_methods_to_mappings differ in class {c}: expected {ec:?}\n got {gc:?}"));
			}
		}
		return Err(format!("mappings after add_specialized_methods_to_mappings have classes {:?}, expected {:?}", got.classes.keys().collect::<Vec<_>>(), exp.classes.keys().collect::<Vec<_>>()));
	}
	obs.label(format!("bridges={}", n_bridges.min(3)));
	obs.label(format!("near_misses={}", n_near.min(3)));
	obs.label_if(!unclear.is_empty(), "unclear_compatibility_skipped");
	for (b, access, refs) in &built.candidates {
		let (v, _) = is_bridge(b, *access, refs, &in_jar, &inh);
		obs.label(format!("candidate:{}{}{}:{v:?}", if access & 0x1000 != 0 { "synthetic" } else { "plain" }, if access & 0x40 != 0 { "+bridgeflag" } else { "" }, if refs.len() == 1 { "" } else { "+not1call" }));
	}
	obs.nontrivial_if(n_bridges >= 1 && n_near >= 1);
	Ok(())
}

pub fn run(ctx: &mut Ctx) {
	crate::engine::silence_stderr();
	ctx.rule = "a main jar of five classes (A <- B <- C, D, interface I; A may extend a library class or a class outside every jar) with 1-5 generated delegate/synthetic pairs: the synthetic method's parameter and return types are position-wise equal / Object / a super type / an unrelated type / a type outside the jar, arity may differ; synthetic and bridge flags independently on or off; private / static / final; the body calls the delegate once, not at all, twice, together with another method, or a delegate in the super class; same or different names. calamus (official->intermediary) and named (intermediary->named) mapping sets name or do not name the classes, the bridges (in their class or in a super class) and the delegates. Oracle: the statement's predicate gives the bridge->delegate pairs (compared with get_specialized_methods) and a reference remapper gives the name of the bridge through inheritance; the produced mappings must equal the input plus exactly these entries (existing entries keep comment and parameters). Where a super type of the delegate's type lies outside the jar the statement does not decide compatibility and either outcome is accepted. Non-trivial = >=1 true bridge and >=1 near miss; distinct by case hash".into();
	ctx.assume("at most one bridge per delegate and class");
	ctx.assume("inheritance is acyclic");
	ctx.run_sub("bridges", ctx.tier.pick(96000, 1200000), strategy, check);
}
