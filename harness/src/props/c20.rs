//! C20 — raw_class_file reads and writes class files byte-exactly.
//!
//! (a) well-formed class bytes (harness encoder, all encodings): write(read(b)) == b, length() == |b|.
//! (b) raw values generated directly: read(write(v)) == v, |to_bytes()| == length(), and the written
//!     bytes are walked by an independent JVMS *layout* walker that checks every attribute_length and
//!     count width; well-formed written files are cross-read by the strict decoder and duke.

use crate::classfile::decode::decode;
use crate::classfile::encode::{encode, Choices, EncodeError};
use crate::classfile::gen::{choices, class_from_stream, class_stream};
use crate::classfile::model::*;
use crate::engine::{Ctx, Obs, PropResult};
use crate::mapmodel::gen::Draws;
use proptest::prelude::*;
use raw_class_file as raw;
use serde::{Deserialize, Serialize};
use std::io::Cursor;

// ---------------------------------------------------------------------------------------------
// independent layout walker (JVMS §4.1, §4.4, §4.7): uses only tags, counts and lengths

struct L<'a> {
	b: &'a [u8],
	p: usize,
}

type LR<T> = Result<T, String>;

impl<'a> L<'a> {
	fn u8(&mut self) -> LR<u8> {
		let v = *self.b.get(self.p).ok_or("unexpected end")?;
		self.p += 1;
		Ok(v)
	}
	fn u16(&mut self) -> LR<u16> {
		Ok((self.u8()? as u16) << 8 | self.u8()? as u16)
	}
	fn u32(&mut self) -> LR<u32> {
		Ok((self.u16()? as u32) << 16 | self.u16()? as u32)
	}
	fn skip(&mut self, n: usize) -> LR<()> {
		if self.p + n > self.b.len() {
			return Err(format!("need {n} bytes, {} left", self.b.len() - self.p));
		}
		self.p += n;
		Ok(())
	}
	fn take(&mut self, n: usize) -> LR<&'a [u8]> {
		if self.p + n > self.b.len() {
			return Err(format!("need {n} bytes, {} left", self.b.len() - self.p));
		}
		let s = &self.b[self.p..self.p + n];
		self.p += n;
		Ok(s)
	}
}

/// slot index -> utf8 bytes (None for other entries and the unusable slots)
fn walk_pool(l: &mut L) -> LR<Vec<Option<Vec<u8>>>> {
	let count = l.u16()? as usize;
	let mut slots: Vec<Option<Vec<u8>>> = vec![None];
	while slots.len() < count {
		let tag = l.u8()?;
		match tag {
			1 => {
				let n = l.u16()? as usize;
				slots.push(Some(l.take(n)?.to_vec()));
				continue;
			}
			3 | 4 => l.skip(4)?,
			5 | 6 => {
				l.skip(8)?;
				slots.push(None);
			}
			7 | 8 | 16 | 19 | 20 => l.skip(2)?,
			9 | 10 | 11 | 12 | 17 | 18 => l.skip(4)?,
			15 => l.skip(3)?,
			t => return Err(format!("constant pool tag {t} at slot {}", slots.len())),
		}
		slots.push(None);
	}
	if slots.len() != count {
		return Err(format!("constant_pool_count {count} but the entries occupy {} slots", slots.len()));
	}
	Ok(slots)
}

/// one verification_type_info (JVMS 4.7.4, table 4.7.4-A); returns what it means
fn walk_vti(l: &mut L) -> LR<String> {
	Ok(match l.u8()? {
		0 => "top".into(),
		1 => "int".into(),
		2 => "float".into(),
		3 => "double".into(),
		4 => "long".into(),
		5 => "null".into(),
		6 => "uninit_this".into(),
		7 => format!("object#{}", l.u16()?),
		8 => format!("uninit@{}", l.u16()?),
		t => return Err(format!("verification_type_info tag {t}")),
	})
}

fn raw_vti(v: &raw::VerificationTypeInfo) -> String {
	use raw::VerificationTypeInfo as V;
	match v {
		V::Top {} => "top".into(),
		V::Integer {} => "int".into(),
		V::Float {} => "float".into(),
		V::Double {} => "double".into(),
		V::Long {} => "long".into(),
		V::Null {} => "null".into(),
		V::UnintializedThis {} => "uninit_this".into(),
		V::Object { cpool_index } => format!("object#{cpool_index}"),
		V::Unintialized { offset } => format!("uninit@{offset}"),
	}
}

/// element values met by the file walker since the last `take`, by their JVMS meaning (table 4.7.16.1-A), in file order
thread_local! {
	static EV_SEEN: std::cell::RefCell<Vec<&'static str>> = const { std::cell::RefCell::new(Vec::new()) };
}

fn walk_element_value(l: &mut L, depth: usize) -> LR<()> {
	if depth > 2000 {
		return Err("element value too deep".into());
	}
	let tag = l.u8()?;
	let meaning = match tag {
		b'B' => "byte",
		b'C' => "char",
		b'D' => "double",
		b'F' => "float",
		b'I' => "int",
		b'J' => "long",
		b'S' => "short",
		b'Z' => "boolean",
		b's' => "String",
		b'e' => "enum",
		b'c' => "class",
		b'@' => "annotation",
		b'[' => "array",
		t => return Err(format!("element_value tag {t}")),
	};
	EV_SEEN.with(|s| s.borrow_mut().push(meaning));
	match tag {
		b'B' | b'C' | b'D' | b'F' | b'I' | b'J' | b'S' | b'Z' | b's' | b'c' => l.skip(2),
		b'e' => l.skip(4),
		b'@' => walk_annotation(l, depth + 1),
		_ => {
			for _ in 0..l.u16()? {
				walk_element_value(l, depth + 1)?;
			}
			Ok(())
		}
	}
}

/// constant pool entries by their JVMS meaning (table 4.4-B), in file order
fn file_pool_kinds(bytes: &[u8]) -> LR<Vec<&'static str>> {
	let mut l = L { b: bytes, p: 8 };
	let count = l.u16()? as usize;
	let mut out = Vec::new();
	let mut slot = 1;
	while slot < count {
		let (kind, len, slots) = match l.u8()? {
			1 => {
				let n = l.u16()? as usize;
				("Utf8", n, 1)
			}
			3 => ("Integer", 4, 1),
			4 => ("Float", 4, 1),
			5 => ("Long", 8, 2),
			6 => ("Double", 8, 2),
			7 => ("Class", 2, 1),
			8 => ("String", 2, 1),
			9 => ("Fieldref", 4, 1),
			10 => ("Methodref", 4, 1),
			11 => ("InterfaceMethodref", 4, 1),
			12 => ("NameAndType", 4, 1),
			15 => ("MethodHandle", 3, 1),
			16 => ("MethodType", 2, 1),
			17 => ("Dynamic", 4, 1),
			18 => ("InvokeDynamic", 4, 1),
			19 => ("Module", 2, 1),
			20 => ("Package", 2, 1),
			t => return Err(format!("constant pool tag {t}")),
		};
		l.skip(len)?;
		out.push(kind);
		slot += slots;
	}
	Ok(out)
}

fn raw_pool_kinds(v: &raw::ClassFile) -> Vec<&'static str> {
	use raw::CpInfo as C;
	v.constant_pool
		.iter()
		.map(|e| match e {
			C::Class { .. } => "Class",
			C::Fieldref { .. } => "Fieldref",
			C::Methodref { .. } => "Methodref",
			C::InterfaceMethodref { .. } => "InterfaceMethodref",
			C::String { .. } => "String",
			C::Integer { .. } => "Integer",
			C::Float { .. } => "Float",
			C::Long { .. } => "Long",
			C::Double { .. } => "Double",
			C::NameAndType { .. } => "NameAndType",
			C::Utf8 { .. } => "Utf8",
			C::MethodHandle { .. } => "MethodHandle",
			C::MethodType { .. } => "MethodType",
			C::Dynamic { .. } => "Dynamic",
			C::InvokeDynamic { .. } => "InvokeDynamic",
			C::Module { .. } => "Module",
			C::Package { .. } => "Package",
		})
		.collect()
}

/// element values of a raw value by the meaning of their variant, in file order
fn raw_element_values(v: &raw::ClassFile) -> Vec<&'static str> {
	use raw::ElementValue as E;
	fn ev(e: &E, out: &mut Vec<&'static str>) {
		match e {
			E::Byte { .. } => out.push("byte"),
			E::Char { .. } => out.push("char"),
			E::Double { .. } => out.push("double"),
			E::Float { .. } => out.push("float"),
			E::Integer { .. } => out.push("int"),
			E::Long { .. } => out.push("long"),
			E::Short { .. } => out.push("short"),
			E::Boolean { .. } => out.push("boolean"),
			E::String { .. } => out.push("String"),
			E::Enum { .. } => out.push("enum"),
			E::Class { .. } => out.push("class"),
			E::Annotation { annotation_value } => {
				out.push("annotation");
				ann(annotation_value, out);
			}
			E::Array { values } => {
				out.push("array");
				values.iter().for_each(|x| ev(x, out));
			}
		}
	}
	fn ann(a: &raw::Annotation, out: &mut Vec<&'static str>) {
		a.element_value_pairs.iter().for_each(|p| ev(&p.value, out));
	}
	fn walk(list: &[raw::AttributeInfo], out: &mut Vec<&'static str>) {
		use raw::AttributeInfo as A;
		for a in list {
			match a {
				A::Code { attributes, .. } => walk(attributes, out),
				A::Record { components, .. } => components.iter().for_each(|c| walk(&c.attributes, out)),
				A::RuntimeVisibleAnnotations { annotations, .. } | A::RuntimeInvisibleAnnotations { annotations, .. } => annotations.iter().for_each(|x| ann(x, out)),
				A::RuntimeVisibleParameterAnnotations { parameter_annotations, .. } | A::RuntimeInvisibleParameterAnnotations { parameter_annotations, .. } => {
					parameter_annotations.iter().for_each(|p| p.annotations.iter().for_each(|x| ann(x, out)))
				}
				A::AnnotationDefault { default_value, .. } => ev(default_value, out),
				_ => {}
			}
		}
	}
	let mut out = Vec::new();
	v.fields.iter().for_each(|f| walk(&f.attributes, &mut out));
	v.methods.iter().for_each(|f| walk(&f.attributes, &mut out));
	walk(&v.attributes, &mut out);
	out
}

/// tagged unions whose alternatives have the same size (constant pool entries, element values): a reader and a writer that
/// swap two tags consistently keep every round trip and every length; only the meaning of the bytes differs from the value
fn tags_agree(v: &raw::ClassFile, bytes: &[u8], obs: &mut Obs) -> PropResult {
	EV_SEEN.with(|s| s.borrow_mut().clear());
	let walked = walk_layout(bytes);
	let file_evs: Vec<&'static str> = EV_SEEN.with(|s| std::mem::take(&mut *s.borrow_mut()));
	let Ok(file_pool) = file_pool_kinds(bytes) else { return Ok(()) };
	let value_pool = raw_pool_kinds(v);
	if value_pool != file_pool {
		let k = value_pool.iter().zip(file_pool.iter()).position(|(a, b)| a != b).unwrap_or(value_pool.len().min(file_pool.len()));
		return Err(format!("constant pool entry #{}: the raw value says {:?}, the bytes say {:?} to a JVMS reader", k + 1, value_pool.get(k), file_pool.get(k)));
	}
	obs.label("pool_meaning_checked");
	if walked.is_ok() {
		let value_evs = raw_element_values(v);
		if value_evs != file_evs {
			let k = value_evs.iter().zip(file_evs.iter()).position(|(a, b)| a != b).unwrap_or(value_evs.len().min(file_evs.len()));
			return Err(format!("element value #{k}: the raw value says {:?}, the bytes say {:?} to a JVMS reader ({} in the value, {} in the file)", value_evs.get(k), file_evs.get(k), value_evs.len(), file_evs.len()));
		}
		obs.label_if(!value_evs.is_empty(), "element_value_meaning_checked");
	}
	Ok(())
}

fn walk_annotation(l: &mut L, depth: usize) -> LR<()> {
	l.skip(2)?;
	for _ in 0..l.u16()? {
		l.skip(2)?;
		walk_element_value(l, depth + 1)?;
	}
	Ok(())
}

fn walk_attributes(l: &mut L, pool: &[Option<Vec<u8>>], where_: &str, seen: &mut Vec<String>) -> LR<()> {
	let n = l.u16()?;
	for _ in 0..n {
		let name_index = l.u16()? as usize;
		let len = l.u32()? as usize;
		let body = l.take(len).map_err(|e| format!("{where_}: attribute #{name_index} with attribute_length {len}: {e}"))?;
		let name = pool.get(name_index).and_then(|x| x.clone()).ok_or_else(|| format!("{where_}: attribute_name_index {name_index} is not a Utf8 entry"))?;
		let name = String::from_utf8_lossy(&name).to_string();
		seen.push(name.clone());
		let mut b = L { b: body, p: 0 };
		walk_attribute(&name, &mut b, pool, seen).map_err(|e| format!("{where_}: attribute {name} (attribute_length {len}): {e}"))?;
		if b.p != body.len() {
			return Err(format!("{where_}: attribute {name}: attribute_length is {len} but the JVMS layout of its content takes {} bytes", b.p));
		}
	}
	Ok(())
}

fn walk_attribute(name: &str, b: &mut L, pool: &[Option<Vec<u8>>], seen: &mut Vec<String>) -> LR<()> {
	match name {
		"ConstantValue" | "Signature" | "SourceFile" | "ModuleMainClass" | "NestHost" => b.skip(2),
		"Synthetic" | "Deprecated" => Ok(()),
		"EnclosingMethod" => b.skip(4),
		"Code" => {
			b.skip(4)?;
			let n = b.u32()? as usize;
			b.skip(n)?;
			let e = b.u16()? as usize;
			b.skip(8 * e)?;
			walk_attributes(b, pool, "Code", seen)
		}
		"StackMapTable" => {
			// the meaning of each frame per JVMS 4.7.4 is recorded (prefixed FRAME) for the comparison with the raw value
			for _ in 0..b.u16()? {
				match b.u8()? {
					t @ 0..=63 => seen.push(format!("{FRAME}same delta={t}")),
					t @ 64..=127 => {
						let v = walk_vti(b)?;
						seen.push(format!("{FRAME}same_locals_1_stack_item delta={} [{v}]", t - 64));
					}
					247 => {
						let d = b.u16()?;
						let v = walk_vti(b)?;
						seen.push(format!("{FRAME}same_locals_1_stack_item_extended delta={d} [{v}]"));
					}
					t @ 248..=250 => {
						let d = b.u16()?;
						seen.push(format!("{FRAME}chop k={} delta={d}", 251 - t));
					}
					251 => {
						let d = b.u16()?;
						seen.push(format!("{FRAME}same_extended delta={d}"));
					}
					t @ 252..=254 => {
						let d = b.u16()?;
						let mut vs = Vec::new();
						for _ in 0..(t - 251) {
							vs.push(walk_vti(b)?);
						}
						seen.push(format!("{FRAME}append locals={} delta={d} [{}]", t - 251, vs.join(",")));
					}
					255 => {
						let d = b.u16()?;
						let nl = b.u16()?;
						let mut vl = Vec::new();
						for _ in 0..nl {
							vl.push(walk_vti(b)?);
						}
						let ns = b.u16()?;
						let mut vs = Vec::new();
						for _ in 0..ns {
							vs.push(walk_vti(b)?);
						}
						seen.push(format!("{FRAME}full locals={nl} stack={ns} delta={d} [{}|{}]", vl.join(","), vs.join(",")));
					}
					t => return Err(format!("reserved frame_type {t}")),
				}
			}
			Ok(())
		}
		"Exceptions" | "ModulePackages" | "NestMembers" | "PermittedSubclasses" => {
			let n = b.u16()? as usize;
			b.skip(2 * n)
		}
		"InnerClasses" => {
			let n = b.u16()? as usize;
			b.skip(8 * n)
		}
		"LineNumberTable" => {
			let n = b.u16()? as usize;
			b.skip(4 * n)
		}
		"LocalVariableTable" | "LocalVariableTypeTable" => {
			let n = b.u16()? as usize;
			b.skip(10 * n)
		}
		"RuntimeVisibleAnnotations" | "RuntimeInvisibleAnnotations" => {
			for _ in 0..b.u16()? {
				walk_annotation(b, 0)?;
			}
			Ok(())
		}
		"RuntimeVisibleParameterAnnotations" | "RuntimeInvisibleParameterAnnotations" => {
			for _ in 0..b.u8()? {
				for _ in 0..b.u16()? {
					walk_annotation(b, 0)?;
				}
			}
			Ok(())
		}
		"AnnotationDefault" => walk_element_value(b, 0),
		"BootstrapMethods" => {
			for _ in 0..b.u16()? {
				b.skip(2)?;
				let n = b.u16()? as usize;
				b.skip(2 * n)?;
			}
			Ok(())
		}
		"MethodParameters" => {
			// JVMS §4.7.24: u1 parameters_count
			let n = b.u8()? as usize;
			b.skip(4 * n)
		}
		"Module" => {
			b.skip(6)?;
			let n = b.u16()? as usize;
			b.skip(6 * n)?;
			for _ in 0..2 {
				for _ in 0..b.u16()? {
					b.skip(4)?;
					let n = b.u16()? as usize;
					b.skip(2 * n)?;
				}
			}
			let n = b.u16()? as usize;
			b.skip(2 * n)?;
			for _ in 0..b.u16()? {
				b.skip(2)?;
				let n = b.u16()? as usize;
				b.skip(2 * n)?;
			}
			Ok(())
		}
		"Record" => {
			for _ in 0..b.u16()? {
				b.skip(4)?;
				walk_attributes(b, pool, "record component", seen)?;
			}
			Ok(())
		}
		_ => {
			// SourceDebugExtension, type annotations, unknown: opaque
			b.p = b.b.len();
			Ok(())
		}
	}
}

const FRAME: &str = "\u{1}frame ";

/// walks a whole class file; returns the attribute names met
pub fn walk_layout(bytes: &[u8]) -> LR<Vec<String>> {
	Ok(walk_layout_frames(bytes)?.0)
}

/// the meaning of every stack map frame of a raw value, in file order (fields, methods, class; nested attributes in place)
pub fn raw_frames(v: &raw::ClassFile) -> Vec<String> {
	use raw::StackMapFrame as F;
	fn walk(list: &[raw::AttributeInfo], out: &mut Vec<String>) {
		for a in list {
			match a {
				raw::AttributeInfo::Code { attributes, .. } => walk(attributes, out),
				raw::AttributeInfo::Record { components, .. } => components.iter().for_each(|c| walk(&c.attributes, out)),
				raw::AttributeInfo::StackMapTable { entries, .. } => {
					for f in entries {
						out.push(match f {
							F::SameFrame { offset_delta } => format!("same delta={offset_delta}"),
							F::SameLocals1StackItemFrame { offset_delta, stack } => format!("same_locals_1_stack_item delta={offset_delta} [{}]", raw_vti(stack)),
							F::SameLocals1StackItemFrameExtended { offset_delta, stack } => format!("same_locals_1_stack_item_extended delta={offset_delta} [{}]", raw_vti(stack)),
							F::ChopFrame { k, offset_delta } => format!("chop k={k} delta={offset_delta}"),
							F::SameFrameExtended { offset_delta } => format!("same_extended delta={offset_delta}"),
							F::AppendFrame { offset_delta, locals } => format!("append locals={} delta={offset_delta} [{}]", locals.len(), locals.iter().map(raw_vti).collect::<Vec<_>>().join(",")),
							F::FullFrame { offset_delta, locals, stack } => format!(
								"full locals={} stack={} delta={offset_delta} [{}|{}]",
								locals.len(),
								stack.len(),
								locals.iter().map(raw_vti).collect::<Vec<_>>().join(","),
								stack.iter().map(raw_vti).collect::<Vec<_>>().join(",")
							),
						});
					}
				}
				_ => {}
			}
		}
	}
	let mut out = Vec::new();
	v.fields.iter().for_each(|f| walk(&f.attributes, &mut out));
	v.methods.iter().for_each(|f| walk(&f.attributes, &mut out));
	walk(&v.attributes, &mut out);
	out
}

/// the frames of the file must mean (JVMS 4.7.4: kind, offset_delta, number of chopped / appended locals) what the raw value says
fn frames_agree(v: &raw::ClassFile, file_frames: &[String], obs: &mut Obs) -> PropResult {
	let value_frames = raw_frames(v);
	if value_frames != file_frames {
		let k = value_frames.iter().zip(file_frames.iter()).position(|(a, b)| a != b).unwrap_or(value_frames.len().min(file_frames.len()));
		return Err(format!(
			"stack map frame #{k}: the raw value says {:?}, the bytes say {:?} to a JVMS reader ({} frames in the value, {} in the file)",
			value_frames.get(k),
			file_frames.get(k),
			value_frames.len(),
			file_frames.len()
		));
	}
	for f in &value_frames {
		obs.label(format!("frame_meaning_checked:{}", f.split(' ').next().unwrap_or("")));
	}
	Ok(())
}

/// as walk_layout; also returns the meaning of every stack map frame in file order
pub fn walk_layout_frames(bytes: &[u8]) -> LR<(Vec<String>, Vec<String>)> {
	let mut l = L { b: bytes, p: 0 };
	if l.u32()? != 0xCAFEBABE {
		return Err("magic".into());
	}
	l.skip(4)?;
	let pool = walk_pool(&mut l)?;
	l.skip(6)?;
	let n = l.u16()? as usize;
	l.skip(2 * n)?;
	let mut seen = Vec::new();
	for what in ["field", "method"] {
		for i in 0..l.u16()? {
			l.skip(6)?;
			walk_attributes(&mut l, &pool, &format!("{what} {i}"), &mut seen)?;
		}
	}
	walk_attributes(&mut l, &pool, "class", &mut seen)?;
	if l.p != bytes.len() {
		return Err(format!("{} bytes after the class file", bytes.len() - l.p));
	}
	let (frames, names): (Vec<String>, Vec<String>) = seen.into_iter().partition(|x| x.starts_with(FRAME));
	Ok((names, frames.into_iter().map(|f| f[FRAME.len()..].to_string()).collect()))
}

fn pool_has_wide(bytes: &[u8]) -> bool {
	// tags of the pool (layout only)
	let mut l = L { b: bytes, p: 8 };
	let Ok(count) = l.u16() else { return false };
	let mut i = 1;
	while i < count as usize {
		let Ok(tag) = l.u8() else { return false };
		let r = match tag {
			1 => l.u16().and_then(|n| l.skip(n as usize)),
			3 | 4 => l.skip(4),
			5 | 6 => return true,
			7 | 8 | 16 | 19 | 20 => l.skip(2),
			9 | 10 | 11 | 12 | 17 | 18 => l.skip(4),
			15 => l.skip(3),
			_ => return false,
		};
		if r.is_err() {
			return false;
		}
		i += 1;
	}
	false
}

// ---------------------------------------------------------------------------------------------
// (a) well-formed bytes

#[derive(Clone, Debug, Serialize, Deserialize)]
pub struct BytesCase {
	pub stream: Vec<u8>,
	pub ch: Choices,
	/// replace long/double constants by int/float ones (keeps the case outside the open finding)
	pub strip_wide: bool,
	/// an attribute payload around / beyond 64 KiB (gen::add_big_attribute); 0 = none
	#[serde(default)]
	pub big: u32,
}

fn strip_wide_consts(c: &mut CClass) {
	fn k(c: &mut Const) {
		match c {
			Const::Long(v) => *c = Const::Int(*v as i32),
			Const::Double(v) => *c = Const::Float(*v as u32),
			Const::Dynamic { bsm, .. } => bsm.args.iter_mut().for_each(k),
			_ => {}
		}
	}
	fn ev(e: &mut ElementValue) {
		match e {
			ElementValue::Long(v) => *e = ElementValue::Int(*v as i32),
			ElementValue::Double(v) => *e = ElementValue::Float(*v as u32),
			ElementValue::Annotation(a) => a.pairs.iter_mut().for_each(|(_, v)| ev(v)),
			ElementValue::Array(v) => v.iter_mut().for_each(ev),
			_ => {}
		}
	}
	fn attrs(list: &mut [Attr]) {
		for a in list {
			match a {
				Attr::ConstantValue(c) => k(c),
				Attr::Code(code) => {
					for i in code.insns.iter_mut() {
						match i {
							Insn::Ldc(c) => k(c),
							Insn::InvokeDynamic { bsm, .. } => bsm.args.iter_mut().for_each(k),
							_ => {}
						}
					}
					attrs(&mut code.attrs);
				}
				Attr::Annotations { list, .. } => list.iter_mut().for_each(|a| a.pairs.iter_mut().for_each(|(_, v)| ev(v))),
				Attr::TypeAnnotations { list, .. } => list.iter_mut().for_each(|a| a.annotation.pairs.iter_mut().for_each(|(_, v)| ev(v))),
				Attr::ParameterAnnotations { params, .. } => params.iter_mut().flatten().for_each(|a| a.pairs.iter_mut().for_each(|(_, v)| ev(v))),
				Attr::AnnotationDefault(v) => ev(v),
				Attr::Record(rc) => rc.iter_mut().for_each(|r| attrs(&mut r.attrs)),
				_ => {}
			}
		}
	}
	attrs(&mut c.attrs);
	for m in c.fields.iter_mut().chain(c.methods.iter_mut()) {
		attrs(&mut m.attrs);
	}
}

fn first_byte_diff(a: &[u8], b: &[u8]) -> String {
	let n = a.iter().zip(b.iter()).position(|(x, y)| x != y).unwrap_or(a.len().min(b.len()));
	format!("first difference at byte {n} (input has {} bytes, output {}): input ..{:02x?}.. output ..{:02x?}..", a.len(), b.len(), &a[n.saturating_sub(4)..(n + 8).min(a.len())], &b[n.saturating_sub(4)..(n + 8).min(b.len())])
}

/// `ClassFile::write` into a sink with short writes must deliver every byte it announces
fn written_through_short_writes(v: &raw::ClassFile, expect: &[u8]) -> PropResult {
	let mut d = crate::engine::ShortWrites::new();
	v.write(&mut d).map_err(|e| format!("write into a sink with short writes failed: {e}"))?;
	if d.out != expect {
		return Err(format!("write() into a sink that takes 1..7 bytes per call delivered {} of the {} bytes it announces", d.out.len(), expect.len()));
	}
	// and the same bytes read from a source with short reads give the same value
	match raw::ClassFile::read(&mut crate::engine::ShortReads::new(expect)) {
		Ok(back) if back == *v => Ok(()),
		Ok(_) => Err("read() from a source that hands out 1..5 bytes per call gives another value than read() from a slice".into()),
		Err(e) => Err(format!("read() from a source that hands out 1..5 bytes per call fails: {e}")),
	}
}

pub fn bytes_roundtrip(bytes: &[u8], obs: &mut Obs) -> PropResult {
	let wide = pool_has_wide(bytes);
	obs.label_if(wide, "pool_with_long/double");
	let v = match raw::ClassFile::read(&mut Cursor::new(bytes)) {
		Ok(v) => v,
		Err(e) => {
			if wide && obs.known("C20-long-double-pool-slots") {
				return Ok(());
			}
			return Err(format!("raw_class_file::ClassFile::read rejects a well-formed class file: {e}"));
		}
	};
	// history: a write into a sink that gives up half way (a buffer that is too small) must leave nothing behind that
	// shows up in the next write
	{
		let mut small = vec![0u8; bytes.len() / 2];
		let mut sink: &mut [u8] = &mut small[..];
		let _ = v.write(&mut sink);
	}
	let mut out = Vec::new();
	v.write(&mut out).map_err(|e| format!("write failed: {e}"))?;
	if out != bytes {
		if wide && obs.known("C20-long-double-pool-slots") {
			return Ok(());
		}
		return Err(format!("write(read(b)) != b: {}", first_byte_diff(bytes, &out)));
	}
	if v.length() != bytes.len() {
		return Err(format!("length() = {} but the file has {} bytes", v.length(), bytes.len()));
	}
	let tb = v.to_bytes();
	if tb != out {
		return Err("to_bytes() and write() disagree".into());
	}
	if out.len() < 20000 {
		written_through_short_writes(&v, &out)?;
	}
	// With a Long/Double in the pool the crate numbers entries where the JVMS numbers slots (open finding): a file it reads
	// at all - it then takes the bytes behind the pool for further constants - may even be written back byte for byte, but
	// the value does not mean what the bytes mean. Exactly that deviation is the recorded one.
	let meaning = match walk_layout_frames(bytes) {
		Ok((_, file_frames)) => frames_agree(&v, &file_frames, obs),
		Err(_) => Ok(()),
	}
	.and_then(|_| tags_agree(&v, bytes, obs));
	if let Err(e) = meaning {
		if wide && obs.known("C20-long-double-pool-slots") {
			return Ok(());
		}
		return Err(e);
	}
	Ok(())
}

fn wellformed(case: &BytesCase, obs: &mut Obs) -> PropResult {
	let mut model = class_from_stream(&case.stream, 4, 30);
	for l in crate::classfile::gen::apply_big(&mut model, case.big, usize::MAX) {
		obs.label(l);
	}
	let mut ch = case.ch.clone();
	if case.strip_wide {
		strip_wide_consts(&mut model);
		ch.junk_pool = 0;
	}
	let enc = match encode(&model, &ch) {
		Ok(e) => e,
		Err(EncodeError::BranchTooFar { .. }) | Err(EncodeError::CodeTooLarge(_)) | Err(EncodeError::PoolTooLarge) => {
			obs.label("not_encodable");
			return Ok(());
		}
		Err(e) => return Err(format!("harness: encoder failed: {e:?}")),
	};
	bytes_roundtrip(&enc.bytes, obs)?;
	let names = walk_layout(&enc.bytes).map_err(|e| format!("harness: layout walker rejects encoder output: {e}"))?;
	let mut kinds: Vec<String> = names.into_iter().collect();
	kinds.sort();
	kinds.dedup();
	let n_kinds = kinds.len();
	for k in kinds {
		obs.label(format!("attr:{}", if MODELLED.contains(&k.as_str()) { k } else { "(other)".to_string() }));
	}
	obs.nontrivial_if(model.codes().next().is_some() && n_kinds >= 3);
	Ok(())
}

const MODELLED: &[&str] = &[
	"ConstantValue", "Code", "StackMapTable", "Exceptions", "InnerClasses", "EnclosingMethod", "Synthetic", "Signature", "SourceFile", "SourceDebugExtension", "LineNumberTable", "LocalVariableTable", "LocalVariableTypeTable",
	"Deprecated", "RuntimeVisibleAnnotations", "RuntimeInvisibleAnnotations", "RuntimeVisibleParameterAnnotations", "RuntimeInvisibleParameterAnnotations", "AnnotationDefault", "BootstrapMethods", "MethodParameters", "Module",
	"ModulePackages", "ModuleMainClass", "NestHost", "NestMembers", "Record", "PermittedSubclasses",
];

// ---------------------------------------------------------------------------------------------
// (b) raw values

struct RG<'a, 'b> {
	d: &'b mut Draws<'a>,
	/// number of pool slots (for index generation)
	wide: bool,
}

impl RG<'_, '_> {
	fn u16(&mut self) -> u16 {
		match self.d.next() % 5 {
			0 => 0,
			1 => 0xffff,
			2 => self.d.next() as u16,
			_ => (self.d.next() as u16) << 8 | self.d.next() as u16,
		}
	}
	fn u32(&mut self) -> u32 {
		(self.u16() as u32) << 16 | self.u16() as u32
	}
	fn n(&mut self, max: usize) -> usize {
		let v = self.d.next() as usize;
		if v < 100 {
			0
		} else {
			1 + (v - 100) % max
		}
	}
	fn vec16(&mut self, max: usize) -> Vec<u16> {
		(0..self.n(max)).map(|_| self.u16()).collect()
	}
	fn bytes(&mut self, max: usize) -> Vec<u8> {
		(0..self.n(max)).map(|_| self.d.next()).collect()
	}
	fn vti(&mut self) -> raw::VerificationTypeInfo {
		use raw::VerificationTypeInfo as V;
		match self.d.next() % 9 {
			0 => V::Top {},
			1 => V::Integer {},
			2 => V::Float {},
			3 => V::Null {},
			4 => V::UnintializedThis {},
			5 => V::Object { cpool_index: self.u16() },
			6 => V::Unintialized { offset: self.u16() },
			7 => V::Long {},
			_ => V::Double {},
		}
	}
	fn frame(&mut self) -> raw::StackMapFrame {
		use raw::StackMapFrame as F;
		match self.d.next() % 7 {
			0 => F::SameFrame { offset_delta: self.d.next() % 64 },
			1 => F::SameLocals1StackItemFrame { offset_delta: self.d.next() % 64, stack: self.vti() },
			2 => F::SameLocals1StackItemFrameExtended { offset_delta: self.u16(), stack: self.vti() },
			3 => F::ChopFrame { k: 1 + self.d.next() % 3, offset_delta: self.u16() },
			4 => F::SameFrameExtended { offset_delta: self.u16() },
			5 => {
				let k = 1 + self.d.next() % 3;
				F::AppendFrame { offset_delta: self.u16(), locals: (0..k).map(|_| self.vti()).collect() }
			}
			_ => F::FullFrame { offset_delta: self.u16(), locals: (0..self.n(3)).map(|_| self.vti()).collect(), stack: (0..self.n(3)).map(|_| self.vti()).collect() },
		}
	}
	fn element_value(&mut self, depth: usize) -> raw::ElementValue {
		use raw::ElementValue as E;
		let i = self.u16();
		match self.d.next() % if depth >= 3 { 11 } else { 13 } {
			0 => E::Byte { const_value_index: i },
			1 => E::Char { const_value_index: i },
			2 => E::Double { const_value_index: i },
			3 => E::Float { const_value_index: i },
			4 => E::Integer { const_value_index: i },
			5 => E::Long { const_value_index: i },
			6 => E::Short { const_value_index: i },
			7 => E::Boolean { const_value_index: i },
			8 => E::String { const_value_index: i },
			9 => E::Enum { type_name_index: i, const_name_index: self.u16() },
			10 => E::Class { class_info_index: i },
			11 => E::Annotation { annotation_value: self.annotation(depth + 1) },
			_ => E::Array { values: (0..self.n(3)).map(|_| self.element_value(depth + 1)).collect() },
		}
	}
	fn annotation(&mut self, depth: usize) -> raw::Annotation {
		raw::Annotation { type_index: self.u16(), element_value_pairs: (0..self.n(3)).map(|_| raw::ElementValuePairsEntry { element_name_index: self.u16(), value: self.element_value(depth + 1) }).collect() }
	}
	fn annotations(&mut self) -> Vec<raw::Annotation> {
		(0..self.n(3)).map(|_| self.annotation(0)).collect()
	}
	/// `names`: attribute name -> pool index (1-based slot == vec position + 1, no wide entries before them)
	fn attribute(&mut self, depth: usize) -> raw::AttributeInfo {
		use raw::AttributeInfo as A;
		let kind = (self.d.next() as usize) % (MODELLED.len() + 2);
		let ni = |k: usize| (k + 1) as u16;
		if kind >= MODELLED.len() {
			// unknown attribute: name is one of the two extra utf8 entries
			return A::Other { attribute_name_index: ni(kind), info: self.bytes(12) };
		}
		let attribute_name_index = ni(kind);
		match MODELLED[kind] {
			"ConstantValue" => A::ConstantValue { attribute_name_index, constantvalue_index: self.u16() },
			"Code" => A::Code {
				attribute_name_index,
				max_stack: self.u16(),
				max_locals: self.u16(),
				code: self.bytes(20),
				exception_table: (0..self.n(3)).map(|_| raw::ExceptionTableEntry { start_pc: self.u16(), end_pc: self.u16(), handler_pc: self.u16(), catch_type: self.u16() }).collect(),
				attributes: if depth >= 2 { vec![] } else { (0..self.n(4)).map(|_| self.attribute(depth + 1)).collect() },
			},
			"StackMapTable" => A::StackMapTable { attribute_name_index, entries: (0..self.n(5)).map(|_| self.frame()).collect() },
			"Exceptions" => A::Exceptions { attribute_name_index, exception_index_table: self.vec16(4) },
			"InnerClasses" => A::InnerClasses {
				attribute_name_index,
				classes: (0..self.n(3)).map(|_| raw::InnerClassesEntry { inner_class_info_index: self.u16(), outer_class_info_index: self.u16(), inner_name_index: self.u16(), inner_class_access_flags: self.u16() }).collect(),
			},
			"EnclosingMethod" => A::EnclosingMethod { attribute_name_index, class_index: self.u16(), method_index: self.u16() },
			"Synthetic" => A::Synthetic { attribute_name_index },
			"Signature" => A::Signature { attribute_name_index, signature_index: self.u16() },
			"SourceFile" => A::SourceFile { attribute_name_index, sourcefile_index: self.u16() },
			"SourceDebugExtension" => A::SourceDebugExtension { attribute_name_index, debug_extension: self.bytes(10) },
			"LineNumberTable" => A::LineNumberTable { attribute_name_index, line_number_table: (0..self.n(4)).map(|_| raw::LineNumberTableEntry { start_pc: self.u16(), line_number: self.u16() }).collect() },
			"LocalVariableTable" => A::LocalVariableTable {
				attribute_name_index,
				local_variable_table: (0..self.n(3)).map(|_| raw::LocalVariableTableEntry { start_pc: self.u16(), length: self.u16(), name_index: self.u16(), descriptor_index: self.u16(), index: self.u16() }).collect(),
			},
			"LocalVariableTypeTable" => A::LocalVariableTypeTable {
				attribute_name_index,
				local_variable_type_table: (0..self.n(3)).map(|_| raw::LocalVariableTypeTableEntry { start_pc: self.u16(), length: self.u16(), name_index: self.u16(), signature_index: self.u16(), index: self.u16() }).collect(),
			},
			"Deprecated" => A::Deprecated { attribute_name_index },
			"RuntimeVisibleAnnotations" => A::RuntimeVisibleAnnotations { attribute_name_index, annotations: self.annotations() },
			"RuntimeInvisibleAnnotations" => A::RuntimeInvisibleAnnotations { attribute_name_index, annotations: self.annotations() },
			"RuntimeVisibleParameterAnnotations" => A::RuntimeVisibleParameterAnnotations { attribute_name_index, parameter_annotations: (0..self.n(3)).map(|_| raw::ParameterAnnotationEntry { annotations: self.annotations() }).collect() },
			"RuntimeInvisibleParameterAnnotations" => A::RuntimeInvisibleParameterAnnotations { attribute_name_index, parameter_annotations: (0..self.n(3)).map(|_| raw::ParameterAnnotationEntry { annotations: self.annotations() }).collect() },
			"AnnotationDefault" => A::AnnotationDefault { attribute_name_index, default_value: self.element_value(0) },
			"BootstrapMethods" => A::BootstrapMethods { attribute_name_index, bootstrap_methods: (0..self.n(3)).map(|_| raw::BootstrapMethodsEntry { bootstrap_method_ref: self.u16(), boostrap_arguments: self.vec16(3) }).collect() },
			"MethodParameters" => A::MethodParameters { attribute_name_index, parameters: (0..self.n(4)).map(|_| raw::MethodParametersEntry { name_index: self.u16(), access_flags: self.u16() }).collect() },
			"Module" => A::Module {
				attribute_name_index,
				module_name_index: self.u16(),
				module_flags: self.u16(),
				module_version_index: self.u16(),
				requires: (0..self.n(3)).map(|_| raw::ModuleRequiresEntry { requires_index: self.u16(), requires_flags: self.u16(), requires_version_index: self.u16() }).collect(),
				exports: (0..self.n(3)).map(|_| raw::ModuleExportsEntry { exports_index: self.u16(), exports_flags: self.u16(), exports_to_index: self.vec16(3) }).collect(),
				opens: (0..self.n(3)).map(|_| raw::ModuleOpensEntry { opens_index: self.u16(), opens_flags: self.u16(), opens_to_index: self.vec16(3) }).collect(),
				uses_index: self.vec16(3),
				provides: (0..self.n(3)).map(|_| raw::ModuleProvidesEntry { provides_index: self.u16(), provides_with_index: self.vec16(3) }).collect(),
			},
			"ModulePackages" => A::ModulePackages { attribute_name_index, package_index: self.vec16(4) },
			"ModuleMainClass" => A::ModuleMainClass { attribute_name_index, main_class_index: self.u16() },
			"NestHost" => A::NestHost { attribute_name_index, host_class_index: self.u16() },
			"NestMembers" => A::NestMembers { attribute_name_index, classes: self.vec16(4) },
			"Record" => A::Record {
				attribute_name_index,
				components: (0..self.n(3))
					.map(|_| raw::RecordComponentInfo { name_index: self.u16(), descriptor_index: self.u16(), attributes: if depth >= 2 { vec![] } else { (0..self.n(3)).map(|_| self.attribute(depth + 1)).collect() } })
					.collect(),
			},
			"PermittedSubclasses" => A::PermittedSubclasses { attribute_name_index, classes: self.vec16(4) },
			_ => unreachable!(),
		}
	}
	fn cp(&mut self) -> raw::CpInfo {
		use raw::CpInfo as C;
		let (a, b) = (self.u16(), self.u16());
		match self.d.next() % if self.wide { 17 } else { 15 } {
			0 => C::Class { name_index: a },
			1 => C::Fieldref { class_index: a, name_and_type_index: b },
			2 => C::Methodref { class_index: a, name_and_type_index: b },
			3 => C::InterfaceMethodref { class_index: a, name_and_type_index: b },
			4 => C::String { string_index: a },
			5 => C::Integer { bytes: self.u32() },
			6 => C::Float { bytes: self.u32() },
			7 => C::NameAndType { name_index: a, descriptor_index: b },
			8 => C::Utf8 { bytes: self.bytes(12) },
			9 => C::MethodHandle { reference_kind: self.d.next(), reference_index: a },
			10 => C::MethodType { descriptor_index: a },
			11 => C::Dynamic { bootstrap_method_attr_index: a, name_and_type_index: b },
			12 => C::InvokeDynamic { bootstrap_method_attr_index: a, name_and_type_index: b },
			13 => C::Module { name_index: a },
			14 => C::Package { name_index: a },
			15 => C::Long { high_bytes: self.u32(), low_bytes: self.u32() },
			_ => C::Double { high_bytes: self.u32(), low_bytes: self.u32() },
		}
	}
}

pub fn raw_from_stream(stream: &[u8], wide: bool) -> raw::ClassFile {
	let mut d = Draws::new(stream);
	let mut g = RG { d: &mut d, wide };
	// attribute names first (slot k+1 for MODELLED[k]), two unknown names, then arbitrary entries
	let mut constant_pool: Vec<raw::CpInfo> = MODELLED.iter().map(|n| raw::CpInfo::Utf8 { bytes: n.as_bytes().to_vec() }).collect();
	constant_pool.push(raw::CpInfo::Utf8 { bytes: b"RuntimeVisibleTypeAnnotations".to_vec() });
	constant_pool.push(raw::CpInfo::Utf8 { bytes: b"org.example.Unknown".to_vec() });
	for _ in 0..g.n(10) {
		let e = g.cp();
		constant_pool.push(e);
	}
	let member = |g: &mut RG| (g.u16(), g.u16(), g.u16(), (0..g.n(4)).map(|_| g.attribute(0)).collect::<Vec<_>>());
	let fields = (0..g.n(3))
		.map(|_| {
			let (access_flags, name_index, descriptor_index, attributes) = member(&mut g);
			raw::FieldInfo { access_flags, name_index, descriptor_index, attributes }
		})
		.collect();
	let methods = (0..g.n(3))
		.map(|_| {
			let (access_flags, name_index, descriptor_index, attributes) = member(&mut g);
			raw::MethodInfo { access_flags, name_index, descriptor_index, attributes }
		})
		.collect();
	raw::ClassFile {
		minor_version: g.u16(),
		major_version: g.u16(),
		constant_pool,
		access_flags: g.u16(),
		this_class: g.u16(),
		super_class: g.u16(),
		interfaces: g.vec16(4),
		fields,
		methods,
		attributes: (0..g.n(5)).map(|_| g.attribute(0)).collect(),
	}
}

#[derive(Clone, Debug, Serialize, Deserialize)]
pub struct RawCase {
	pub stream: Vec<u8>,
	pub wide: bool,
}

fn count_attr_kinds(v: &raw::ClassFile) -> usize {
	fn name(a: &raw::AttributeInfo) -> String {
		let s = format!("{a:?}");
		s.split([' ', '{']).next().unwrap_or("").to_string()
	}
	fn walk(list: &[raw::AttributeInfo], out: &mut std::collections::BTreeSet<String>) {
		for a in list {
			out.insert(name(a));
			match a {
				raw::AttributeInfo::Code { attributes, .. } => walk(attributes, out),
				raw::AttributeInfo::Record { components, .. } => components.iter().for_each(|c| walk(&c.attributes, out)),
				_ => {}
			}
		}
	}
	let mut out = Default::default();
	walk(&v.attributes, &mut out);
	v.fields.iter().for_each(|f| walk(&f.attributes, &mut out));
	v.methods.iter().for_each(|f| walk(&f.attributes, &mut out));
	out.len()
}

fn raw_value(case: &RawCase, obs: &mut Obs) -> PropResult {
	let v = raw_from_stream(&case.stream, case.wide);
	let has_wide = v.constant_pool.iter().any(|e| matches!(e, raw::CpInfo::Long { .. } | raw::CpInfo::Double { .. }));
	obs.label_if(has_wide, "pool_with_long/double");
	let bytes = v.to_bytes();
	if bytes.len() != v.length() {
		return Err(format!("length() announces {} bytes, to_bytes() wrote {}", v.length(), bytes.len()));
	}
	// history: a write into a sink that gives up half way (a buffer that is too small) must leave nothing behind that
	// shows up in the next write
	{
		let mut small = vec![0u8; bytes.len() / 2];
		let mut sink: &mut [u8] = &mut small[..];
		let _ = v.write(&mut sink);
	}
	let mut out = Vec::new();
	v.write(&mut out).map_err(|e| format!("write failed: {e}"))?;
	if out != bytes {
		return Err("write() and to_bytes() disagree".into());
	}
	if out.len() < 20000 {
		written_through_short_writes(&v, &out)?;
	}
	// every count and attribute_length as the JVMS lays them out
	match walk_layout_frames(&bytes) {
		Ok((names, file_frames)) => {
			if let Err(e) = frames_agree(&v, &file_frames, obs).and_then(|_| tags_agree(&v, &bytes, obs)) {
				// with a Long/Double in the pool the crate numbers entries where the JVMS numbers slots (open finding):
				// a JVMS reader then resolves attribute_name_index to another name and sees other attributes
				if has_wide && obs.known("C20-long-double-pool-slots") {
					return Ok(());
				}
				return Err(e);
			}
			let mut names = names;
			names.sort();
			names.dedup();
			for k in names {
				obs.label(format!("attr:{}", if MODELLED.contains(&k.as_str()) { k } else { "(other)".to_string() }));
			}
		}
		Err(e) => {
			if has_wide && obs.known("C20-long-double-pool-slots") {
				return Ok(());
			}
			return Err(format!("the written file does not follow the JVMS layout: {e}"));
		}
	}
	// the crate's own reader and writer agree with each other also for pools with Long/Double (both count entries,
	// not slots): the open finding excuses the JVMS layout above, never this round trip
	match raw::ClassFile::read(&mut Cursor::new(&bytes)) {
		Ok(back) => {
			if back != v {
				return Err(format!("read(write(v)) != v: wrote {:?}\n read {:?}", truncate(&format!("{v:?}")), truncate(&format!("{back:?}"))));
			}
		}
		Err(e) => return Err(format!("read(write(v)) fails: {e}")),
	}
	obs.nontrivial_if(count_attr_kinds(&v) >= 3);
	Ok(())
}

fn truncate(s: &str) -> String {
	s.chars().take(600).collect()
}

/// (c) well-formed raw values (obtained by reading encoder output, then written again) are cross-read
fn cross_read(case: &BytesCase, obs: &mut Obs) -> PropResult {
	let mut model = class_from_stream(&case.stream, 4, 30);
	for l in crate::classfile::gen::apply_big(&mut model, case.big, 256) {
		obs.label(l);
	}
	let mut ch = case.ch.clone();
	if case.strip_wide {
		strip_wide_consts(&mut model);
		ch.junk_pool = 0;
	}
	let Ok(enc) = encode(&model, &ch) else {
		obs.label("not_encodable");
		return Ok(());
	};
	let wide = pool_has_wide(&enc.bytes);
	let v = match raw::ClassFile::read(&mut Cursor::new(&enc.bytes)) {
		Ok(v) => v,
		Err(e) => {
			if wide && obs.known("C20-long-double-pool-slots") {
				return Ok(());
			}
			return Err(format!("raw_class_file::ClassFile::read rejects a well-formed class file: {e}"));
		}
	};
	let out = v.to_bytes();
	let canon = model.canon();
	match decode(&out) {
		Ok(d) => {
			if d.canon() != canon {
				if wide && obs.known("C20-long-double-pool-slots") {
					return Ok(());
				}
				return Err(format!("the file written by raw_class_file denotes a different class: {}", crate::props::c01::first_diff(&canon, &d.canon())));
			}
		}
		Err(e) => {
			if wide && obs.known("C20-long-double-pool-slots") {
				return Ok(());
			}
			return Err(format!("the strict decoder rejects the file written by raw_class_file: {e}"));
		}
	}
	if let Err(e) = duke::read_class(&mut Cursor::new(&out)) {
		return Err(format!("duke cannot read the file written by raw_class_file: {e:#}"));
	}
	obs.nontrivial_if(crate::props::c01::nontrivial_class(&canon));
	Ok(())
}

fn corpus(ctx: &mut Ctx) {
	let files = crate::corpus::load();
	ctx.run_enum("corpus_javac", |rec| {
		for (name, bytes) in &files {
			let mut obs = rec.obs();
			let r = crate::engine::no_panic(|| -> PropResult {
				walk_layout(bytes).map_err(|e| format!("harness: layout walker rejects the javac-compiled class {name}: {e}"))?;
				bytes_roundtrip(bytes, &mut obs).map_err(|e| format!("{name}: {e}"))?;
				obs.nontrivial();
				Ok(())
			})
			.and_then(|x| x);
			rec.case(|| serde_json::json!({"corpus_class": name, "bytes": bytes.len()}), crate::engine::fnv64(bytes), obs, r);
		}
	});
}

pub fn run(ctx: &mut Ctx) {
	ctx.rule = "(a) well-formed class files from the harness encoder (all encodings; with and without long/double constants): write(read(b)) == b byte for byte, length() == |b|; (b) raw ClassFile values generated directly (self-consistent attribute names, otherwise arbitrary indices/counts, every attribute kind the crate models, nested attributes in Code and Record): |to_bytes()| == length(), an independent JVMS layout walker must consume every attribute exactly per its attribute_length (count widths per JVMS), read(write(v)) == v; (c) files re-written by raw_class_file are cross-read by the strict decoder (== the generating model) and duke. Non-trivial = class with code / value with >= 3 distinct attribute kinds; distinct by case hash".into();
	ctx.assume("raw stack map frames use the ranges their variants can express (SameFrame offset <= 63, Chop k in 1..=3, Append 1..=3 locals)");
	ctx.assume("attribute_name_index of a raw attribute points at the Utf8 entry with the matching name (the crate dispatches on it); unknown attributes use a name the crate does not model");
	let bytes_strategy = || (class_stream(), choices(), prop_oneof![3 => Just(true), 1 => Just(false)], crate::classfile::gen::big_choice()).prop_map(|(stream, ch, strip_wide, big)| BytesCase { stream, ch, strip_wide, big });
	ctx.run_sub("bytes_roundtrip", ctx.tier.pick(96000, 1600000), bytes_strategy, wellformed);
	ctx.run_sub("raw_value_roundtrip", ctx.tier.pick(144000, 2400000), || (proptest::collection::vec(any::<u8>(), 0..600), prop_oneof![3 => Just(false), 1 => Just(true)]).prop_map(|(stream, wide)| RawCase { stream, wide }), raw_value);
	ctx.run_sub("cross_read", ctx.tier.pick(48000, 800000), bytes_strategy, cross_read);
	corpus(ctx);
	// the largest constant pool a class file can have (constant_pool_count = 65535, i.e. 65534 entries) and the sizes just below
	ctx.run_enum("full_constant_pool", |rec| {
		for count in 65531usize..=65535 {
			let mut obs = rec.obs();
			let r = crate::engine::no_panic(|| -> PropResult {
				let bytes = crate::props::c02::full_pool_class(count).ok_or("harness: cannot build the class")?;
				bytes_roundtrip(&bytes, &mut obs)?;
				obs.label(format!("constant_pool_count={count}"));
				obs.nontrivial_if(true);
				Ok(())
			})
			.and_then(|x| x);
			rec.case(|| serde_json::json!({"constant_pool_count": count}), crate::engine::fnv64(format!("fullpool{count}").as_bytes()), obs, r);
		}
	});
}
