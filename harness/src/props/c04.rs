//! C04 — applying a mapping diff is exact; diff and apply are inverse.

use crate::engine::{fnv64, Ctx, Obs, PropResult, Scratch};
use crate::mapmodel::conv::{diff_from_quill, diff_to_quill, from_quill, to_quill};
use crate::mapmodel::gen::{draws, edit, mapset, order_seed, Draws, GenCfg, TargetStyle};
use crate::mapmodel::refops::{self, Applied, ApplyNotes};
use crate::mapmodel::{text, Act, DClass, DField, DMethod, DParam, DiffSet, MapSet, MemberKey};
use proptest::prelude::*;
use quill::tree::mappings_diff::{Action, MappingsDiff};
use serde::{Deserialize, Serialize};
use serde_json::json;
use std::collections::BTreeMap;

struct Ns;

#[derive(Clone, Debug, Serialize, Deserialize)]
pub struct PairCase {
	pub a: MapSet,
	pub b: MapSet,
	pub order: u64,
}

fn pair_strategy() -> impl Strategy<Value = PairCase> {
	// parameters carry no source names here: a diff speaks about the target namespace only (the
	// .tinydiff format has no source column for parameters), so it cannot transport them
	let cfg = GenCfg { ns_min: 2, ns_max: 2, p_missing: 0, style: TargetStyle::Arbitrary, param_src_names: false, backslash_docs: true, ..GenCfg::default() };
	// a quarter of the bases leave a few entries without a target name (diff() may refuse such a pair; when it answers,
	// the answer must still take A to B)
	let bases = prop_oneof![3 => mapset(cfg.clone()), 1 => mapset(GenCfg { p_missing: 4, ..cfg })];
	(bases, draws(), draws(), any::<u8>(), order_seed()).prop_map(|(base, s1, s2, mode, order)| {
		// mode: overlapping (common ancestor), identical, or disjoint key sets
		let mut a = edit(&base, 1, &s1);
		let mut b = edit(&base, 1, &s2);
		// an empty comment cannot be told from an absent one in the two-column diff notation
		for m in [&mut a, &mut b] {
			m.for_each_doc_mut(|d| {
				if d.as_deref() == Some("") {
					*d = Some("-".into());
				}
			});
		}
		match mode % 8 {
			0 => b = a.clone(),
			1 => {
				let mut nb = MapSet { ns: b.ns.clone(), classes: BTreeMap::new() };
				for (k, mut c) in b.classes {
					let nk = format!("other/{k}");
					c.names[0] = Some(nk.clone());
					nb.classes.insert(nk, c);
				}
				b = nb;
			}
			2 | 3 => {
				// one entry that both sides have keeps its name in A and has none in B (mode 3: the other way round)
				let (from, to) = if mode % 8 == 2 { (&a, &mut b) } else { (&b, &mut a) };
				let shared: Vec<String> = to.classes.keys().filter(|k| from.classes.contains_key(*k)).cloned().collect();
				if !shared.is_empty() {
					let ck = &shared[(order % shared.len() as u64) as usize];
					let (fc, tc) = (&from.classes[ck], to.classes.get_mut(ck).unwrap());
					let level = (order >> 8) % 4;
					let fk = tc.fields.keys().find(|k| fc.fields.contains_key(*k)).cloned();
					let mk = tc.methods.keys().find(|k| fc.methods.contains_key(*k)).cloned();
					match (level, fk, mk) {
						(1, Some(fk), _) => tc.fields.get_mut(&fk).unwrap().names[1] = None,
						(2, _, Some(mk)) => tc.methods.get_mut(&mk).unwrap().names[1] = None,
						(3, _, Some(mk)) => {
							let fm = &fc.methods[&mk];
							let tm = tc.methods.get_mut(&mk).unwrap();
							match tm.params.keys().find(|k| fm.params.contains_key(*k)).cloned() {
								Some(pk) => tm.params.get_mut(&pk).unwrap().names[1] = None,
								None => tm.names[1] = None,
							}
						}
						_ => tc.names[1] = None,
					}
				}
			}
			6 if order % 8 == 0 => {
				// 300 more classes on both sides, renamed and re-commented between them: the diff text grows to 20-40 KiB
				// (several buffers of a reader)
				for k in 0..300usize {
					let key = format!("bulk/C{k}");
					let mk = |target: String, doc: Option<String>| crate::mapmodel::MClass { names: vec![Some(key.clone()), Some(target)], doc, ..Default::default() };
					a.classes.entry(key.clone()).or_insert(mk(format!("bulk/OldName{k}"), if k % 3 == 0 { Some(format!("old comment {k}")) } else { None }));
					b.classes.entry(key.clone()).or_insert(mk(format!("bulk/NewNameOfClass{k}"), if k % 2 == 0 { Some(format!("new comment {k}\nsecond line")) } else { None }));
				}
			}
			4 | 5 => {
				// a comment that both sides have and that differs only in the *kind* of white space (blank / TAB / VT / FF / CR)
				let ws: [&str; 4] = if mode % 8 == 4 { ["\t", " ", "\u{b}", "\r"] } else { ["\u{c}", "\t", "\t", " "] };
				let vary = |doc: &Option<String>, k: usize| -> Option<String> {
					let d = doc.clone().unwrap_or_else(|| "two words\nand a second line".to_string());
					let mut n = 0;
					Some(d.chars().map(|c| if c == ' ' { n += 1; ws[(n + k) % 4].chars().next().unwrap() } else { c }).collect())
				};
				let shared: Vec<String> = b.classes.keys().filter(|k| a.classes.contains_key(*k)).cloned().collect();
				if !shared.is_empty() {
					let ck = &shared[(order % shared.len() as u64) as usize];
					let (ac, bc) = (a.classes.get_mut(ck).unwrap(), b.classes.get_mut(ck).unwrap());
					if ac.doc.is_none() {
						ac.doc = Some("two words\nand a second line".into());
					}
					bc.doc = vary(&ac.doc, 0);
					for (fk, bf) in bc.fields.iter_mut() {
						if let Some(af) = ac.fields.get(fk) {
							if af.doc.is_some() {
								bf.doc = vary(&af.doc, 1);
							}
						}
					}
					for (mk, bm) in bc.methods.iter_mut() {
						if let Some(am) = ac.methods.get(mk) {
							if am.doc.is_some() {
								bm.doc = vary(&am.doc, 2);
							}
							for (pk, bp) in bm.params.iter_mut() {
								if let Some(ap) = am.params.get(pk) {
									if ap.doc.is_some() {
										bp.doc = vary(&ap.doc, 3);
									}
								}
							}
						}
					}
				}
			}
			_ => {}
		}
		PairCase { a, b, order }
	})
}

fn write_file(scratch: &Scratch, name: &str, text: &str) -> Result<std::path::PathBuf, String> {
	let p = scratch.path.join(name);
	std::fs::write(&p, text).map_err(|e| format!("harness: cannot write scratch file: {e}"))?;
	Ok(p)
}

fn count_kinds(d: &DiffSet, obs: &mut Obs) -> (usize, bool) {
	let mut levels = std::collections::BTreeSet::new();
	let mut has_rm_or_edit = false;
	let mut see = |level: &'static str, a: &Act, obs: &mut Obs| {
		let a = a.normalised();
		if a != Act::None {
			levels.insert(level);
			obs.label(format!("{level}:{}", a.kind()));
			if matches!(a, Act::Remove(_) | Act::Edit(_, _)) {
				has_rm_or_edit = true;
			}
		}
	};
	for c in d.classes.values() {
		see("class", &c.act, obs);
		see("comment", &c.doc, obs);
		for f in c.fields.values() {
			see("field", &f.act, obs);
			see("comment", &f.doc, obs);
		}
		for m in c.methods.values() {
			see("method", &m.act, obs);
			see("comment", &m.doc, obs);
			for p in m.params.values() {
				see("param", &p.act, obs);
				see("comment", &p.doc, obs);
			}
		}
	}
	(levels.len(), has_rm_or_edit)
}

fn inverse_law(case: &PairCase, obs: &mut Obs) -> PropResult {
	let qa = to_quill::<2, Ns>(&case.a, case.order).map_err(|e| format!("harness: {e:#}"))?;
	let qb = to_quill::<2, Ns>(&case.b, case.order.rotate_left(7)).map_err(|e| format!("harness: {e:#}"))?;
	// the comment of the set itself (the plain model has no slot for it): none / X / Y on either side, from the order seed
	let top = |sel: u64| match sel % 3 {
		0 => None,
		1 => Some(quill::tree::mappings::JavadocMapping("about this set".to_string())),
		_ => Some(quill::tree::mappings::JavadocMapping("another\ncomment".to_string())),
	};
	let (mut qa, mut qb) = (qa, qb);
	let mix = fnv64(format!("{} {} {}", case.order, case.a.classes.len(), case.b.classes.len()).as_bytes());
	let (ta, tb) = (top(mix >> 5), top(mix >> 11));
	qa.javadoc = ta.clone();
	qb.javadoc = tb.clone();
	obs.label(match (&ta, &tb) {
		(None, None) => "set_comment:neither",
		(Some(_), None) => "set_comment:removed",
		(None, Some(_)) => "set_comment:added",
		(Some(x), Some(y)) if x == y => "set_comment:kept",
		_ => "set_comment:edited",
	});
	let refdiff = refops::diff(&case.a, &case.b);
	let d = match MappingsDiff::diff(&qa, &qb) {
		Ok(d) => d,
		Err(e) => {
			if refdiff.is_none() {
				obs.label("diff_precondition_unmet:refused");
				return Ok(());
			}
			return Err(format!("diff(A,B) failed although every entry has a target name: {e:#}"));
		}
	};
	let dm = diff_from_quill(&d).map_err(|e| format!("diff result inconsistent: {e:#}"))?;
	obs.label_if(refdiff.is_none(), "diff_precondition_unmet:answered");
	// apply(diff(A,B), A) == B
	let applied = d.apply_to::<2, Ns, Ns>(qa.clone(), &case.a.ns[1]).map_err(|e| format!("apply(diff(A,B), A) was refused: {e:#}\ndiff = {dm:?}"))?;
	let back = from_quill(&applied).map_err(|e| format!("apply result inconsistent: {e:#}"))?;
	if applied.javadoc != tb {
		return Err(format!("apply(diff(A,B), A) carries the set comment {:?}, B has {:?} (A had {:?}; the diff says {:?})", applied.javadoc, tb, ta, d.javadoc));
	}
	if back != case.b {
		return Err(format!("apply(diff(A,B), A) != B\nA = {:?}\nB = {:?}\ngot {:?}\ndiff = {dm:?}", case.a, case.b, back));
	}
	// the same through the textual form
	let scratch = Scratch::new("c04");
	let txt = text::tinydiff(&dm, case.order);
	let path = write_file(&scratch, "d.tinydiff", &txt)?;
	let d2 = quill::tiny_v2_diff::read_file(&path).map_err(|e| format!("reading the diff text failed: {e:#}\n{txt}"))?;
	let dm2 = diff_from_quill(&d2).map_err(|e| format!("read diff inconsistent: {e:#}"))?;
	if dm2 != dm.normalised() {
		return Err(format!("read(text(D)) != normalise(D)\nD    = {:?}\nread = {dm2:?}\ntext:\n{txt}", dm.normalised()));
	}
	let applied2 = d2.apply_to::<2, Ns, Ns>(qa, &case.a.ns[1]).map_err(|e| format!("apply(read(text(diff(A,B))), A) was refused: {e:#}\n{txt}"))?;
	let back2 = from_quill(&applied2).map_err(|e| format!("apply result inconsistent: {e:#}"))?;
	// the .tinydiff text has no line for the comment of the set, so the diff read from text does not touch it
	if applied2.javadoc != ta {
		return Err(format!("a diff without an action for the set comment changed it from {:?} to {:?}", ta, applied2.javadoc));
	}
	if back2 != case.b {
		return Err(format!("apply(read(text(diff(A,B))), A) != B\nB = {:?}\ngot {:?}\ntext:\n{txt}", case.b, back2));
	}
	// the reference diff (from the statement) applied by quill gives B as well
	if let Some(rd) = &refdiff {
		let q = diff_to_quill(rd, 0).map_err(|e| format!("harness: {e:#}"))?;
		let qa = to_quill::<2, Ns>(&case.a, 0).map_err(|e| format!("harness: {e:#}"))?;
		let r = q.apply_to::<2, Ns, Ns>(qa, &case.a.ns[1]).map_err(|e| format!("apply(reference diff, A) refused: {e:#}"))?;
		if from_quill(&r).map_err(|e| format!("{e:#}"))? != case.b {
			return Err("apply(reference diff(A,B), A) != B".to_string());
		}
	}
	let (levels, rm_or_edit) = count_kinds(&dm, obs);
	let shared = case.a.classes.keys().filter(|k| case.b.classes.contains_key(*k)).count();
	obs.label(if case.a == case.b {
		"identical"
	} else if shared == 0 {
		"disjoint"
	} else if shared == case.a.classes.len() && shared == case.b.classes.len() {
		"same_keys"
	} else {
		"partial_overlap"
	});
	obs.nontrivial_if(levels >= 2 && rm_or_edit);
	Ok(())
}

// ---------------------------------------------------------------------------------------------
// arbitrary diffs against a target

#[derive(Clone, Debug, Serialize, Deserialize)]
pub struct ApplyCase {
	pub m: MapSet,
	pub d: DiffSet,
	pub ns: usize,
	pub order: u64,
}

/// one action for a target value: kind and matching-ness drawn from the stream
fn gen_act(dr: &mut Draws, current: Option<&String>, obs_tag: &mut Vec<String>, level: &str, none_bias: u8) -> Act {
	let fresh = format!("{}X", dr.ident());
	if dr.pct(none_bias) {
		return Act::None;
	}
	let mismatch = dr.pct(6);
	let kind_draw = dr.next();
	let kind = kind_draw % 3;
	// an edit that states an old value and leaves it as it is (diff() emits these for unchanged nodes):
	// it still has to be refused when the stated value is not the target's
	let noop_edit = kind_draw >= 216;
	let state = match current {
		None => "absent_or_unnamed",
		Some(_) if mismatch => "mismatching",
		Some(_) => "matching",
	};
	let old = match current {
		Some(c) if !mismatch => c.clone(),
		_ => format!("{}Old", dr.ident()),
	};
	// make consistent actions the common case: on an unnamed target prefer Add, on a named one Remove/Edit
	let act = match (current.is_some(), kind, dr.pct(8)) {
		(false, _, false) => Act::Add(fresh),
		(false, k, true) => {
			if k == 0 {
				Act::Remove(old)
			} else if noop_edit {
				Act::Edit(old.clone(), old)
			} else {
				Act::Edit(old, fresh)
			}
		}
		(true, 0, false) => Act::Remove(old),
		(true, _, false) if noop_edit => Act::Edit(old.clone(), old),
		(true, _, false) => Act::Edit(old, fresh),
		(true, _, true) => Act::Add(fresh),
	};
	obs_tag.push(format!("{level}:{}:{state}", act.kind()));
	if matches!(&act, Act::Edit(a, b) if a == b) {
		obs_tag.push(format!("noop_edit:{state}"));
	}
	act
}

fn build_diff(m: &MapSet, ns: usize, stream: &[u8], tags: &mut Vec<String>) -> DiffSet {
	let mut dr = Draws::new(stream);
	let mut d = DiffSet::default();
	for (ck, c) in &m.classes {
		if dr.pct(35) {
			continue;
		}
		let mut dc = DClass { act: gen_act(&mut dr, c.names[ns].as_ref(), tags, "class", 55), doc: gen_act(&mut dr, c.doc.as_ref(), tags, "comment", 70), ..Default::default() };
		for (fk, f) in &c.fields {
			if dr.pct(40) {
				continue;
			}
			dc.fields.insert(fk.clone(), DField { act: gen_act(&mut dr, f.names[ns].as_ref(), tags, "field", 40), doc: gen_act(&mut dr, f.doc.as_ref(), tags, "comment", 70) });
		}
		if dr.pct(12) {
			let k = MemberKey { name: format!("{}New", dr.ident()), desc: "J".into() };
			dc.fields.insert(k, DField { act: gen_act(&mut dr, None, tags, "field", 10), doc: gen_act(&mut dr, None, tags, "comment", 80) });
		}
		for (mk, me) in &c.methods {
			if dr.pct(40) {
				continue;
			}
			let mut dm = DMethod { act: gen_act(&mut dr, me.names[ns].as_ref(), tags, "method", 50), doc: gen_act(&mut dr, me.doc.as_ref(), tags, "comment", 70), params: BTreeMap::new() };
			for (pk, p) in &me.params {
				if dr.pct(30) {
					continue;
				}
				dm.params.insert(*pk, DParam { act: gen_act(&mut dr, p.names[ns].as_ref(), tags, "param", 40), doc: gen_act(&mut dr, p.doc.as_ref(), tags, "comment", 70) });
			}
			if dr.pct(12) {
				let idx = 8 + (dr.next() % 4) as usize;
				dm.params.insert(idx, DParam { act: gen_act(&mut dr, None, tags, "param", 10), doc: gen_act(&mut dr, None, tags, "comment", 80) });
			}
			dc.methods.insert(mk.clone(), dm);
		}
		if dr.pct(12) {
			let k = MemberKey { name: format!("{}New", dr.ident()), desc: "()J".into() };
			dc.methods.insert(k, DMethod { act: gen_act(&mut dr, None, tags, "method", 10), doc: gen_act(&mut dr, None, tags, "comment", 80), params: BTreeMap::new() });
		}
		d.classes.insert(ck.clone(), dc);
	}
	if dr.pct(25) {
		let k = format!("fresh/{}", dr.ident());
		let mut dc = DClass { act: gen_act(&mut dr, None, tags, "class", 10), doc: gen_act(&mut dr, None, tags, "comment", 70), ..Default::default() };
		if dr.pct(50) {
			dc.fields.insert(MemberKey::new("nf", "I"), DField { act: gen_act(&mut dr, None, tags, "field", 5), doc: Act::None });
		}
		d.classes.insert(k, dc);
	}
	d
}

fn apply_strategy() -> impl Strategy<Value = ApplyCase> {
	let cfg = GenCfg { ns_min: 2, ns_max: 3, p_missing: 20, style: TargetStyle::Arbitrary, max_classes: 4, backslash_docs: true, ..GenCfg::default() };
	(mapset(cfg), draws(), any::<u8>(), order_seed()).prop_map(|(m, stream, ns, order)| {
		let ns = 1 + (ns as usize) % (m.ns.len() - 1);
		let mut tags = Vec::new();
		let d = build_diff(&m, ns, &stream, &mut tags);
		// one case in six: the target is much larger than what the diff speaks about (80 more classes, 80 more fields and
		// methods in every class, 40 more parameters in every method) - the diff touches a small fraction of every level
		let mut m = m;
		if order % 6 == 0 {
			let n = m.ns.len();
			let row = |a: String, b: String| -> crate::mapmodel::Names {
				let mut names: crate::mapmodel::Names = vec![None; n];
				names[0] = Some(a);
				names[ns] = Some(b);
				names
			};
			for c in m.classes.values_mut() {
				for k in 0..80 {
					c.fields.entry(MemberKey::new(&format!("bulkF{k}"), "I")).or_insert(crate::mapmodel::MField { names: row(format!("bulkF{k}"), format!("namedF{k}")), doc: None });
					c.methods.entry(MemberKey::new(&format!("bulkM{k}"), "()V")).or_insert(crate::mapmodel::MMethod { names: row(format!("bulkM{k}"), format!("namedM{k}")), doc: None, params: BTreeMap::new() });
				}
				for me in c.methods.values_mut().take(3) {
					for k in 0..40usize {
						let mut names: crate::mapmodel::Names = vec![None; n];
						names[ns] = Some(format!("p{k}"));
						me.params.entry(300 + k).or_insert(crate::mapmodel::MParam { names, doc: None });
					}
				}
			}
			for k in 0..80 {
				let name = format!("bulk/K{k}");
				m.classes.entry(name.clone()).or_insert(crate::mapmodel::MClass { names: row(name, format!("bulk/Named{k}")), ..Default::default() });
			}
		}
		ApplyCase { m, d, ns, order }
	})
}

fn apply_generic<const N: usize>(case: &ApplyCase, obs: &mut Obs) -> PropResult {
	let q = to_quill::<N, Ns>(&case.m, case.order).map_err(|e| format!("harness: {e:#}"))?;
	let qd = diff_to_quill(&case.d, case.order.rotate_left(11)).map_err(|e| format!("harness: {e:#}"))?;
	let mut notes = ApplyNotes::default();
	let mut expected = refops::apply(&case.d, &case.m, case.ns, &mut notes);
	// the comment of the set itself: target none / X, action none / add / remove / edit, stated old value matching or not
	let (mut q, mut qd) = (q, qd);
	let sel = fnv64(format!("{} {} {} {}", case.order, case.ns, case.m.classes.len(), case.d.classes.keys().next().map(|k| k.len()).unwrap_or(0)).as_bytes()) >> 7;
	let target_doc: Option<String> = if sel % 2 == 0 { None } else { Some("about this set".to_string()) };
	let stated = if (sel >> 1) % 3 == 0 { "something else".to_string() } else { "about this set".to_string() };
	let act = match (sel >> 3) % 8 {
		0 => Act::Add("new comment".to_string()),
		1 => Act::Remove(stated),
		2 => Act::Edit(stated, "new comment".to_string()),
		3 => Act::Edit(stated.clone(), stated),
		_ => Act::None,
	};
	q.javadoc = target_doc.clone().map(quill::tree::mappings::JavadocMapping);
	qd.javadoc = match &act {
		Act::None => quill::tree::mappings_diff::Action::None,
		Act::Add(b) => quill::tree::mappings_diff::Action::Add(quill::tree::mappings::JavadocMapping(b.clone())),
		Act::Remove(a) => quill::tree::mappings_diff::Action::Remove(quill::tree::mappings::JavadocMapping(a.clone())),
		Act::Edit(a, b) => quill::tree::mappings_diff::Action::Edit(quill::tree::mappings::JavadocMapping(a.clone()), quill::tree::mappings::JavadocMapping(b.clone())),
	};
	// the name of the target namespace itself is a value the diff may edit (the root `info` action): stated old name
	// matching / mismatching, or an addition that collides with the existing name
	let ns_sel = (sel >> 9) % 20;
	let old_ns = case.m.ns[case.ns].clone();
	let ns_act = match ns_sel {
		0 => Act::Edit(old_ns.clone(), "renamedNamespace".to_string()),
		1 => Act::Edit(format!("{old_ns}X"), "renamedNamespace".to_string()),
		2 => Act::Edit(case.m.ns[0].clone(), "renamedNamespace".to_string()), // the name of another namespace (ns >= 1)
		3 => Act::Add("renamedNamespace".to_string()),
		_ => Act::None,
	};
	qd.info = match &ns_act {
		Act::Edit(a, b) => Action::Edit(a.clone(), b.clone()),
		Act::Add(b) => Action::Add(b.clone()),
		_ => Action::None,
	};
	let expected_ns: Result<String, String> = match &ns_act {
		Act::None => Ok(old_ns.clone()),
		Act::Edit(a, b) if *a == old_ns => Ok(b.clone()),
		Act::Edit(a, _) => Err(format!("namespace edit from {a:?} does not match {old_ns:?}")),
		_ => Err("namespace addition collides with the existing namespace".to_string()),
	};
	obs.label(format!("namespace_action:{}", match (&ns_act, &expected_ns) {
		(Act::None, _) => "none",
		(Act::Add(_), _) => "add_collides",
		(_, Ok(_)) => "edit_matching",
		_ => "edit_mismatching",
	}));
	if let (Err(why), Applied::Ok(_)) = (&expected_ns, &expected) {
		expected = Applied::Refuse(why.clone());
	}
	if let (Ok(new_ns), Applied::Ok(exp)) = (&expected_ns, &mut expected) {
		exp.ns[case.ns] = new_ns.clone();
	}
	let expected_doc = refops::apply_opt(&act, &target_doc, "comment of the set");
	obs.label(format!(
		"set_comment:{}:{}",
		match &act {
			Act::None => "none",
			Act::Add(_) => "add",
			Act::Remove(_) => "remove",
			Act::Edit(..) => "edit",
		},
		if expected_doc.is_ok() { "consistent" } else { "inconsistent" }
	));
	if let (Err(why), Applied::Ok(_)) = (&expected_doc, &expected) {
		expected = Applied::Refuse(why.clone());
	}
	let got = qd.apply_to::<N, Ns, Ns>(q, &case.m.ns[case.ns]);
	if let (Ok(want), Applied::Ok(_), Ok(r)) = (&expected_doc, &expected, &got) {
		if r.javadoc.as_ref().map(|j| &j.0) != want.as_ref() {
			return Err(format!("the comment of the set is {:?} after applying {act:?} to {target_doc:?}, expected {want:?}", r.javadoc));
		}
	}
	// classify what the diff exercises (re-derive the tags from diff and target)
	let mut tags = Vec::new();
	classify(&case.d, &case.m, case.ns, &mut tags);
	for t in tags {
		obs.label(t);
	}
	let (levels, rm_or_edit) = count_kinds(&case.d, &mut Obs::default());
	match (&expected, got) {
		(Applied::Refuse(why), Ok(r)) => {
			let got = from_quill(&r).map(|m| format!("{m:?}")).unwrap_or_else(|e| format!("<inconsistent: {e:#}>"));
			return Err(format!("an inconsistent diff was applied instead of refused ({why})\ntarget = {:?}\ndiff = {:?}\nresult = {got}", case.m, case.d));
		}
		(Applied::Refuse(_), Err(_)) => {
			obs.label("outcome:refused");
		}
		(Applied::Ok(exp), Ok(r)) => {
			let got = from_quill(&r).map_err(|e| format!("apply result inconsistent: {e:#}"))?;
			if notes.none_on_absent {
				obs.label("outcome:unspecified");
			} else if &got != exp {
				return Err(format!("apply result differs from what the diff says\ntarget = {:?}\ndiff = {:?}\nexpected = {exp:?}\ngot      = {got:?}", case.m, case.d));
			} else {
				obs.label("outcome:applied");
			}
		}
		(Applied::Ok(_), Err(e)) => {
			if notes.unspecified {
				obs.label("outcome:unspecified");
			} else {
				return Err(format!("a consistent diff was refused: {e:#}\ntarget = {:?}\ndiff = {:?}", case.m, case.d));
			}
		}
	}
	obs.label(format!("ns={N},target={}", case.ns));
	obs.nontrivial_if(levels >= 2 && rm_or_edit && !notes.unspecified);
	Ok(())
}

fn classify(d: &DiffSet, m: &MapSet, ns: usize, tags: &mut Vec<String>) {
	fn one(level: &str, a: &Act, cur: Option<Option<&String>>, tags: &mut Vec<String>) {
		let state = match (a, cur) {
			(_, None) => "absent",
			(_, Some(None)) => "unnamed",
			(Act::Remove(x) | Act::Edit(x, _), Some(Some(c))) => {
				if x == c {
					"matching"
				} else {
					"mismatching"
				}
			}
			(_, Some(Some(_))) => "present",
		};
		tags.push(format!("{level}:{}:{state}", a.kind()));
		if matches!(a, Act::Edit(x, y) if x == y) {
			tags.push(format!("noop_edit:{state}"));
		}
	}
	for (ck, dc) in &d.classes {
		let c = m.classes.get(ck);
		one("class", &dc.act, c.map(|c| c.names[ns].as_ref()), tags);
		one("comment", &dc.doc, c.map(|c| c.doc.as_ref()), tags);
		for (fk, df) in &dc.fields {
			let f = c.and_then(|c| c.fields.get(fk));
			one("field", &df.act, f.map(|f| f.names[ns].as_ref()), tags);
			one("comment", &df.doc, f.map(|f| f.doc.as_ref()), tags);
		}
		for (mk, dm) in &dc.methods {
			let me = c.and_then(|c| c.methods.get(mk));
			one("method", &dm.act, me.map(|f| f.names[ns].as_ref()), tags);
			one("comment", &dm.doc, me.map(|f| f.doc.as_ref()), tags);
			for (pk, dp) in &dm.params {
				let p = me.and_then(|me| me.params.get(pk));
				one("param", &dp.act, p.map(|f| f.names[ns].as_ref()), tags);
				one("comment", &dp.doc, p.map(|f| f.doc.as_ref()), tags);
			}
		}
	}
}

fn apply_dispatch(case: &ApplyCase, obs: &mut Obs) -> PropResult {
	match case.m.n() {
		2 => apply_generic::<2>(case, obs),
		3 => apply_generic::<3>(case, obs),
		n => Err(format!("harness: unsupported namespace count {n}")),
	}
}

pub fn run(ctx: &mut Ctx) {
	ctx.rule = "(i) pairs (A,B) of two-namespace sets derived from a common base by generated edit scripts (identical / overlapping / disjoint keys): apply(diff(A,B),A)==B directly and through .tinydiff text; (ii) generated diffs against 2- and 3-namespace targets (each action x absent / unnamed / matching / mismatching target at class, field, method, parameter and comment level) compared with a reference apply; (iii) the 4x3 table of apply_diff_option, exhaustive. Non-trivial = the diff touches >=2 levels and contains a Remove or Edit; distinct by hash of the serialised case".into();
	ctx.assume("the target namespace index is >= 1 (the first namespace holds the keys and is refused by design)");
	ctx.assume("inverse law: parameters have no source-namespace name (a diff cannot express one; .tinydiff has no such column)");
	ctx.assume("inverse law: comments are non-empty (the two-column diff notation reads an empty cell as absent)");
	ctx.assume("diff(A,B) is only required to succeed when every entry has a name in the target namespace");
	ctx.assume("a None node for an absent target and child diffs below a removed node are unspecified by the statement: either outcome accepted, counted as outcome:unspecified");

	ctx.run_sub("inverse", ctx.tier.pick(96000, 1500000), pair_strategy, inverse_law);
	ctx.run_sub("apply_vs_reference", ctx.tier.pick(144000, 3000000), apply_strategy, apply_dispatch);

	ctx.run_enum("option_table", |rec| {
		let x = "x".to_string();
		let y = "y".to_string();
		let z = "z".to_string();
		let actions: Vec<(Action<String>, Act)> = vec![
			(Action::None, Act::None),
			(Action::Add(x.clone()), Act::Add(x.clone())),
			(Action::Remove(x.clone()), Act::Remove(x.clone())),
			(Action::Edit(x.clone(), y.clone()), Act::Edit(x.clone(), y.clone())),
		];
		let targets: Vec<Option<String>> = vec![None, Some(x.clone()), Some(z.clone())];
		for (qa, ma) in &actions {
			for t in &targets {
				let mut obs = rec.obs();
				let expected: Result<Option<String>, ()> = match (ma, t) {
					(Act::None, t) => Ok(t.clone()),
					(Act::Add(b), None) => Ok(Some(b.clone())),
					(Act::Add(_), Some(_)) => Err(()),
					(Act::Remove(a), Some(t)) if a == t => Ok(None),
					(Act::Remove(_), _) => Err(()),
					(Act::Edit(a, b), Some(t)) if a == t => Ok(Some(b.clone())),
					(Act::Edit(_, _), _) => Err(()),
				};
				let got = quill::apply_diff_option(qa, t.clone());
				let ok = match (&expected, &got) {
					(Ok(e), Ok(g)) => e == g,
					(Err(()), Err(_)) => true,
					_ => false,
				};
				obs.nontrivial();
				let repr = json!({ "action": format!("{qa:?}"), "target": t });
				let h = fnv64(repr.to_string().as_bytes());
				rec.case(|| repr.clone(), h, obs, if ok { Ok(()) } else { Err(format!("apply_diff_option({qa:?}, {t:?}) = {got:?}, expected {expected:?}")) });
			}
		}
	});
}
