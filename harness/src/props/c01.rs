//! C01 — class reader delivers every fact of a valid class file accurately.

use crate::classfile::decode::decode;
use crate::classfile::encode::{encode, Choices, EncodeError};
use crate::classfile::gen::{choices, class_from_stream, class_stream};
use crate::classfile::model::*;
use crate::classfile::project::project;
use crate::engine::{Ctx, Obs, PropResult};
use proptest::prelude::*;
use serde::{Deserialize, Serialize};
use std::io::Cursor;

#[derive(Clone, Debug, Serialize, Deserialize)]
pub struct Case {
	pub stream: Vec<u8>,
	pub c1: Choices,
	pub c2: Choices,
	/// dynamic sites sharing the bootstrap method of the first one (see gen::share_bsms); 0 = none
	#[serde(default)]
	pub share: u16,
	/// an attribute payload around / beyond 64 KiB (gen::add_big_attribute); 0 = none
	#[serde(default)]
	pub big: u32,
}

fn strategy() -> impl Strategy<Value = Case> {
	(class_stream(), choices(), choices(), prop_oneof![2 => Just(0u16), 1 => Just(0xffffu16), 1 => any::<u16>()], crate::classfile::gen::big_choice()).prop_map(|(stream, c1, c2, share, big)| Case { stream, c1, c2, share, big })
}

pub fn first_diff(a: &CClass, b: &CClass) -> String {
	if a.minor != b.minor || a.major != b.major {
		return format!("version {}.{} vs {}.{}", a.major, a.minor, b.major, b.minor);
	}
	if a.access != b.access {
		return format!("class access {:#x} vs {:#x}", a.access, b.access);
	}
	if a.name != b.name || a.super_class != b.super_class || a.interfaces != b.interfaces {
		return format!("header {:?} {:?} {:?} vs {:?} {:?} {:?}", a.name, a.super_class, a.interfaces, b.name, b.super_class, b.interfaces);
	}
	fn attrs(what: &str, a: &[Attr], b: &[Attr]) -> Option<String> {
		if a == b {
			return None;
		}
		for (x, y) in a.iter().zip(b.iter()) {
			if x != y {
				if let (Attr::Code(cx), Attr::Code(cy)) = (x, y) {
					if cx.max_stack != cy.max_stack || cx.max_locals != cy.max_locals {
						return Some(format!("{what}: Code max_stack/max_locals {}/{} vs {}/{}", cx.max_stack, cx.max_locals, cy.max_stack, cy.max_locals));
					}
					if cx.insns.len() != cy.insns.len() {
						return Some(format!("{what}: Code has {} vs {} instructions", cx.insns.len(), cy.insns.len()));
					}
					for (i, (p, q)) in cx.insns.iter().zip(cy.insns.iter()).enumerate() {
						if p != q {
							return Some(format!("{what}: instruction {i}: {p:?} vs {q:?}"));
						}
					}
					if cx.exceptions != cy.exceptions {
						return Some(format!("{what}: exception table {:?} vs {:?}", cx.exceptions, cy.exceptions));
					}
					return attrs(&format!("{what} Code"), &cx.attrs, &cy.attrs);
				}
				if x.rank() == y.rank() {
					return Some(format!("{what}: attribute {}: {x:?} vs {y:?}", x.kind_name()));
				}
				return Some(format!("{what}: attribute {} ({x:?}) vs attribute {} ({y:?})", x.kind_name(), y.kind_name()));
			}
		}
		let (longer, side) = if a.len() > b.len() { (a, "expected") } else { (b, "actual") };
		Some(format!("{what}: only {side} has attribute {:?}", longer[a.len().min(b.len())]))
	}
	if let Some(d) = attrs("class", &a.attrs, &b.attrs) {
		return d;
	}
	for (kind, la, lb) in [("field", &a.fields, &b.fields), ("method", &a.methods, &b.methods)] {
		if la.len() != lb.len() {
			return format!("{} {kind}s vs {}", la.len(), lb.len());
		}
		for (i, (x, y)) in la.iter().zip(lb.iter()).enumerate() {
			if x.access != y.access || x.name != y.name || x.desc != y.desc {
				return format!("{kind} {i}: {:#x} {:?} {:?} vs {:#x} {:?} {:?}", x.access, x.name, x.desc, y.access, y.name, y.desc);
			}
			if let Some(d) = attrs(&format!("{kind} {i} ({}{})", x.name, x.desc), &x.attrs, &y.attrs) {
				return d;
			}
		}
	}
	"models differ (no detail found)".to_string()
}

/// removes from the expectation exactly what an open known finding says the reader loses
pub fn apply_reader_masks(expected: &mut CClass, obs: &mut Obs) {
	fn strip(attrs: &mut Vec<Attr>, f: &dyn Fn(&Attr) -> bool) -> bool {
		let before = attrs.len();
		attrs.retain(|a| !f(a));
		let mut changed = attrs.len() != before;
		for a in attrs.iter_mut() {
			if let Attr::Code(c) = a {
				changed |= strip(&mut c.attrs, f);
			}
		}
		changed
	}
	let has = |c: &CClass, f: &dyn Fn(&Attr) -> bool| c.methods.iter().any(|m| m.attrs.iter().any(|a| f(a) || matches!(a, Attr::Code(code) if code.attrs.iter().any(f)))) || c.attrs.iter().any(f);
	let param_ann = |a: &Attr| matches!(a, Attr::ParameterAnnotations { .. });
	if has(expected, &param_ann) && obs.known("C01-parameter-annotations") {
		for m in expected.methods.iter_mut() {
			strip(&mut m.attrs, &param_ann);
		}
	}
	let empty_record = |a: &Attr| matches!(a, Attr::Record(v) if v.is_empty());
	if has(expected, &empty_record) && obs.known("C01-empty-record") {
		strip(&mut expected.attrs, &empty_record);
	}
	let lvt = |a: &Attr| matches!(a, Attr::LocalVariableTable(_) | Attr::LocalVariableTypeTable(_));
	if has(expected, &lvt) && obs.known("C01-local-variable-tables") {
		for m in expected.methods.iter_mut() {
			strip(&mut m.attrs, &lvt);
		}
	}
}

pub fn read_and_project(bytes: &[u8]) -> Result<CClass, String> {
	// history: reads that fail (the same file cut short at two places) must leave nothing behind that shows in the next read
	if bytes.len() > 24 {
		for cut in [bytes.len() * 2 / 3, bytes.len() - 1] {
			let _ = crate::engine::no_panic(|| duke::read_class(&mut Cursor::new(&bytes[..cut])).is_ok());
		}
	}
	let tree = duke::read_class(&mut Cursor::new(bytes)).map_err(|e| format!("duke::read_class rejected a well-formed class file: {e:#}"))?;
	let p = project(&tree).map_err(|e| format!("the tree delivered by the reader is inconsistent: {e}"))?;
	// a source that hands out only a few bytes per `read` call must give the same class
	if bytes.len() < 8000 {
		let t2 = duke::read_class(&mut crate::engine::ShortReads::new(bytes)).map_err(|e| format!("duke::read_class fails on a source with short reads: {e:#}"))?;
		let p2 = project(&t2).map_err(|e| format!("the tree delivered by the reader (short reads) is inconsistent: {e}"))?;
		if p2 != p {
			return Err(format!("reading from a source with short reads gives another class: {}", first_diff(&p, &p2)));
		}
	}
	Ok(p)
}

pub fn labels_for(m: &CClass, forms: &[&'static str], obs: &mut Obs) {
	for f in forms {
		obs.label(format!("form:{f}"));
	}
	let mut kinds = std::collections::BTreeSet::new();
	fn walk(attrs: &[Attr], prefix: &str, kinds: &mut std::collections::BTreeSet<String>) {
		for a in attrs {
			kinds.insert(format!("attr:{prefix}{}", a.kind_name()));
			match a {
				Attr::Code(c) => {
					walk(&c.attrs, "Code.", kinds);
					for i in &c.insns {
						kinds.insert(match i {
							Insn::Simple(_) => "insn:simple".to_string(),
							Insn::Bipush(_) | Insn::Sipush(_) => "insn:push".to_string(),
							Insn::Ldc(k) => format!("insn:ldc:{}", match k {
								Const::Int(_) => "int",
								Const::Float(_) => "float",
								Const::Long(_) => "long",
								Const::Double(_) => "double",
								Const::Class(_) => "class",
								Const::Str(_) => "string",
								Const::MethodHandle(_) => "methodhandle",
								Const::MethodType(_) => "methodtype",
								Const::Dynamic { bsm, .. } => if bsm.args.iter().any(|a| matches!(a, Const::Dynamic { .. })) { "condy_nested" } else { "condy" },
							}),
							Insn::Local { .. } => "insn:local".to_string(),
							Insn::Iinc { .. } => "insn:iinc".to_string(),
							Insn::Branch { .. } => "insn:branch".to_string(),
							Insn::TableSwitch { .. } => "insn:tableswitch".to_string(),
							Insn::LookupSwitch { .. } => "insn:lookupswitch".to_string(),
							Insn::Field { .. } => "insn:field".to_string(),
							Insn::Invoke { op, .. } => format!("insn:invoke{op}"),
							Insn::InvokeDynamic { .. } => "insn:invokedynamic".to_string(),
							Insn::Type { .. } => "insn:type".to_string(),
							Insn::NewArray(_) => "insn:newarray".to_string(),
							Insn::MultiANewArray { .. } => "insn:multianewarray".to_string(),
						});
					}
					for a in &c.attrs {
						if let Attr::StackMapTable(f) = a {
							for fr in f {
								kinds.insert(format!("frame:{}", match fr.kind {
									FrameKind::Same => "same",
									FrameKind::Same1(_) => "same1",
									FrameKind::Chop(_) => "chop",
									FrameKind::Append(_) => "append",
									FrameKind::Full(..) => "full",
								}));
							}
						}
					}
				}
				Attr::Record(rc) => {
					for r in rc {
						walk(&r.attrs, "Record.", kinds);
					}
				}
				_ => {}
			}
		}
	}
	walk(&m.attrs, "class.", &mut kinds);
	for f in &m.fields {
		walk(&f.attrs, "field.", &mut kinds);
	}
	for me in &m.methods {
		walk(&me.attrs, "method.", &mut kinds);
	}
	for k in kinds {
		obs.label(k);
	}
	obs.label(format!("major={}", m.major));
}

pub fn nontrivial_class(m: &CClass) -> bool {
	m.codes().any(|c| c.insns.iter().any(|i| matches!(i, Insn::Branch { .. } | Insn::TableSwitch { .. } | Insn::LookupSwitch { .. })) && c.insns.iter().any(|i| matches!(i, Insn::Ldc(_) | Insn::Field { .. } | Insn::Invoke { .. } | Insn::Type { .. } | Insn::InvokeDynamic { .. })))
}

fn fidelity(case: &Case, obs: &mut Obs) -> PropResult {
	let mut model = class_from_stream(&case.stream, 4, 40);
	let shared = crate::classfile::gen::share_bsms(&mut model, case.share);
	obs.label_if(shared > 0, "dynamic_sites_sharing_a_bootstrap_method");
	let mut nesting = 0usize;
	for l in crate::classfile::gen::apply_big(&mut model, case.big, usize::MAX) {
		if let Some(d) = l.strip_prefix("element_value_nesting=") {
			nesting = d.parse().unwrap_or(0);
		}
		obs.label(l);
	}
	let canon = model.canon();
	let mut projections: Vec<CClass> = Vec::new();
	let mut forms_all: Vec<&'static str> = Vec::new();
	for ch in [&case.c1, &case.c2] {
		let enc = match encode(&model, ch) {
			Ok(e) => e,
			Err(EncodeError::BranchTooFar { .. }) | Err(EncodeError::CodeTooLarge(_)) | Err(EncodeError::PoolTooLarge) => {
				obs.label("not_encodable");
				return Ok(());
			}
			Err(e) => return Err(format!("harness: encoder failed: {e:?}")),
		};
		// the oracle checks itself: the strict decoder must give back the model
		match decode(&enc.bytes) {
			Ok(d) => {
				let d = d.canon();
				if d != canon {
					return Err(format!("harness: decode(encode(m)) != m: {}", first_diff(&canon, &d)));
				}
			}
			Err(e) => return Err(format!("harness: strict decoder rejects encoder output: {e}")),
		}
		let mut expected = canon.clone();
		apply_reader_masks(&mut expected, obs);
		let got = match read_and_project(&enc.bytes) {
			Ok(g) => g,
			// open finding: the reader gives up beyond 256 levels of element value nesting (exactly this refusal, nothing else)
			Err(e) if nesting > 256 && e.contains("nesting deeper than 256 levels") && obs.known("C01-nesting-limit-256") => return Ok(()),
			Err(e) => return Err(e),
		};
		if got != expected {
			return Err(format!("the class the reader delivers differs from the class file: (file vs reader) {}", first_diff(&expected, &got)));
		}
		projections.push(got);
		forms_all.extend(enc.forms.iter().copied());
	}
	if projections[0] != projections[1] {
		return Err(format!("two encodings of the same class are read differently: {}", first_diff(&projections[0], &projections[1])));
	}
	forms_all.sort();
	forms_all.dedup();
	labels_for(&canon, &forms_all, obs);
	obs.label_if(case.c1.pool_seed != 0 || case.c2.pool_seed != 0, "pool_permuted");
	obs.label_if(case.c1.attr_seed != 0 || case.c2.attr_seed != 0, "attrs_permuted");
	obs.label_if(case.c1.junk_pool > 0 || case.c2.junk_pool > 0, "junk_pool_entries");
	obs.nontrivial_if(nontrivial_class(&canon) && !(case.c1.is_canonical() && case.c2.is_canonical()));
	Ok(())
}

/// the libFuzzer target `c01_structured` and its replay: bytes -> model + encoding choices -> fidelity
pub fn structured_from_bytes(data: &[u8], obs: &mut Obs) -> PropResult {
	if data.len() < 4 {
		return Ok(());
	}
	let split = ((data[0] as usize * data.len()) >> 8).max(1).min(data.len() - 1);
	let (a, b) = data.split_at(split);
	let model = class_from_stream(a, 4, 40);
	let ch = Choices { pool_seed: b.first().copied().unwrap_or(0) as u64, attr_seed: b.get(1).copied().unwrap_or(0) as u64, stream: b.to_vec(), junk_pool: b.get(2).copied().unwrap_or(0) % 8, junk_first: b.get(3).copied().unwrap_or(0) % 2 == 1, pool_first: vec![], dup_used: if b.get(4).copied().unwrap_or(0) % 4 == 3 { b.get(5).copied().unwrap_or(0) % 61 } else { 0 } };
	let Ok(enc) = encode(&model, &ch) else { return Ok(()) };
	let mut expected = model.canon();
	apply_reader_masks(&mut expected, obs);
	let got = read_and_project(&enc.bytes)?;
	if got != expected {
		return Err(format!("the class the reader delivers differs from the class file: (file vs reader) {}", first_diff(&expected, &got)));
	}
	Ok(())
}

fn fuzz(ctx: &mut Ctx) {
	let sub = "fuzz_structured";
	let by_value = |v: &serde_json::Value, obs: &mut Obs| -> PropResult { structured_from_bytes(&crate::props::c16::unhex(v["data_hex"].as_str().unwrap_or("")), obs) };
	if ctx.in_replay() {
		if let Some(v) = ctx.replay_case(sub) {
			let mut obs = ctx.new_obs();
			if let Err(e) = crate::engine::no_panic(|| by_value(&v, &mut obs)).and_then(|x| x) {
				ctx.push_violation(sub, e);
			}
		}
		return;
	}
	ctx.run_saved_values(sub, &by_value);
	if ctx.tier != crate::engine::Tier::Thorough {
		return;
	}
	let seeds: Vec<Vec<u8>> = (0..32u8).map(|i| (0..200).map(|k| (k as u8).wrapping_mul(i.wrapping_mul(7).wrapping_add(3))).collect()).collect();
	let o = crate::fuzzrun::campaign(ctx, "c01_structured", 120, &seeds, 2048);
	let template = ctx.new_obs();
	let _ = template;
	let open: Vec<String> = ctx.findings.open_ids("C01").into_iter().collect();
	crate::fuzzrun::report(ctx, sub, "c01_structured", o, &|input| {
		let ids: Vec<&str> = open.iter().map(|s| s.as_str()).collect();
		let mut obs = Obs::with_open(&ids);
		(serde_json::json!({"data_hex": crate::props::c16::hex(input)}), crate::engine::no_panic(|| structured_from_bytes(input, &mut obs)).and_then(|x| x))
	});
}

/// corpus classes (javac output): two independent parsers must agree
fn corpus(ctx: &mut Ctx) {
	let files = crate::corpus::load();
	ctx.run_enum("corpus_javac", |rec| {
		for (name, bytes) in &files {
			let mut obs = rec.obs();
			let r = crate::engine::no_panic(|| -> PropResult {
				let mut expected = decode(bytes).map_err(|e| format!("harness: the strict decoder rejects the javac-compiled class {name}: {e}"))?.canon();
				apply_reader_masks(&mut expected, &mut obs);
				let got = read_and_project(bytes).map_err(|e| format!("{name}: {e}"))?;
				if got != expected {
					return Err(format!("{name}: the class the reader delivers differs from the class file: (strict decoder vs reader) {}", first_diff(&expected, &got)));
				}
				labels_for(&expected, &[], &mut obs);
				obs.nontrivial_if(nontrivial_class(&expected));
				Ok(())
			})
			.and_then(|x| x);
			rec.case(|| serde_json::json!({"corpus_class": name, "bytes": bytes.len()}), crate::engine::fnv64(bytes), obs, r);
		}
	});
}

/// the reader on large methods (tens of kilobytes, offsets near the 16-bit limits, goto_w, wide locals): the
/// geometry models of C02 are ground truth here
fn large(case: &crate::props::c02::GeoCase, obs: &mut Obs) -> PropResult {
	for bump in 0..64u8 {
		let (model, ch) = crate::props::c02::geo_model(case, bump);
		let enc = match encode(&model, &ch) {
			Ok(e) => e,
			Err(EncodeError::BranchTooFar { .. }) | Err(EncodeError::CodeTooLarge(_)) => continue,
			Err(e) => return Err(format!("harness: encoder failed: {e:?}")),
		};
		let expected = model.canon();
		let got = read_and_project(&enc.bytes)?;
		if got != expected {
			return Err(format!("the class the reader delivers differs from the class file (large method): (file vs reader) {}", first_diff(&expected, &got)));
		}
		let size = enc.bytes.len();
		obs.label(format!("template{}", case.template));
		obs.label_if(size > 60_000, "file>60000_bytes");
		for f in &enc.forms {
			obs.label(format!("form:{f}"));
		}
		obs.nontrivial();
		return Ok(());
	}
	obs.label("input_not_encodable");
	Ok(())
}

pub fn run(ctx: &mut Ctx) {
	ctx.rule = "class models generated from a byte stream (all opcode families, all 9 loadable constant kinds incl. nested condy, every attribute duke models plus parameter annotations and unknown attributes at all five levels, versions 45.3..67) x two independent encodings (constant pool permutation with unused/duplicate entries, attribute order, ldc/ldc_w, xload_n/xload/wide, iinc/wide iinc, goto/goto_w, switch padding, split LineNumberTable, compact/extended frames, CLDC StackMap). Oracle: projection of the tree duke reads == the generating model; both encodings read identically; the harness's strict decoder must also return the model. Non-trivial = a method with a branch/switch and a pool-referencing instruction, and at least one non-canonical encoding; distinct by hash of the serialised case".into();
	ctx.assume("only defined access-flag bits are generated (duke models flags as named booleans)");
	ctx.assume("annotation attributes without annotations and empty debug tables state no fact; unused constant pool / bootstrap entries are not facts");
	ctx.assume("strings are valid Unicode (no unpaired surrogates); names are valid for duke's name types");
	ctx.run_sub("reader_fidelity", ctx.tier.pick(48000, 1200000), strategy, fidelity);
	ctx.run_sub("large_methods", ctx.tier.pick(1200, 30000), crate::props::c02::geo_strategy, large);
	corpus(ctx);
	fuzz(ctx);
}
