//! C02 — class writer emits a well-formed file denoting exactly the given class.
//!
//! Trees are obtained the only way a user can obtain them: by reading (all encodings of generated
//! models, geometry models, trees after a renaming).  The output of `duke::write_class` must pass
//! the harness's strict decoder and decode to the projection of the tree, under an alignment that
//! accepts `if<c> T` written as `if<!c> next; goto_w T` and nothing else.

use crate::classfile::decode::decode_traced;
use crate::classfile::encode::{encode, Choices, EncodeError};
use crate::classfile::gen::{choices, class_from_stream, class_stream};
use crate::classfile::model::*;
use crate::classfile::project::project;
use crate::engine::{Ctx, Obs, PropResult};
use crate::props::c01::{first_diff, labels_for, nontrivial_class};
use proptest::prelude::*;
use serde::{Deserialize, Serialize};
use std::io::Cursor;

pub fn opposite(op: u8) -> Option<u8> {
	Some(match op {
		153 => 154,
		154 => 153,
		155 => 156,
		156 => 155,
		157 => 158,
		158 => 157,
		159 => 160,
		160 => 159,
		161 => 162,
		162 => 161,
		163 => 164,
		164 => 163,
		165 => 166,
		166 => 165,
		198 => 199,
		199 => 198,
		_ => return None,
	})
}

/// every instruction index stored in a Code attribute goes through `f`
pub fn remap_code_indices(code: &mut Code, f: &dyn Fn(usize) -> usize) {
	for i in code.insns.iter_mut() {
		match i {
			Insn::Branch { target, .. } => *target = f(*target),
			Insn::TableSwitch { default, targets, .. } => {
				*default = f(*default);
				for t in targets {
					*t = f(*t);
				}
			}
			Insn::LookupSwitch { default, pairs } => {
				*default = f(*default);
				for (_, t) in pairs {
					*t = f(*t);
				}
			}
			_ => {}
		}
	}
	for e in code.exceptions.iter_mut() {
		e.start = f(e.start);
		e.end = f(e.end);
		e.handler = f(e.handler);
	}
	fn vt(v: &mut VType, f: &dyn Fn(usize) -> usize) {
		if let VType::Uninitialized(at) = v {
			*at = f(*at);
		}
	}
	for a in code.attrs.iter_mut() {
		match a {
			Attr::LineNumberTable(t) => {
				for (at, _) in t {
					*at = f(*at);
				}
			}
			Attr::LocalVariableTable(t) | Attr::LocalVariableTypeTable(t) => {
				for lv in t {
					lv.start = f(lv.start);
					lv.end = f(lv.end);
				}
			}
			Attr::StackMapTable(frames) => {
				for fr in frames {
					fr.at = f(fr.at);
					match &mut fr.kind {
						FrameKind::Same | FrameKind::Chop(_) => {}
						FrameKind::Same1(v) => vt(v, f),
						FrameKind::Append(l) => l.iter_mut().for_each(|v| vt(v, f)),
						FrameKind::Full(l, s) => {
							l.iter_mut().for_each(|v| vt(v, f));
							s.iter_mut().for_each(|v| vt(v, f));
						}
					}
				}
			}
			Attr::TypeAnnotations { list, .. } => {
				for ta in list {
					match &mut ta.target {
						Target::LocalVariable(t) | Target::ResourceVariable(t) => {
							for (s, e, _) in t {
								*s = f(*s);
								*e = f(*e);
							}
						}
						Target::InstanceOf(at) | Target::New(at) | Target::ConstructorReference(at) | Target::MethodReference(at) => *at = f(*at),
						Target::Cast(at, _)
						| Target::ConstructorInvocationTypeArgument(at, _)
						| Target::MethodInvocationTypeArgument(at, _)
						| Target::ConstructorReferenceTypeArgument(at, _)
						| Target::MethodReferenceTypeArgument(at, _) => *at = f(*at),
						_ => {}
					}
				}
			}
			_ => {}
		}
	}
}

/// Rewrites the expected code into the instruction numbering of the actual code: an expected
/// `if<c> T` may appear as the pair `if<!c> +2; goto T`.  Returns the rewritten expectation and the
/// expected indices that were matched as trampolines.
pub fn align_code(exp: &Code, act: &Code) -> Result<(Code, Vec<usize>), String> {
	let mut map: Vec<usize> = Vec::with_capacity(exp.insns.len() + 1);
	let mut tramp: Vec<usize> = Vec::new();
	let mut j = 0usize;
	for (i, e) in exp.insns.iter().enumerate() {
		map.push(j);
		let Some(a) = act.insns.get(j) else {
			return Err(format!("the written code ends after {j} instructions, instruction {i} ({e:?}) and later are missing"));
		};
		let mut step = 1;
		if let (Insn::Branch { op: eo, .. }, Insn::Branch { op: ao, target: at }) = (e, a) {
			if opposite(*eo) == Some(*ao) && *at == j + 2 && matches!(act.insns.get(j + 1), Some(Insn::Branch { op: 167, .. })) {
				step = 2;
				tramp.push(i);
			}
		}
		j += step;
	}
	map.push(j);
	if j != act.insns.len() {
		return Err(format!("the written code has {} instructions beyond the {} of the tree (first extra: {:?})", act.insns.len() - j, exp.insns.len(), act.insns.get(j)));
	}
	let mut out = exp.clone();
	let n = exp.insns.len();
	remap_code_indices(&mut out, &|at| if at <= n { map[at] } else { usize::MAX });
	if !tramp.is_empty() {
		let mut insns = Vec::with_capacity(act.insns.len());
		for (i, insn) in out.insns.into_iter().enumerate() {
			if tramp.binary_search(&i).is_ok() {
				let Insn::Branch { op, target } = insn else { unreachable!() };
				insns.push(Insn::Branch { op: opposite(op).unwrap(), target: map[i] + 2 });
				insns.push(Insn::Branch { op: 167, target });
			} else {
				insns.push(insn);
			}
		}
		out.insns = insns;
	}
	Ok((out, tramp))
}

/// worst-case encoded size of a code array (every variable-size instruction in its longest form)
pub fn worst_case_size(code: &Code) -> usize {
	code.insns
		.iter()
		.map(|i| match i {
			Insn::Simple(_) => 1,
			Insn::Bipush(_) | Insn::NewArray(_) => 2,
			Insn::Sipush(_) => 3,
			Insn::Ldc(_) => 3,
			Insn::Local { .. } => 4,
			Insn::Iinc { .. } => 6,
			Insn::Branch { op: 167 | 168, .. } => 5,
			Insn::Branch { .. } => 8,
			Insn::TableSwitch { targets, .. } => 1 + 3 + 12 + 4 * targets.len(),
			Insn::LookupSwitch { pairs, .. } => 1 + 3 + 8 + 8 * pairs.len(),
			Insn::Field { .. } | Insn::Type { .. } => 3,
			Insn::Invoke { op, .. } => if *op == 185 { 5 } else { 3 },
			Insn::InvokeDynamic { .. } => 5,
			Insn::MultiANewArray { .. } => 4,
		})
		.sum()
}

#[derive(Default, Debug)]
pub struct WriteStats {
	pub trampolines: usize,
	pub wide_gotos: usize,
	pub cascaded: usize,
	pub boundary_exact: usize,
	pub switch_pads: [usize; 4],
	pub ldc_w: usize,
	pub wide_locals: usize,
	pub max_code: usize,
}

/// The oracle: `written` must be a structurally valid class file denoting `expected` (canonical form).
pub fn check_written(expected: &CClass, written: &[u8], obs: &mut Obs) -> Result<WriteStats, String> {
	let (out, trace) = decode_traced(written).map_err(|e| format!("the written class file is not structurally valid: {e}"))?;
	let out = out.canon();
	let mut exp = expected.clone();
	let mut stats = WriteStats::default();
	if exp.methods.len() == out.methods.len() {
		let mut code_no = 0usize;
		for (me, ma) in exp.methods.iter_mut().zip(out.methods.iter()) {
			let ca = ma.attrs.iter().find_map(|a| if let Attr::Code(c) = a { Some(c) } else { None });
			let Some(ce) = me.attrs.iter_mut().find_map(|a| if let Attr::Code(c) = a { Some(c) } else { None }) else {
				if ca.is_some() {
					code_no += 1;
				}
				continue;
			};
			let Some(ca) = ca else { continue };
			let tr = trace.get(code_no).cloned().unwrap_or_default();
			code_no += 1;
			// known finding: the writer never emits StackMapTable
			let exp_has = ce.attrs.iter().any(|a| matches!(a, Attr::StackMapTable(f) if !f.is_empty()));
			let act_has = ca.attrs.iter().any(|a| matches!(a, Attr::StackMapTable(_)));
			if exp_has && !act_has && obs.known("C02-stackmap-not-written") {
				ce.attrs.retain(|a| !matches!(a, Attr::StackMapTable(_)));
			}
			let (aligned, tramp) = align_code(ce, ca).map_err(|e| format!("method {}{}: {e}", ma.name, ma.desc))?;
			// statistics from the written bytes
			stats.trampolines += tramp.len();
			stats.max_code = stats.max_code.max(tr.last().map(|x| x.0 + 1).unwrap_or(0));
			let mut widened_at: Vec<(usize, usize, usize)> = Vec::new(); // (pc, target pc, growth)
			let pc_of = |idx: usize| tr.get(idx).map(|x| x.0);
			for (k, (pc, op)) in tr.iter().enumerate() {
				match op {
					200 | 201 => {
						stats.wide_gotos += 1;
						if let Some(Insn::Branch { target, .. }) = ca.insns.get(k) {
							if let Some(t) = pc_of(*target) {
								let is_tramp = k > 0 && matches!(ca.insns.get(k - 1), Some(Insn::Branch { op, target }) if opposite(*op).is_some() && *target == k + 1);
								widened_at.push((if is_tramp { pc - 3 } else { *pc }, t, if is_tramp { 5 } else { 2 }));
							}
						}
					}
					170 | 171 => stats.switch_pads[(4 - (pc + 1) % 4) % 4] += 1,
					19 => stats.ldc_w += 1,
					196 => stats.wide_locals += 1,
					153..=168 | 198 | 199 => {
						if let Some(Insn::Branch { target, .. }) = ca.insns.get(k) {
							if let Some(t) = pc_of(*target) {
								let off = t as i64 - *pc as i64;
								if off == 32767 || off == -32768 {
									stats.boundary_exact += 1;
								}
							}
						}
					}
					_ => {}
				}
			}
			for (pc, t, _) in &widened_at {
				let (lo, hi) = if t > pc { (*pc, *t) } else { (*t, *pc) };
				let off = *t as i64 - *pc as i64;
				if off == 32768 || off == -32769 {
					stats.boundary_exact += 1;
				}
				let inner: usize = widened_at.iter().filter(|(p2, _, _)| *p2 > lo && *p2 < hi).map(|x| x.2).sum();
				let shrunk = (hi - lo) as i64 - inner as i64;
				if inner > 0 && ((t > pc && shrunk <= 32767) || (t < pc && shrunk <= 32768)) {
					stats.cascaded += 1;
				}
			}
			*ce = aligned;
		}
	}
	if exp != out {
		return Err(format!("the written class file does not denote the tree: (tree vs written file) {}", first_diff(&exp, &out)));
	}
	Ok(stats)
}

pub fn write_tree(tree: &duke::tree::class::ClassFile) -> Result<Vec<u8>, String> {
	// history: a write that fails half way (a buffer of 40 bytes) must leave nothing behind that shows in the next write
	{
		let mut small = [0u8; 40];
		let mut sink: &mut [u8] = &mut small[..];
		let _ = crate::engine::no_panic(|| duke::write_class(&mut sink, tree).is_ok());
	}
	let mut buf = Vec::new();
	match duke::write_class(&mut buf, tree) {
		Ok(()) => {
			// the same class written into a sink that takes only a few bytes per call must arrive completely
			if buf.len() < 8000 {
				let mut short = crate::engine::ShortWrites::new();
				if let Err(e) = duke::write_class(&mut short, tree) {
					return Err(format!("write into a sink with short writes failed: {e:#}"));
				}
				if short.out != buf {
					return Err(format!("INCOMPLETE: a sink that takes 1..7 bytes per call received {} bytes, a Vec received {}", short.out.len(), buf.len()));
				}
			}
			Ok(buf)
		}
		Err(e) => Err(format!("{e:#}")),
	}
}

/// read `bytes`, write the tree, check the output. Returns None when the writer refused legitimately.
pub fn read_write_check(bytes: &[u8], obs: &mut Obs) -> Result<Option<WriteStats>, String> {
	let tree = duke::read_class(&mut Cursor::new(bytes)).map_err(|e| format!("duke::read_class rejected a well-formed class file: {e:#}"))?;
	tree_write_check(&tree, obs)
}

pub fn tree_write_check(tree: &duke::tree::class::ClassFile, obs: &mut Obs) -> Result<Option<WriteStats>, String> {
	let expected = project(tree).map_err(|e| format!("harness: tree cannot be projected: {e}"))?.canon();
	match write_tree(tree) {
		Ok(out) => Ok(Some(check_written(&expected, &out, obs)?)),
		Err(e) => {
			let worst = expected.codes().map(worst_case_size).max().unwrap_or(0);
			// a table of more than 65535 entries does not fit the count of one attribute: a writer may split it or refuse
			let table_overflow = expected.codes().any(|c| c.attrs.iter().any(|a| matches!(a, Attr::LineNumberTable(t) if t.len() > 65535)));
			if worst > 65535 {
				obs.label("writer_refused_oversized");
				Ok(None)
			} else if table_overflow {
				obs.label("writer_refused_table_beyond_65535_entries");
				Ok(None)
			} else {
				Err(format!("duke::write_class failed on a class that fits a class file (largest method at most {worst} bytes): {e}"))
			}
		}
	}
}

// ---------------------------------------------------------------------------------------------
// sub-check 1: every tree C01's generator reaches

#[derive(Clone, Debug, Serialize, Deserialize)]
pub struct SmallCase {
	pub stream: Vec<u8>,
	pub ch: Choices,
	/// dynamic sites sharing the bootstrap method of the first one (see gen::share_bsms); 0 = none
	#[serde(default)]
	pub share: u16,
	/// an attribute payload around / beyond 64 KiB (gen::add_big_attribute); 0 = none
	#[serde(default)]
	pub big: u32,
}

fn small(case: &SmallCase, obs: &mut Obs) -> PropResult {
	let mut model = class_from_stream(&case.stream, 4, 40);
	let shared = crate::classfile::gen::share_bsms(&mut model, case.share);
	obs.label_if(shared > 0, "dynamic_sites_sharing_a_bootstrap_method");
	for l in crate::classfile::gen::apply_big(&mut model, case.big, 256) {
		obs.label(l);
	}
	let enc = match encode(&model, &case.ch) {
		Ok(e) => e,
		Err(EncodeError::BranchTooFar { .. }) | Err(EncodeError::CodeTooLarge(_)) | Err(EncodeError::PoolTooLarge) => {
			obs.label("not_encodable");
			return Ok(());
		}
		Err(e) => return Err(format!("harness: encoder failed: {e:?}")),
	};
	let stats = read_write_check(&enc.bytes, obs)?;
	let canon = model.canon();
	labels_for(&canon, &enc.forms, obs);
	if let Some(s) = stats {
		for (i, n) in s.switch_pads.iter().enumerate() {
			obs.label_if(*n > 0, &format!("written_switch_pad{i}"));
		}
		obs.label_if(s.ldc_w > 0, "written_ldc_w");
		obs.label_if(s.wide_locals > 0, "written_wide_local");
		obs.label_if(s.wide_gotos > 0, "written_goto_w");
	}
	obs.nontrivial_if(nontrivial_class(&canon));
	Ok(())
}

// ---------------------------------------------------------------------------------------------
// sub-check 2: branch geometry.  A first method uses `filler` distinct int constants so that in
// duke's output (pool filled in traversal order) the constants first used by the second method
// land past index 255, while the input has them at the lowest indices (`Choices::pool_first`):
// each such `ldc` grows by one byte when re-written, which is how a reader-reachable tree gets
// an `if` whose offset no longer fits 16 bits.

const IF_OPS: &[u8] = &[153, 154, 155, 156, 157, 158, 159, 160, 161, 162, 163, 164, 165, 166, 198, 199];

#[derive(Clone, Debug, Serialize, Deserialize)]
pub struct Jump {
	/// index into IF_OPS, or 16 = goto, 17 = jsr
	pub op: u8,
	pub backward: bool,
	/// written offset = +(32767 + e) / -(32768 + e) if nothing inside the span is widened
	pub e: i8,
	/// number of growing ldc inside the span
	pub k: u8,
}

#[derive(Clone, Debug, Serialize, Deserialize)]
pub struct GeoCase {
	/// 0 single, 1 two independent regions, 2 nested cascade (outer jump encloses the inner jump instruction), 3 chain of three, 4 total size around 65535
	pub template: u8,
	pub jumps: Vec<Jump>,
	/// number of distinct constants of the filler method (>= 256 pushes the rest past 255)
	pub filler: u16,
	/// a switch after each region: 0 none, 1 tableswitch, 2 lookupswitch
	pub switches: u8,
	/// small extra padding (0..3) in front, moves every alignment
	pub lead: u8,
	/// local variable index used by a load in the stretched region (around 255/256/65535)
	pub local: u16,
	/// extra bytes for template 4 (final size = 65535 + size_e before growth accounting)
	pub size_e: i8,
}

fn jump_strategy() -> impl Strategy<Value = Jump> {
	(0u8..18, any::<bool>(), -8i8..=8, 0u8..8).prop_map(|(op, backward, e, k)| Jump { op, backward, e, k })
}

pub fn geo_strategy() -> impl Strategy<Value = GeoCase> {
	(0u8..5, proptest::collection::vec(jump_strategy(), 3), prop_oneof![Just(300u16), 250u16..262, Just(0u16)], 0u8..3, 0u8..4, prop_oneof![Just(3u16), 250u16..260, Just(65535u16)], -6i8..=6)
		.prop_map(|(template, jumps, filler, switches, lead, local, size_e)| GeoCase { template, jumps, filler, switches, lead, local, size_e })
}

struct B {
	insns: Vec<Insn>,
	/// (instruction index of the jump, target label id)
	fix: Vec<(usize, usize)>,
	labels: Vec<Option<usize>>,
	next_const: i32,
	firsts: Vec<i32>,
}

impl B {
	fn pad(&mut self, bytes: usize) {
		// sipush (3 bytes) + nop (1 byte)
		let mut left = bytes;
		while left >= 3 {
			self.insns.push(Insn::Sipush((left % 1000) as i16));
			left -= 3;
		}
		for _ in 0..left {
			self.insns.push(Insn::Simple(0));
		}
	}
	fn ldcs(&mut self, k: usize) {
		for _ in 0..k {
			let v = self.next_const;
			self.next_const += 1;
			self.firsts.push(v);
			self.insns.push(Insn::Ldc(Const::Int(v)));
		}
	}
	fn new_label(&mut self) -> usize {
		self.labels.push(None);
		self.labels.len() - 1
	}
	fn place(&mut self, l: usize) {
		self.labels[l] = Some(self.insns.len());
		self.insns.push(Insn::Simple(0));
	}
	fn jump(&mut self, op: u8, l: usize) {
		let opc = if op < 16 { IF_OPS[op as usize] } else if op == 16 { 167 } else { 168 };
		self.fix.push((self.insns.len(), l));
		self.insns.push(Insn::Branch { op: opc, target: 0 });
	}
	fn switch(&mut self, kind: u8, ls: &[usize]) {
		if kind == 0 || ls.is_empty() {
			return;
		}
		let idx = self.insns.len();
		for (n, l) in ls.iter().enumerate() {
			self.fix.push((idx, *l + (n << 32)));
		}
		if kind == 1 {
			self.insns.push(Insn::TableSwitch { default: 0, low: -1, targets: vec![0; ls.len() - 1] });
		} else {
			self.insns.push(Insn::LookupSwitch { default: 0, pairs: (0..ls.len() - 1).map(|i| (i as i32 * 7 - 3, 0)).collect() });
		}
	}
	fn finish(mut self) -> (Vec<Insn>, Vec<i32>) {
		self.insns.push(Insn::Simple(177));
		for (idx, l) in &self.fix {
			let arm = l >> 32;
			let t = self.labels[l & 0xffff_ffff].expect("label placed");
			match &mut self.insns[*idx] {
				Insn::Branch { target, .. } => *target = t,
				Insn::TableSwitch { default, targets, .. } => {
					if arm == 0 {
						*default = t
					} else {
						targets[arm - 1] = t
					}
				}
				Insn::LookupSwitch { default, pairs } => {
					if arm == 0 {
						*default = t
					} else {
						pairs[arm - 1].1 = t
					}
				}
				_ => unreachable!(),
			}
		}
		(self.insns, self.firsts)
	}
}

fn jump_len(op: u8) -> usize {
	let _ = op;
	3
}

/// builds the model and the encoding choices of a geometry case
pub fn geo_model(case: &GeoCase, bump: u8) -> (CClass, Choices) {
	let mut case = case.clone();
	case.jumps[0].k = case.jumps[0].k.saturating_add(bump);
	let case = &case;
	let mut b = B { insns: Vec::new(), fix: Vec::new(), labels: Vec::new(), next_const: 1_000_000, firsts: Vec::new() };
	b.pad(case.lead as usize);
	b.insns.push(Insn::Local { op: 21, index: case.local });
	let region = |b: &mut B, j: &Jump, inner: &dyn Fn(&mut B) -> usize| {
		// span measured in the written file, everything narrow: forward  jump(3) + inner + D + 3k  = 32767 + e
		//                                                        backward nop(1) + inner + D + 3k = 32768 + e
		let k = j.k as usize;
		let l = b.new_label();
		let total = if j.backward { 32768 + j.e as i64 } else { 32767 + j.e as i64 } as usize;
		if j.backward {
			b.place(l);
			let used = inner(b);
			let d = total - 1 - used - 3 * k;
			b.pad(d);
			b.ldcs(k);
			b.jump(j.op, l);
		} else {
			b.jump(j.op, l);
			let used = inner(b);
			let d = total - jump_len(j.op) - used - 3 * k;
			b.pad(d);
			b.ldcs(k);
			b.place(l);
		}
		l
	};
	let none = |_: &mut B| 0usize;
	let mut seen: Vec<usize> = Vec::new();
	match case.template {
		0 => {
			let l = region(&mut b, &case.jumps[0], &none);
			seen.push(l);
		}
		1 => {
			// two regions need < 65535 bytes: second one is a short hop with its own growth
			let l = region(&mut b, &case.jumps[0], &none);
			seen.push(l);
			let l2 = b.new_label();
			b.jump(case.jumps[1].op, l2);
			b.ldcs(case.jumps[1].k as usize);
			b.place(l2);
			seen.push(l2);
		}
		2 | 3 => {
			// the outer region encloses the instructions of inner forward jumps that leave the region; an
			// inner jump that has to be widened stretches the outer span (forward outer), a widened
			// backward outer jump stretches the inner spans (backward outer)
			let depth = if case.template == 2 { 1 } else { 2 };
			let outer = case.jumps[0].clone();
			let inners: Vec<Jump> = case.jumps[1..=depth].to_vec();
			let inner_labels: std::cell::RefCell<Vec<usize>> = Default::default();
			let l = region(&mut b, &outer, &|b: &mut B| {
				let mut used = 0;
				for j in &inners {
					let il = b.new_label();
					b.jump(j.op, il);
					inner_labels.borrow_mut().push(il);
					used += 3;
				}
				used
			});
			seen.push(l);
			let inner_labels = inner_labels.into_inner();
			for (n, il) in inner_labels.iter().enumerate() {
				let j = &case.jumps[1 + n];
				b.pad((j.e as i64 + 8) as usize);
				b.ldcs(j.k as usize);
				b.place(*il);
				seen.push(*il);
			}
		}
		_ => {
			// total size around 65535: a backward region ends the method
			let j = Jump { backward: true, ..case.jumps[0].clone() };
			let total = 65535i64 + case.size_e as i64;
			let p0 = total - (case.lead as i64 + 4) - (32768 + j.e as i64) - 3 - 1;
			b.pad(p0 as usize);
			let l = region(&mut b, &j, &none);
			seen.push(l);
		}
	}
	if case.switches != 0 {
		let ls: Vec<usize> = seen.iter().cycle().take(4).cloned().collect();
		b.switch(case.switches, &ls);
	}
	let (insns, firsts) = b.finish();
	let n = insns.len();
	let geo = Code {
		max_stack: 2,
		max_locals: case.local.saturating_add(1),
		exceptions: vec![ExcEntry { start: 1, end: n - 1, handler: n - 1, catch: None }, ExcEntry { start: n / 2, end: n, handler: 0, catch: Some("java/lang/Throwable".into()) }],
		attrs: vec![
			Attr::LineNumberTable(vec![(0, 1), (n / 2, 2), (n - 1, 3)]),
			Attr::LocalVariableTable(vec![LocalVar { start: 1, end: n, name: "x".into(), ty: "I".into(), index: 1 }, LocalVar { start: n / 2, end: n - 1, name: "y".into(), ty: "J".into(), index: 2 }]),
		],
		insns,
	};
	let mut filler_insns: Vec<Insn> = (0..case.filler as i32).map(|v| Insn::Ldc(Const::Int(2_000_000 + v))).collect();
	filler_insns.push(Insn::Simple(177));
	let filler = Code { max_stack: 1, max_locals: 0, insns: filler_insns, exceptions: vec![], attrs: vec![] };
	let class = CClass {
		minor: 0,
		major: 49,
		access: 0x21,
		name: "geo/G".into(),
		super_class: Some("java/lang/Object".into()),
		interfaces: vec![],
		fields: vec![],
		methods: vec![
			CMember { access: 9, name: "filler".into(), desc: "()V".into(), attrs: vec![Attr::Code(filler)] },
			CMember { access: 9, name: "geo".into(), desc: "()V".into(), attrs: vec![Attr::Code(geo)] },
		],
		attrs: vec![],
	};
	(class, Choices { pool_first: firsts, ..Choices::default() })
}

fn geometry(case: &GeoCase, obs: &mut Obs) -> PropResult {
	// more growing constants inside the first span shrink the input distances and leave the written
	// distances alone: take the smallest number that makes the input expressible
	let mut enc = None;
	for bump in 0..64u8 {
		let (model, ch) = geo_model(case, bump);
		match encode(&model, &ch) {
			Ok(e) => {
				enc = Some(e);
				break;
			}
			Err(EncodeError::BranchTooFar { .. }) | Err(EncodeError::CodeTooLarge(_)) => continue,
			Err(e) => return Err(format!("harness: encoder failed: {e:?}")),
		}
	}
	let Some(enc) = enc else {
		obs.label("input_not_encodable");
		return Ok(());
	};
	obs.label(format!("template{}", case.template));
	let stats = read_write_check(&enc.bytes, obs)?;
	match stats {
		None => {}
		Some(s) => {
			obs.label_if(s.trampolines > 0, "written_if_trampoline");
			obs.label_if(s.trampolines > 1, "written_if_trampoline>=2");
			obs.label_if(s.wide_gotos > s.trampolines, "written_goto_w/jsr_w");
			obs.label_if(s.cascaded > 0, "cascade:widening_pushed_another_jump_over");
			obs.label_if(s.boundary_exact > 0, "offset_exactly_at_limit(32767/-32768/32768/-32769)");
			obs.label_if(s.ldc_w > 0, "ldc_grew_to_ldc_w");
			obs.label_if(s.wide_locals > 0, "wide_local");
			obs.label_if(s.max_code > 65000, "code>65000");
			for (i, n) in s.switch_pads.iter().enumerate() {
				obs.label_if(*n > 0, &format!("switch_pad{i}"));
			}
			let j = &case.jumps[0];
			obs.label(format!("first_jump:{}:{}", if j.op < 16 { "if" } else if j.op == 16 { "goto" } else { "jsr" }, if j.backward { "backward" } else { "forward" }));
			obs.nontrivial_if(s.trampolines + s.wide_gotos > 0 || s.ldc_w > 0);
		}
	}
	Ok(())
}

// ---------------------------------------------------------------------------------------------
// sub-check 2b: the 65535-byte limit, enumerated.  A method of `written - k` bytes in the input whose k
// `ldc` each grow by one byte when re-written (same mechanism as above) comes out at exactly `written`
// bytes: up to 65535 the writer has to produce it, from 65536 on it has to refuse (JVMS 4.7.3:
// code_length < 65536) - the strict decoder rejects a file that claims more.

fn limit_model(written: usize, k: usize, tables: bool) -> (CClass, Choices) {
	let mut b = B { insns: Vec::new(), fix: Vec::new(), labels: Vec::new(), next_const: 1_000_000, firsts: Vec::new() };
	b.pad(written - 3 * k - 1);
	b.ldcs(k);
	let (insns, firsts) = b.finish();
	let n = insns.len();
	let code = Code {
		max_stack: 2,
		max_locals: 1,
		// ranges that end at the end of the code array: their end offset is the code length itself
		exceptions: if tables { vec![ExcEntry { start: 0, end: n, handler: n - 1, catch: None }] } else { vec![] },
		attrs: if tables {
			vec![Attr::LineNumberTable(vec![(0, 1), (n - 1, 2)]), Attr::LocalVariableTable(vec![LocalVar { start: 0, end: n, name: "x".into(), ty: "I".into(), index: 0 }])]
		} else {
			vec![]
		},
		insns,
	};
	let mut filler_insns: Vec<Insn> = (0..300).map(|v| Insn::Ldc(Const::Int(2_000_000 + v))).collect();
	filler_insns.push(Insn::Simple(177));
	let filler = Code { max_stack: 1, max_locals: 0, insns: filler_insns, exceptions: vec![], attrs: vec![] };
	let class = CClass {
		minor: 0,
		major: 49,
		access: 0x21,
		name: "geo/L".into(),
		super_class: Some("java/lang/Object".into()),
		interfaces: vec![],
		fields: vec![],
		methods: vec![
			CMember { access: 9, name: "filler".into(), desc: "()V".into(), attrs: vec![Attr::Code(filler)] },
			CMember { access: 9, name: "big".into(), desc: "()V".into(), attrs: vec![Attr::Code(code)] },
		],
		attrs: vec![],
	};
	(class, Choices { pool_first: firsts, ..Choices::default() })
}


// ---------------------------------------------------------------------------------------------
// sub-check 2c: the 65535-entry limit of the constant pool, enumerated.  The class `a` has a field that is also called
// `a` (one Utf8 constant for both in the input), an annotation holding an array of n distinct ints and, as the last thing a
// writer meets, a long.  n is chosen so that the input pool has 65531 ... 65535 slots (65535 is the largest count a class
// file can state; the long then sits in the last two slots).  Renaming the class - not the field - makes the written pool
// one Utf8 larger than the pool that was read: up to 65534 slots in the input the writer has to produce a valid file, at
// 65535 the long no longer fits and the writer has to refuse (JVMS 4.4.5: the slot after a long must exist and is unusable).

/// a class file whose constant pool has exactly `count` slots (no long / double in it): an annotation array of distinct ints
pub fn full_pool_class(count: usize) -> Option<Vec<u8>> {
	use crate::classfile::model::{Annotation, ElementValue};
	let model = |n: usize| CClass { minor: 0, major: 52, access: 0x21, name: "a/FullPool".into(), super_class: Some("java/lang/Object".into()), interfaces: vec![], fields: vec![], methods: vec![], attrs: vec![Attr::Annotations { visible: true, list: vec![Annotation { ty: "Lann/A;".into(), pairs: vec![("v".to_string(), ElementValue::Array((0..n).map(|k| ElementValue::Int(1000 + k as i32)).collect()))] }] }] };
	let probe = encode(&model(10), &Choices::default()).ok()?;
	let overhead = probe.pool_len - 10;
	let e = encode(&model(count.checked_sub(overhead)?), &Choices::default()).ok()?;
	if e.pool_len == count { Some(e.bytes) } else { None }
}

fn pool_limit(ctx: &mut Ctx) {
	use crate::classfile::model::{Annotation, ElementValue};
	use crate::jar::ByRef;
	use crate::mapmodel::conv::to_quill;
	use crate::mapmodel::{MClass, MapSet};
	let model = |n: usize, long_last: bool| -> CClass {
		let mut pairs = vec![("v".to_string(), ElementValue::Array((0..n).map(|k| ElementValue::Int(1000 + k as i32)).collect()))];
		if long_last {
			pairs.push(("w".to_string(), ElementValue::Long(0x0102_0304_0506_0708)));
		} else {
			pairs.insert(0, ("w".to_string(), ElementValue::Long(0x0102_0304_0506_0708)));
		}
		CClass { minor: 0, major: 52, access: 0x21, name: "a".into(), super_class: Some("java/lang/Object".into()), interfaces: vec![], fields: vec![CMember { access: 2, name: "a".into(), desc: "I".into(), attrs: vec![Attr::Annotations { visible: true, list: vec![Annotation { ty: "Lann/A;".into(), pairs: vec![] }] }] }], methods: vec![], attrs: vec![Attr::Annotations { visible: true, list: vec![Annotation { ty: "Lann/A;".into(), pairs }] }] }
	};
	// (the field carries an annotation too, so that every name a writer needs for the class's annotation attribute is in its
	// pool before it gets there, whatever order it works in: the long is then the last constant it has to add)
	// how many slots the rest of the class takes (measured, not assumed)
	let Ok(probe) = encode(&model(10, true), &Choices::default()) else { return };
	let overhead = probe.pool_len - 10;
	let mut names = MapSet { ns: vec!["official".into(), "named".into()], classes: Default::default() };
	names.classes.insert("a".into(), MClass { names: vec![Some("a".into()), Some("zz/Renamed".into())], ..Default::default() });
	ctx.run_enum("pool_size_limit", |rec| {
		for count_in in 65529usize..=65535 {
			for long_last in [true, false] {
				let mut obs = rec.obs();
				let r = crate::engine::no_panic(|| -> PropResult {
					let m = model(count_in - overhead, long_last);
					let enc = encode(&m, &Choices::default()).map_err(|e| format!("harness: encoder failed: {e:?}"))?;
					if enc.pool_len != count_in {
						return Err(format!("harness: expected an input pool of {count_in} slots, the encoder made {}", enc.pool_len));
					}
					// written as it is: same pool, must come out valid
					if read_write_check(&enc.bytes, &mut obs).map_err(|e| format!("input pool of {count_in} slots, written as read: {e}"))?.is_none() {
						return Err(format!("the writer refused a class whose pool has {count_in} slots when read and needs no more when written"));
					}
					// renamed: one Utf8 more
					let q = to_quill::<2, Ns>(&names, 0).map_err(|e| format!("harness: {e:#}"))?;
					let remapper = q.remapper_b_first_to_second(quill::remapper::NoSuperClassProvider::new()).map_err(|e| format!("harness: {e:#}"))?;
					let tree = duke::read_class(&mut std::io::Cursor::new(&enc.bytes)).map_err(|e| format!("duke::read_class rejected a well-formed class file: {e:#}"))?;
					let renamed = dukebox::remap::remap_class(&ByRef(&remapper), dukebox::storage::VecClass(enc.bytes.clone())).map_err(|e| format!("remap_class failed: {e:#}"))?;
					let _ = tree;
					let expected = project(&renamed).map_err(|e| format!("harness: {e}"))?.canon();
					match write_tree(&renamed) {
						Ok(out) => {
							check_written(&expected, &out, &mut obs).map_err(|e| format!("input pool of {count_in} slots, one more constant when written: {e}"))?;
							if count_in + 1 > 65535 {
								return Err(format!("harness: a pool of {} slots was written", count_in + 1));
							}
							obs.label(format!("written_pool:{}", if count_in + 1 == 65535 { "exactly_65535_slots" } else { "below_65535_slots" }));
						}
						Err(e) => {
							if count_in + 1 <= 65535 {
								return Err(format!("the writer refused a class whose written pool needs {} slots (the largest count is 65535): {e}", count_in + 1));
							}
							obs.label("refused:pool_would_need_65536_slots");
						}
					}
					obs.label(if long_last { "long_is_the_last_constant_met" } else { "long_is_met_before_the_ints" });
					obs.nontrivial_if(true);
					Ok(())
				})
				.and_then(|x| x);
				rec.case(|| serde_json::json!({"input_pool_slots": count_in, "long_last": long_last}), crate::engine::fnv64(format!("pool{count_in}/{long_last}").as_bytes()), obs, r);
			}
		}
	});
}

fn code_limit(ctx: &mut Ctx) {
	ctx.run_enum("code_size_limit", |rec| {
		for written in 65524usize..=65548 {
			for k in 0usize..=14 {
				for tables in [false, true] {
					if written - k > 65535 {
						continue; // the input itself would not fit a class file
					}
					let mut obs = rec.obs();
					let r = crate::engine::no_panic(|| -> PropResult {
						let (model, ch) = limit_model(written, k, tables);
						let enc = encode(&model, &ch).map_err(|e| format!("harness: encoder failed: {e:?}"))?;
						match read_write_check(&enc.bytes, &mut obs).map_err(|e| format!("method that is {written} bytes when written ({} in the input): {e}", written - k))? {
							Some(s) => {
								if s.max_code != written {
									return Err(format!("harness: expected the written method to be {written} bytes, it is {}", s.max_code));
								}
								obs.label(format!("written:{}", if written == 65535 { "exactly_65535" } else { "below_65535" }));
								obs.label_if(k > 0, "grew_on_rewrite");
							}
							None => {
								if written <= 65535 {
									return Err(format!("harness: refusal accepted for a method of {written} bytes"));
								}
								obs.label(format!("refused:{}", if written == 65536 { "exactly_65536" } else { "above_65536" }));
							}
						}
						obs.nontrivial_if(k > 0);
						Ok(())
					})
					.and_then(|x| x);
					rec.case(|| serde_json::json!({"written_size": written, "growing_ldc": k, "ranges_to_code_end": tables}), crate::engine::fnv64(format!("{written}/{k}/{tables}").as_bytes()), obs, r);
				}
			}
		}
	});
}

// ---------------------------------------------------------------------------------------------
// sub-check 3: trees after a renaming (dukebox::remap with a generated quill remapper)

struct Ns;

fn remapped(case: &crate::props::c07::Case, obs: &mut Obs) -> PropResult {
	use crate::jar::{build_jar, ByRef, Entry};
	use dukebox::storage::{ClassRepr, Jar, JarEntryEnum};
	let models = crate::props::c07::jar_models(&case.streams, 4, 30);
	let mut entries: Vec<(String, Entry)> = Vec::new();
	for m in &models {
		if let Ok(e) = encode(m, &case.ch) {
			entries.push((format!("{}.class", m.name), Entry::Class(e.bytes)));
		}
	}
	if entries.is_empty() {
		return Ok(());
	}
	let kept: Vec<CClass> = models.iter().filter(|m| entries.iter().any(|(n, _)| n.strip_suffix(".class") == Some(m.name.as_str()))).cloned().collect();
	let set = crate::props::c07::mappings_for(&kept, &case.map_stream);
	let q = crate::mapmodel::conv::to_quill::<2, Ns>(&set, 0).map_err(|e| format!("harness: {e:#}"))?;
	let jar = build_jar(&entries, case.input_form == 1)?;
	let provider = jar.get_super_classes_provider().map_err(|e| format!("{e:#}"))?;
	let remapper = q.remapper_b_first_to_second(&provider).map_err(|e| format!("{e:#}"))?;
	let result = dukebox::remap::remap(jar, ByRef(&remapper)).map_err(|e| format!("harness: remap failed (C07's subject): {e:#}"))?;
	let mut any = false;
	for (name, entry) in &result.entries {
		if let JarEntryEnum::Class(ClassRepr::Parsed { class }) = &entry.content {
			tree_write_check(class, obs).map_err(|e| format!("class {name} after renaming: {e}"))?;
			any = true;
		}
	}
	obs.nontrivial_if(any && !set.classes.is_empty());
	Ok(())
}

/// the libFuzzer target `c02_rewrite` and its replay: any byte string that is a well-formed class file (strict decoder)
/// and that duke reads must be re-written faithfully
pub fn rewrite_from_bytes(data: &[u8], obs: &mut Obs) -> PropResult {
	if crate::classfile::decode::decode(data).is_err() {
		return Ok(());
	}
	let Ok(tree) = duke::read_class(&mut Cursor::new(data)) else { return Ok(()) };
	if project(&tree).is_err() {
		return Ok(());
	}
	tree_write_check(&tree, obs).map(|_| ())
}

fn fuzz(ctx: &mut Ctx) {
	let sub = "fuzz_rewrite";
	let by_value = |v: &serde_json::Value, obs: &mut Obs| -> PropResult { rewrite_from_bytes(&crate::props::c16::unhex(v["data_hex"].as_str().unwrap_or("")), obs) };
	if ctx.in_replay() {
		if let Some(v) = ctx.replay_case(sub) {
			let mut obs = ctx.new_obs();
			if let Err(e) = crate::engine::no_panic(|| by_value(&v, &mut obs)).and_then(|x| x) {
				ctx.push_violation(sub, e);
			}
		}
		return;
	}
	ctx.run_saved_values(sub, &by_value);
	if ctx.tier != crate::engine::Tier::Thorough {
		return;
	}
	let seeds: Vec<Vec<u8>> = crate::corpus::load().into_iter().map(|x| x.1).filter(|b| b.len() < 6000).collect();
	let o = crate::fuzzrun::campaign(ctx, "c02_rewrite", 120, &seeds, 8192);
	let open: Vec<String> = ctx.findings.open_ids("C02").into_iter().collect();
	crate::fuzzrun::report(ctx, sub, "c02_rewrite", o, &|input| {
		let ids: Vec<&str> = open.iter().map(|s| s.as_str()).collect();
		let mut obs = Obs::with_open(&ids);
		(serde_json::json!({"data_hex": crate::props::c16::hex(input)}), crate::engine::no_panic(|| rewrite_from_bytes(input, &mut obs)).and_then(|x| x))
	});
}

fn corpus(ctx: &mut Ctx) {
	let files = crate::corpus::load();
	ctx.run_enum("corpus_javac", |rec| {
		for (name, bytes) in &files {
			let mut obs = rec.obs();
			let r = crate::engine::no_panic(|| -> PropResult {
				let stats = read_write_check(bytes, &mut obs).map_err(|e| format!("{name}: {e}"))?;
				if let Some(s) = stats {
					obs.label_if(s.wide_gotos > 0, "written_goto_w");
					obs.label_if(s.ldc_w > 0, "written_ldc_w");
					obs.label_if(s.max_code > 32768, "code>32768");
				}
				obs.nontrivial();
				Ok(())
			})
			.and_then(|x| x);
			rec.case(|| serde_json::json!({"corpus_class": name, "bytes": bytes.len()}), crate::engine::fnv64(bytes), obs, r);
		}
	});
}

pub fn run(ctx: &mut Ctx) {
	crate::engine::silence_stderr();
	ctx.rule = "trees are obtained by duke::read_class from (a) class models of C01's generator under generated encodings, (c) the same after a renaming by dukebox::remap with a generated remapper, and (b) geometry classes: a filler method first-uses >=256 constants so that `ldc`s of the second method grow to `ldc_w` when re-written, stretching jumps laid out at 32767+-8 / -32768+-8 (if*/goto/jsr, forward/backward, nested so that widening one jump pushes another over, switches behind the stretched region, locals around 255/256/65535, total size around 65535). Oracle: duke::write_class output passes the harness's strict JVMS decoder (indices, tags, exact lengths, code limits, boundaries, padding) and decodes to the projection of the tree, where an expected `if<c> T` may appear as `if<!c> +2; goto_w T` and every index-bearing table entry is compared through the alignment; an Err is accepted only if some method cannot fit 65535 bytes in its worst-case encoding. Non-trivial = (a) method with branch and pool reference, (b) output contains a widened jump or a grown ldc; distinct by case hash".into();
	ctx.assume("trees come from reading valid class files (a Label cannot be constructed outside duke)");
	ctx.assume("no particular encoding, constant pool order or attribute order is required of the output");
	ctx.run_sub("write_read_trees", ctx.tier.pick(24000, 1200000), || (class_stream(), choices(), prop_oneof![2 => Just(0u16), 1 => Just(0xffffu16), 1 => any::<u16>()], crate::classfile::gen::big_choice()).prop_map(|(stream, ch, share, big)| SmallCase { stream, ch, share, big }), small);
	ctx.run_sub("branch_geometry", ctx.tier.pick(800, 40000), geo_strategy, geometry);
	code_limit(ctx);
	pool_limit(ctx);
	ctx.run_sub(
		"write_remapped_trees",
		ctx.tier.pick(3000, 150000),
		|| (proptest::collection::vec(class_stream(), 1..=3), choices(), proptest::collection::vec(any::<u8>(), 0..120), 0u8..2).prop_map(|(streams, ch, map_stream, input_form)| crate::props::c07::Case { streams, ch, map_stream, input_form, sigs: 0 }),
		remapped,
	);
	corpus(ctx);
	fuzz(ctx);
}
