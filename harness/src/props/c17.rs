//! C17 — partial and replaying visitors observe the same facts as a full read.

use crate::classfile::encode::{encode, Choices};
use crate::classfile::gen::{choices, class_from_stream, class_stream};
use crate::classfile::model::*;
use crate::classfile::project::project;
use crate::engine::{Ctx, Obs, PropResult};
use crate::props::c01::first_diff;
use duke::tree::class::ClassFile;
use duke::tree::field::{Field, FieldAccess, FieldDescriptor, FieldName};
use duke::tree::method::{Method, MethodAccess, MethodDescriptor, MethodName};
use duke::verif::masked::{MaskPlan, MaskedMulti};
use duke::visitor::simple::class::SimpleClassVisitor;
use duke::visitor::MultiClassVisitor;
use proptest::prelude::*;
use serde::{Deserialize, Serialize};
use std::io::Cursor;
use std::ops::ControlFlow;

#[derive(Clone, Debug, Serialize, Deserialize, Default)]
pub struct Plan {
	pub class: Vec<bool>,
	pub field: Vec<bool>,
	pub method: Vec<bool>,
	pub code: Vec<bool>,
	pub record: Vec<bool>,
	pub decline_classes: Vec<usize>,
	pub decline_fields: Vec<usize>,
	pub decline_methods: Vec<usize>,
	pub decline_codes: Vec<usize>,
	pub decline_records: Vec<usize>,
}

fn arr<const N: usize>(v: &[bool]) -> [bool; N] {
	let mut a = [true; N];
	for (i, x) in a.iter_mut().enumerate() {
		*x = v.get(i).copied().unwrap_or(true);
	}
	a
}

impl Plan {
	fn to_duke(&self) -> MaskPlan {
		MaskPlan {
			class: arr(&self.class),
			field: arr(&self.field),
			method: arr(&self.method),
			code: arr(&self.code),
			record: arr(&self.record),
			decline_classes: self.decline_classes.clone(),
			decline_fields: self.decline_fields.clone(),
			decline_methods: self.decline_methods.clone(),
			decline_codes: self.decline_codes.clone(),
			decline_records: self.decline_records.clone(),
		}
	}
	fn is_all(&self) -> bool {
		[&self.class, &self.field, &self.method, &self.code, &self.record].iter().all(|v| v.iter().all(|b| *b))
	}
	fn is_none(&self) -> bool {
		[&self.class, &self.field, &self.method, &self.code, &self.record].iter().all(|v| v.iter().all(|b| !*b))
	}
}

fn mask_strategy(n: usize) -> impl Strategy<Value = Vec<bool>> {
	prop_oneof![
		2 => Just(vec![true; n]),
		1 => Just(vec![false; n]),
		4 => proptest::collection::vec(any::<bool>(), n),
		// exactly one flag off / on
		2 => (0..n).prop_map(move |i| (0..n).map(|k| k != i).collect()),
		1 => (0..n).prop_map(move |i| (0..n).map(|k| k == i).collect()),
	]
}

fn decline_strategy() -> impl Strategy<Value = Vec<usize>> {
	prop_oneof![3 => Just(vec![]), 3 => proptest::collection::vec(0usize..5, 1..3), 1 => Just(vec![0]), 1 => Just(vec![0, 1, 2, 3, 4, 5])]
}

fn plan_strategy() -> impl Strategy<Value = Plan> {
	(
		(mask_strategy(19), mask_strategy(7), mask_strategy(12), mask_strategy(7), mask_strategy(6)),
		(prop_oneof![3 => Just(vec![]), 1 => proptest::collection::vec(0usize..4, 1..3)], decline_strategy(), decline_strategy(), decline_strategy(), decline_strategy()),
	)
		.prop_map(|((class, field, method, code, record), (decline_classes, decline_fields, decline_methods, decline_codes, decline_records))| Plan {
			class,
			field,
			method,
			code,
			record,
			decline_classes,
			decline_fields,
			decline_methods,
			decline_codes,
			decline_records,
		})
}

#[derive(Clone, Debug, Serialize, Deserialize)]
pub struct Case {
	pub streams: Vec<Vec<u8>>,
	pub ch: Choices,
	pub plan: Plan,
	pub trailing: Vec<u8>,
	/// size / shape extension applied to every class of the stream (gen::apply_big); 0 = none
	#[serde(default)]
	pub big: u32,
}

fn strategy() -> impl Strategy<Value = Case> {
	(proptest::collection::vec(class_stream(), 1..4), choices(), plan_strategy(), proptest::collection::vec(any::<u8>(), 0..6), crate::classfile::gen::big_choice()).prop_map(|(streams, ch, plan, trailing, big)| Case { streams, ch, plan, trailing, big })
}

// ---------------------------------------------------------------------------------------------
// the reference: restriction of the full read

fn keep<T: Clone>(list: &[T], declined: &[usize]) -> Vec<T> {
	list.iter().enumerate().filter(|(i, _)| !declined.contains(i)).map(|(_, x)| x.clone()).collect()
}

fn on(mask: &[bool], i: usize) -> bool {
	mask.get(i).copied().unwrap_or(true)
}

pub fn restrict(full: &CClass, plan: &Plan) -> CClass {
	let mut c = full.clone();
	let m = &plan.class;
	c.attrs.retain_mut(|a| match a {
		Attr::InnerClasses(_) => on(m, 0),
		Attr::EnclosingMethod { .. } => on(m, 1),
		Attr::Signature(_) => on(m, 2),
		Attr::SourceFile(_) => on(m, 3),
		Attr::SourceDebugExtension(_) => on(m, 4),
		Attr::Annotations { visible, .. } => on(m, if *visible { 5 } else { 6 }),
		Attr::TypeAnnotations { visible, .. } => on(m, if *visible { 7 } else { 8 }),
		Attr::Module(_) => on(m, 9),
		Attr::ModulePackages(_) => on(m, 10),
		Attr::ModuleMainClass(_) => on(m, 11),
		Attr::NestHost(_) => on(m, 12),
		Attr::NestMembers(_) => on(m, 13),
		Attr::PermittedSubclasses(_) => on(m, 14),
		Attr::Record(components) => {
			if !on(m, 15) {
				return false;
			}
			*components = keep(components, &plan.decline_records);
			for rc in components.iter_mut() {
				let r = &plan.record;
				rc.attrs.retain(|a| match a {
					Attr::Signature(_) => on(r, 0),
					Attr::Annotations { visible, .. } => on(r, if *visible { 1 } else { 2 }),
					Attr::TypeAnnotations { visible, .. } => on(r, if *visible { 3 } else { 4 }),
					Attr::Unknown { .. } => on(r, 5),
					_ => true,
				});
			}
			// a Record attribute without components cannot be told from none in the tree (C01-empty-record)
			!components.is_empty()
		}
		Attr::Unknown { .. } => on(m, 16),
		_ => true,
	});
	c.fields = keep(&c.fields, &plan.decline_fields);
	for f in c.fields.iter_mut() {
		let m = &plan.field;
		f.attrs.retain(|a| match a {
			Attr::ConstantValue(_) => on(m, 0),
			Attr::Signature(_) => on(m, 1),
			Attr::Annotations { visible, .. } => on(m, if *visible { 2 } else { 3 }),
			Attr::TypeAnnotations { visible, .. } => on(m, if *visible { 4 } else { 5 }),
			Attr::Unknown { .. } => on(m, 6),
			_ => true,
		});
	}
	let declined_code: Vec<bool> = (0..c.methods.len()).map(|i| plan.decline_codes.contains(&i)).collect();
	let mut methods = Vec::new();
	for (i, me) in c.methods.iter().enumerate() {
		if plan.decline_methods.contains(&i) {
			continue;
		}
		let mut me = me.clone();
		let m = &plan.method;
		me.attrs.retain_mut(|a| match a {
			Attr::Code(code) => {
				if !on(m, 0) || declined_code[i] {
					return false;
				}
				let k = &plan.code;
				code.attrs.retain(|a| match a {
					Attr::StackMapTable(_) => on(k, 0),
					Attr::LineNumberTable(_) => on(k, 1),
					Attr::LocalVariableTable(_) => on(k, 2),
					Attr::LocalVariableTypeTable(_) => on(k, 3),
					Attr::TypeAnnotations { visible, .. } => on(k, if *visible { 4 } else { 5 }),
					Attr::Unknown { .. } => on(k, 6),
					_ => true,
				});
				true
			}
			Attr::Exceptions(_) => on(m, 1),
			Attr::Signature(_) => on(m, 2),
			Attr::Annotations { visible, .. } => on(m, if *visible { 3 } else { 4 }),
			Attr::TypeAnnotations { visible, .. } => on(m, if *visible { 5 } else { 6 }),
			Attr::ParameterAnnotations { visible, .. } => on(m, if *visible { 7 } else { 8 }),
			Attr::AnnotationDefault(_) => on(m, 9),
			Attr::MethodParameters(_) => on(m, 10),
			Attr::Unknown { .. } => on(m, 11),
			_ => true,
		});
		methods.push(me);
	}
	c.methods = methods;
	c
}

// ---------------------------------------------------------------------------------------------
// a visitor written against the public SimpleClassVisitor interface

struct Simple {
	decline_fields: Vec<usize>,
	decline_methods: Vec<usize>,
	nf: usize,
	nm: usize,
	fields: Vec<Field>,
	methods: Vec<Method>,
}

impl SimpleClassVisitor for Simple {
	type FieldVisitor = Field;
	type MethodVisitor = Method;

	fn visit_field(&mut self, access: FieldAccess, name: FieldName, descriptor: FieldDescriptor) -> anyhow::Result<Option<Field>> {
		let i = self.nf;
		self.nf += 1;
		Ok(if self.decline_fields.contains(&i) { None } else { Some(Field::new(access, name, descriptor)) })
	}
	fn finish_field(&mut self, field_visitor: Field) -> anyhow::Result<()> {
		self.fields.push(field_visitor);
		Ok(())
	}
	fn visit_method(&mut self, access: MethodAccess, name: MethodName, descriptor: MethodDescriptor) -> anyhow::Result<Option<Method>> {
		let i = self.nm;
		self.nm += 1;
		Ok(if self.decline_methods.contains(&i) { None } else { Some(Method::new(access, name, descriptor)) })
	}
	fn finish_method(&mut self, method_visitor: Method) -> anyhow::Result<()> {
		self.methods.push(method_visitor);
		Ok(())
	}
}

struct SimpleMulti {
	plan: Plan,
	n: usize,
	/// (name, fields, methods) of the classes that were not declined
	out: Vec<(String, Vec<Field>, Vec<Method>)>,
}

impl MultiClassVisitor for SimpleMulti {
	type ClassVisitor = Simple;
	type ClassResidual = (SimpleMulti, String);

	fn visit_class(
		mut self,
		_version: duke::tree::version::Version,
		_access: duke::tree::class::ClassAccess,
		name: duke::tree::class::ObjClassName,
		_super_class: Option<duke::tree::class::ObjClassName>,
		_interfaces: Vec<duke::tree::class::ObjClassName>,
	) -> anyhow::Result<ControlFlow<Self, (Self::ClassResidual, Self::ClassVisitor)>> {
		let i = self.n;
		self.n += 1;
		if self.plan.decline_classes.contains(&i) {
			return Ok(ControlFlow::Break(self));
		}
		let s = Simple { decline_fields: self.plan.decline_fields.clone(), decline_methods: self.plan.decline_methods.clone(), nf: 0, nm: 0, fields: vec![], methods: vec![] };
		let name = name.as_inner().to_string();
		Ok(ControlFlow::Continue(((self, name), s)))
	}
	fn finish_class((mut this, name): Self::ClassResidual, v: Simple) -> anyhow::Result<Self> {
		this.out.push((name, v.fields, v.methods));
		Ok(this)
	}
}

// ---------------------------------------------------------------------------------------------

fn project_class(c: &ClassFile) -> Result<CClass, String> {
	project(c).map(|m| m.canon()).map_err(|e| format!("harness: a tree cannot be projected: {e}"))
}

/// projects members collected outside a class by putting them into a shell
fn project_members(shell: &ClassFile, fields: Vec<Field>, methods: Vec<Method>) -> Result<CClass, String> {
	let mut c = ClassFile::new(shell.version, shell.access, shell.name.clone(), shell.super_class.clone(), shell.interfaces.clone());
	c.fields = fields;
	c.methods = methods;
	project_class(&c)
}

fn check(case: &Case, obs: &mut Obs) -> PropResult {
	// the stream of class files
	let mut files: Vec<Vec<u8>> = Vec::new();
	for s in &case.streams {
		let mut model = class_from_stream(s, 4, 25);
		// element value nesting stays within what the reader accepts (256, see C01-nesting-limit-256)
		for l in crate::classfile::gen::apply_big(&mut model, case.big, 256) {
			obs.label(l);
		}
		match encode(&model, &case.ch) {
			Ok(e) => files.push(e.bytes),
			Err(_) => obs.label("class_not_encodable"),
		}
	}
	check_files(files, &case.plan, &case.trailing, obs)
}

#[derive(Clone, Debug, Serialize, Deserialize)]
pub struct CorpusCase {
	pub picks: Vec<u16>,
	pub plan: Plan,
	pub trailing: Vec<u8>,
}

fn corpus_files() -> &'static Vec<(String, Vec<u8>)> {
	static C: std::sync::OnceLock<Vec<(String, Vec<u8>)>> = std::sync::OnceLock::new();
	C.get_or_init(crate::corpus::load)
}

fn corpus_check(case: &CorpusCase, obs: &mut Obs) -> PropResult {
	let all = corpus_files();
	if all.is_empty() {
		return Ok(());
	}
	let files: Vec<Vec<u8>> = case.picks.iter().map(|p| all[crate::engine::idx(*p, all.len())].1.clone()).collect();
	check_files(files, &case.plan, &case.trailing, obs)
}

pub fn check_files(files: Vec<Vec<u8>>, plan_in: &Plan, trailing: &[u8], obs: &mut Obs) -> PropResult {
	if files.is_empty() {
		return Ok(());
	}
	let mut stream: Vec<u8> = files.concat();
	stream.extend_from_slice(trailing);
	let ends: Vec<u64> = files.iter().scan(0u64, |acc, f| { *acc += f.len() as u64; Some(*acc) }).collect();

	// full reads, one per call
	let mut cur = Cursor::new(&stream);
	let mut trees: Vec<ClassFile> = Vec::new();
	for (k, end) in ends.iter().enumerate() {
		let v: Vec<ClassFile> = duke::read_class_multi(&mut cur, Vec::new()).map_err(|e| format!("full read of class #{k} in the stream failed: {e:#}"))?;
		if v.len() != 1 {
			return Err(format!("one read call delivered {} classes", v.len()));
		}
		if cur.position() != *end {
			return Err(format!("after the full read of class #{k} the stream is at {} instead of {end}", cur.position()));
		}
		trees.extend(v);
	}
	let full: Vec<CClass> = trees.iter().map(project_class).collect::<Result<_, _>>()?;

	// `()` consumes exactly one class per call as well
	let mut cur = Cursor::new(&stream);
	for (k, end) in ends.iter().enumerate() {
		duke::read_class_multi(&mut cur, ()).map_err(|e| format!("read of class #{k} into () failed: {e:#}"))?;
		if cur.position() != *end {
			return Err(format!("after reading class #{k} into () the stream is at {} instead of {end}", cur.position()));
		}
	}

	// masked reads on one cursor
	let plan = plan_in;
	let mut cur = Cursor::new(&stream);
	let mut mv = MaskedMulti::new(plan.to_duke());
	for (k, end) in ends.iter().enumerate() {
		mv = duke::read_class_multi(&mut cur, mv).map_err(|e| format!("masked read of class #{k} failed: {e:#}"))?;
		if cur.position() != *end {
			return Err(format!("after the masked read of class #{k} the stream is at {} instead of {end} (the visitor skipped or declined something)", cur.position()));
		}
	}
	// the same reads from a stream that hands out 1..5 bytes per `read` call (what a BufReader does at the end of its
	// buffer, a pipe, a socket): same classes, same positions
	if stream.len() < 20000 {
		let mut sr = crate::engine::ShortReads::new(&stream);
		let mut mv2 = MaskedMulti::new(plan.to_duke());
		for (k, end) in ends.iter().enumerate() {
			mv2 = duke::read_class_multi(&mut sr, mv2).map_err(|e| format!("masked read of class #{k} from a stream with short reads failed: {e:#}"))?;
			if sr.position() != *end {
				return Err(format!("after the masked read of class #{k} a stream with short reads is at {} instead of {end}", sr.position()));
			}
		}
		if mv2.classes.len() != mv.classes.len() {
			return Err(format!("masked visitor received {} classes from a stream with short reads, {} from a slice", mv2.classes.len(), mv.classes.len()));
		}
		for (k, (a, b)) in mv.classes.iter().zip(mv2.classes.iter()).enumerate() {
			let (pa, pb) = (project_class(a)?, project_class(b)?);
			if pa != pb {
				return Err(format!("received class #{k}: a stream with short reads delivers something else than a slice: {}", first_diff(&pa, &pb)));
			}
		}
		let mut sr = crate::engine::ShortReads::new(&stream);
		for (k, end) in ends.iter().enumerate() {
			duke::read_class_multi(&mut sr, ()).map_err(|e| format!("read of class #{k} into () from a stream with short reads failed: {e:#}"))?;
			if sr.position() != *end {
				return Err(format!("after reading class #{k} into () a stream with short reads is at {} instead of {end}", sr.position()));
			}
		}
		obs.label("also_read_from_a_stream_with_short_reads");
	}
	let kept: Vec<usize> = (0..files.len()).filter(|k| !plan.decline_classes.contains(k)).collect();
	if mv.classes.len() != kept.len() {
		return Err(format!("masked visitor received {} classes, expected {}", mv.classes.len(), kept.len()));
	}
	let mut any_declined_before_kept = false;
	for (got, k) in mv.classes.iter().zip(kept.iter()) {
		let got = project_class(got)?;
		let mut expected = restrict(&full[*k], plan).canon();
		// the reader may or may not honour ClassInterests.fields / methods (not asserted)
		if !on(&plan.class, 17) && got.fields.is_empty() {
			expected.fields.clear();
		}
		if !on(&plan.class, 18) && got.methods.is_empty() {
			expected.methods.clear();
		}
		if got != expected {
			return Err(format!("class #{k}: what the masked visitor received differs from the restriction of the full read: (expected vs received) {}", first_diff(&expected, &got)));
		}
		let nf = full[*k].fields.len();
		let nm = full[*k].methods.len();
		any_declined_before_kept |= plan.decline_fields.iter().any(|d| *d + 1 < nf && !plan.decline_fields.contains(&(d + 1))) || plan.decline_methods.iter().any(|d| *d + 1 < nm && !plan.decline_methods.contains(&(d + 1)));
		// replay of the full tree into the same kind of visitor delivers the same as the read
		let mut p1 = plan.to_duke();
		p1.decline_classes.clear();
		let replayed = trees[*k].clone().accept(MaskedMulti::new(p1)).map_err(|e| format!("replay of class #{k} into the masked visitor failed: {e:#}"))?;
		if replayed.classes.len() != 1 {
			return Err(format!("replay delivered {} classes", replayed.classes.len()));
		}
		let rp = project_class(&replayed.classes[0])?;
		let mut exp_replay = expected.clone();
		if !on(&plan.class, 17) {
			exp_replay.fields = rp.fields.clone().into_iter().filter(|_| false).collect();
			if !rp.fields.is_empty() {
				exp_replay.fields = restrict(&full[*k], plan).canon().fields;
			}
		}
		if !on(&plan.class, 18) {
			exp_replay.methods = if rp.methods.is_empty() { vec![] } else { restrict(&full[*k], plan).canon().methods };
		}
		if rp != exp_replay {
			let d = first_diff(&exp_replay, &rp);
			let frames_only = d.contains("StackMapTable") && !on(&plan.code, 0);
			let lv_only = (d.contains("LocalVariableTable") || d.contains("LocalVariableTypeTable")) && (on(&plan.code, 2) != on(&plan.code, 3));
			if frames_only && obs.known("C17-replay-ignores-stack-map-interest") {
			} else if lv_only && obs.known("C17-replay-local-variable-interests") {
			} else {
				return Err(format!("class #{k}: replaying the tree into the masked visitor delivers something else than reading into it: (read vs replay) {d}"));
			}
		}
	}
	// replay into the tree builder reproduces the class
	for (k, t) in trees.iter().enumerate() {
		let again: Vec<ClassFile> = t.clone().accept(Vec::new()).map_err(|e| format!("replay of class #{k} into Vec<ClassFile> failed: {e:#}"))?;
		if again.len() != 1 || project_class(&again[0])? != full[k] {
			return Err(format!("class #{k}: replaying the tree into the tree builder does not reproduce it: {}", again.first().map(|a| project_class(a).map(|p| first_diff(&full[k], &p)).unwrap_or_default()).unwrap_or_default()));
		}
	}

	// SimpleClassVisitor from outside the crate
	let mut cur = Cursor::new(&stream);
	let mut sv = SimpleMulti { plan: plan.clone(), n: 0, out: vec![] };
	for (k, end) in ends.iter().enumerate() {
		sv = duke::read_class_multi(&mut cur, sv).map_err(|e| format!("SimpleClassVisitor read of class #{k} failed: {e:#}"))?;
		if cur.position() != *end {
			return Err(format!("after the SimpleClassVisitor read of class #{k} the stream is at {} instead of {end}", cur.position()));
		}
	}
	if sv.out.len() != kept.len() {
		return Err(format!("SimpleClassVisitor received {} classes, expected {}", sv.out.len(), kept.len()));
	}
	for ((name, fields, methods), k) in sv.out.into_iter().zip(kept.iter()) {
		if name != full[*k].name {
			return Err(format!("SimpleClassVisitor: class #{k} delivered as {name:?}"));
		}
		let got = project_members(&trees[*k], fields, methods)?;
		let simple_plan = Plan { decline_fields: plan.decline_fields.clone(), decline_methods: plan.decline_methods.clone(), ..Plan::default() };
		let exp = restrict(&full[*k], &simple_plan).canon();
		if got.fields != exp.fields || got.methods != exp.methods {
			let mut e2 = got.clone();
			e2.fields = exp.fields.clone();
			e2.methods = exp.methods.clone();
			return Err(format!("SimpleClassVisitor: members of class #{k} differ from the full read: {}", first_diff(&e2, &got)));
		}
	}

	obs.label(format!("classes_in_stream={}", files.len()));
	obs.label_if(!trailing.is_empty(), "trailing_bytes");
	obs.label_if(plan.is_all(), "mask:all");
	obs.label_if(plan.is_none(), "mask:none");
	obs.label_if(!plan.decline_classes.is_empty() && kept.len() < files.len(), "class_declined");
	obs.label_if(any_declined_before_kept, "member_declined_before_kept_member");
	obs.label_if(!plan.decline_codes.is_empty(), "code_declined");
	for (what, mask, names) in [
		("class", &plan.class, &["InnerClasses", "EnclosingMethod", "Signature", "SourceFile", "SourceDebugExtension", "RVAnn", "RIAnn", "RVTypeAnn", "RITypeAnn", "Module", "ModulePackages", "ModuleMainClass", "NestHost", "NestMembers", "PermittedSubclasses", "Record", "Unknown", "fields", "methods"][..]),
		("code", &plan.code, &["StackMapTable", "LineNumberTable", "LVT", "LVTT", "RVTypeAnn", "RITypeAnn", "Unknown"][..]),
	] {
		for (i, n) in names.iter().enumerate() {
			obs.label(format!("{what}.{n}={}", if on(mask, i) { "on" } else { "off" }));
		}
	}
	obs.nontrivial_if(!plan.is_all() && !plan.is_none() && any_declined_before_kept);
	Ok(())
}

pub fn run(ctx: &mut Ctx) {
	ctx.rule = "streams of 1-3 generated class files (+ trailing bytes) x interest masks at class/field/method/code/record level (each flag independently, all, none, one-off, one-on) x decline plans by ordinal (classes, fields, methods, method code, record components). Oracle: what the masked tree-building visitor receives == restriction of the full read by mask and plan (same order, nothing else disturbed); the cursor sits at the end of the k-th file after the k-th read for the full, (), masked and SimpleClassVisitor readers; replaying the full tree into the tree builder reproduces it; replaying into the masked visitor == reading into it. Non-trivial = mask neither all nor none and a member is declined before a member that is kept; distinct by case hash".into();
	ctx.assume("whether the reader honours ClassInterests.fields / methods is not asserted (the property speaks about the items received)");
	ctx.assume("expectations derive from duke's own full read, so defects of the full read (C01) do not count here");
	ctx.run_sub("masked_and_replayed", ctx.tier.pick(48000, 1200000), strategy, check);
	ctx.run_sub(
		"corpus_javac",
		ctx.tier.pick(6000, 100_000),
		|| (proptest::collection::vec(any::<u16>(), 1..4), plan_strategy(), proptest::collection::vec(any::<u8>(), 0..6)).prop_map(|(picks, plan, trailing)| CorpusCase { picks, plan, trailing }),
		corpus_check,
	);
}
