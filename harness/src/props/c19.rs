//! C19 — Maven dependency resolution follows nearest-wins mediation and scope rules.

use crate::engine::{idx, Ctx, Obs, PropResult};
use maven_dependency_resolver::coord::MavenCoord;
use maven_dependency_resolver::maven_pom::MavenPom;
use maven_dependency_resolver::resolver::Resolver;
use maven_dependency_resolver::{get_maven_dependencies, DependencyScope, Downloader, FoundDependency};
use proptest::prelude::*;
use serde::{Deserialize, Serialize};
use std::collections::{BTreeMap, BTreeSet, HashMap, VecDeque};
use std::future::Future;
use std::str::FromStr;

// ---------------------------------------------------------------------------------------------
// universe

pub const SCOPES: &[&str] = &["compile", "runtime", "test", "system", "provided"];

#[derive(Clone, Debug, Serialize, Deserialize, PartialEq, Eq, PartialOrd, Ord)]
pub struct Key {
	pub group: String,
	pub artifact: String,
	pub classifier: Option<String>,
	pub type_: String,
}

#[derive(Clone, Debug, Serialize, Deserialize)]
pub struct RawDep {
	/// target: library index and version index
	pub lib: u16,
	pub ver: u16,
	pub omit_version: bool,
	pub scope: Option<u8>,
	pub optional: Option<bool>,
	/// 0 plain jar, 1 classifier "natives", 2 type test-jar (classifier "tests"), 3 ejb, 4 maven-plugin, 5 explicit jar, 6 war, 7 ejb+natives
	pub variant: u8,
}

#[derive(Clone, Debug, Serialize, Deserialize)]
pub struct RawManaged {
	pub lib: u16,
	pub ver: u16,
	pub scope: Option<u8>,
	pub optional: Option<bool>,
	pub variant: u8,
}

#[derive(Clone, Debug, Serialize, Deserialize, Default)]
pub struct RawPom {
	pub parent: Option<u16>,
	pub omit_group: bool,
	pub omit_version: bool,
	pub managed: Vec<RawManaged>,
	pub imports: Vec<u16>,
	pub deps: Vec<RawDep>,
	/// repositories serving this POM (bit mask; 0 = all)
	pub repos: u8,
}

#[derive(Clone, Debug, Serialize, Deserialize)]
pub struct Case {
	/// libs[l][v]: library l in version v; dependencies only point to libraries with a higher index
	pub libs: Vec<Vec<RawPom>>,
	/// parent POMs (packaging pom); a parent's parent has a higher index
	pub parents: Vec<RawPom>,
	/// BOMs (packaging pom, managed entries only); imports point to higher indices
	pub boms: Vec<RawPom>,
	pub roots: Vec<(u16, u16, u8)>,
	pub n_repos: u8,
	/// parents of BOMs (packaging pom, managed entries only, no imports; a BOM parent's parent has a higher index): a BOM
	/// whose `parent` is set inherits their management and hands it on to whoever imports it
	#[serde(default)]
	pub bom_parents: Vec<RawPom>,
	/// > 0: a line of that many artifacts, each depending on the next, hangs below an additional root; every ninth link
	/// and the far end also depend on one of the libraries (the same libraries the other roots reach at small depth)
	#[serde(default)]
	pub chain: u16,
	/// > 0: every POM that manages anything manages that many further (never used) artifacts as well, so that the effective
	/// management lists grow to 60 ... 200 entries
	#[serde(default)]
	pub bulk_managed: u8,
}

fn raw_dep() -> impl Strategy<Value = RawDep> {
	(any::<u16>(), any::<u16>(), prop_oneof![2 => Just(false), 1 => Just(true)], proptest::option::weighted(0.5, prop_oneof![4 => Just(0u8), 3 => Just(1u8), 1 => Just(2u8), 1 => Just(3u8), 1 => Just(4u8)]), proptest::option::weighted(0.3, prop_oneof![5 => Just(false), 1 => Just(true)]), prop_oneof![8 => Just(0u8), 2 => Just(1u8), 2 => Just(2u8), 2 => Just(3u8), 1 => Just(4u8), 2 => Just(5u8), 1 => Just(6u8), 1 => Just(7u8), 2 => Just(8u8), 1 => Just(9u8)])
		.prop_map(|(lib, ver, omit_version, scope, optional, variant)| RawDep { lib, ver, omit_version, scope, optional, variant })
}

fn raw_managed() -> impl Strategy<Value = RawManaged> {
	(any::<u16>(), any::<u16>(), proptest::option::weighted(0.4, 0u8..5), proptest::option::weighted(0.15, any::<bool>()), prop_oneof![8 => Just(0u8), 2 => Just(1u8), 2 => Just(2u8), 2 => Just(3u8), 1 => Just(4u8), 2 => Just(5u8), 1 => Just(6u8), 1 => Just(7u8), 2 => Just(8u8), 1 => Just(9u8)]).prop_map(|(lib, ver, scope, optional, variant)| RawManaged { lib, ver, scope, optional, variant })
}

fn raw_pom(max_deps: usize) -> impl Strategy<Value = RawPom> {
	(proptest::option::weighted(0.4, any::<u16>()), any::<bool>(), any::<bool>(), proptest::collection::vec(raw_managed(), 0..3), proptest::collection::vec(any::<u16>(), 0..2), proptest::collection::vec(raw_dep(), 0..=max_deps), any::<u8>())
		.prop_map(|(parent, omit_group, omit_version, managed, imports, deps, repos)| RawPom { parent, omit_group, omit_version, managed, imports, deps, repos })
}

fn strategy() -> impl Strategy<Value = Case> {
	(
		proptest::collection::vec(proptest::collection::vec(raw_pom(4), 1..=2), 3..8),
		proptest::collection::vec(raw_pom(2), 0..3),
		proptest::collection::vec(raw_pom(0), 0..3),
		proptest::collection::vec((any::<u16>(), any::<u16>(), prop_oneof![4 => Just(0u8), 3 => Just(1u8), 1 => Just(2u8), 1 => Just(4u8)]), 1..4),
		1u8..4,
		proptest::collection::vec(raw_pom(0), 0..3),
		prop_oneof![12 => Just(0u16), 2 => 1u16..=40, 1 => 28u16..=36, 2 => 60u16..=70, 1 => 96u16..=104, 1 => 124u16..=132, 1 => 40u16..=300],
		prop_oneof![7 => Just(0u8), 1 => 20u8..=90],
	)
		.prop_map(|(libs, parents, boms, roots, n_repos, bom_parents, chain, bulk_managed)| Case { libs, parents, boms, roots, n_repos, bom_parents, chain, bulk_managed })
}

// ---------------------------------------------------------------------------------------------
// the concrete universe (what is written as XML) and the reference resolver

#[derive(Clone, Debug, PartialEq, Eq, PartialOrd, Ord, Hash, Serialize)]
pub struct Coord {
	pub group: String,
	pub artifact: String,
	pub version: String,
	pub classifier: Option<String>,
	pub type_: String,
}

impl Coord {
	fn key(&self) -> Key {
		Key { group: self.group.clone(), artifact: self.artifact.clone(), classifier: self.classifier.clone(), type_: self.type_.clone() }
	}
	fn gav(&self) -> (String, String, String) {
		(self.group.clone(), self.artifact.clone(), self.version.clone())
	}
}

#[derive(Clone, Debug)]
struct XDep {
	group: String,
	artifact: String,
	version: Option<String>,
	type_: Option<String>,
	classifier: Option<String>,
	scope: Option<String>,
	optional: Option<bool>,
}

#[derive(Clone, Debug)]
struct XPom {
	group: String,
	artifact: String,
	version: String,
	write_group: bool,
	write_version: bool,
	packaging: Option<String>,
	parent: Option<(String, String, String)>,
	/// managed entries, then imports (scope import, type pom)
	managed: Vec<XDep>,
	deps: Vec<XDep>,
	repos: Vec<usize>,
}

fn variant_of(v: u8) -> (Option<String>, Option<String>) {
	match v {
		1 => (None, Some("natives".into())),
		2 => (Some("test-jar".into()), None),
		// types that share the extension `jar` with the default type but are different artifacts
		3 => (Some("ejb".into()), None),
		4 => (Some("maven-plugin".into()), None),
		// the default type spelled out: the same artifact as variant 0
		5 => (Some("jar".into()), None),
		6 => (Some("war".into()), None),
		7 => (Some("ejb".into()), Some("natives".into())),
		// a type that has a classifier of its own, with another classifier spelled out: the written one counts
		8 => (Some("test-jar".into()), Some("natives".into())),
		9 => (Some("test-jar".into()), Some("tests".into())),
		_ => (None, None),
	}
}

fn effective_classifier(type_: &Option<String>, classifier: &Option<String>) -> Option<String> {
	classifier.clone().or_else(|| if type_.as_deref() == Some("test-jar") { Some("tests".into()) } else { None })
}

struct Universe {
	poms: BTreeMap<(String, String, String), XPom>,
	roots: Vec<(Coord, String)>,
	n_repos: usize,
}

fn lib_gav(l: usize, v: usize) -> (String, String, String) {
	(format!("org.lib{}", l % 3), format!("lib{l}"), format!("{}.0", v + 1))
}

#[derive(Clone, Debug)]
struct Eff {
	dm: Vec<(Key, String, Option<String>, Option<bool>)>,
	deps: Vec<(Coord, Option<String>, Option<bool>)>,
}

fn first_managed<'a>(dm: &'a [(Key, String, Option<String>, Option<bool>)], k: &Key) -> Option<&'a (Key, String, Option<String>, Option<bool>)> {
	dm.iter().find(|e| e.0 == *k)
}

/// effective POM by the documented rules (inheritance, imports in place, management fill-in)
fn effective(u: &BTreeMap<(String, String, String), XPom>, gav: &(String, String, String), depth: usize) -> Result<Eff, String> {
	if depth > 32 {
		return Err("harness: parent/import chain too deep".into());
	}
	let p = u.get(gav).ok_or_else(|| format!("harness: POM {gav:?} not in the universe"))?;
	let parent = match &p.parent {
		Some(pg) => Some(effective(u, pg, depth + 1)?),
		None => None,
	};
	let mut dm = Vec::new();
	for m in &p.managed {
		if m.scope.as_deref() == Some("import") {
			let target = (m.group.clone(), m.artifact.clone(), m.version.clone().unwrap_or_default());
			dm.extend(effective(u, &target, depth + 1)?.dm);
			continue;
		}
		let k = Key { group: m.group.clone(), artifact: m.artifact.clone(), classifier: effective_classifier(&m.type_, &m.classifier), type_: m.type_.clone().unwrap_or("jar".into()) };
		dm.push((k, m.version.clone().unwrap_or_default(), m.scope.clone(), m.optional));
	}
	if let Some(pe) = &parent {
		dm.extend(pe.dm.iter().cloned());
	}
	let mut deps = Vec::new();
	for d in &p.deps {
		let k = Key { group: d.group.clone(), artifact: d.artifact.clone(), classifier: effective_classifier(&d.type_, &d.classifier), type_: d.type_.clone().unwrap_or("jar".into()) };
		let managed = first_managed(&dm, &k);
		let version = match (&d.version, managed) {
			(Some(v), _) => v.clone(),
			(None, Some(m)) => m.1.clone(),
			(None, None) => return Err(format!("harness: dependency {k:?} of {gav:?} has no version and is not managed")),
		};
		let scope = d.scope.clone().or_else(|| managed.and_then(|m| m.2.clone()));
		let optional = d.optional.or_else(|| managed.and_then(|m| m.3));
		deps.push((Coord { group: k.group, artifact: k.artifact, version, classifier: k.classifier, type_: k.type_ }, scope, optional));
	}
	if let Some(pe) = parent {
		deps.extend(pe.deps);
	}
	Ok(Eff { dm, deps })
}

fn scope_table(direct: &str, transitive: &str) -> Option<String> {
	// https://maven.apache.org/guides/introduction/introduction-to-dependency-mechanism.html#dependency-scope
	match transitive {
		"compile" => Some(direct.to_string()),
		"runtime" => Some(if direct == "compile" { "runtime".to_string() } else { direct.to_string() }),
		_ => None,
	}
}

#[derive(Clone, Debug)]
struct TNode {
	coord: Coord,
	scope: String,
	children: Vec<TNode>,
}

fn tree(u: &BTreeMap<(String, String, String), XPom>, coord: &Coord, scope: &str, depth: usize) -> Result<TNode, String> {
	if depth > 5000 {
		return Err("harness: dependency chain too deep".into());
	}
	let eff = effective(u, &coord.gav(), 0)?;
	let mut n = TNode { coord: coord.clone(), scope: scope.to_string(), children: vec![] };
	for (c, s, o) in eff.deps {
		if o == Some(true) {
			continue;
		}
		if let Some(child_scope) = scope_table(scope, s.as_deref().unwrap_or("compile")) {
			n.children.push(tree(u, &c, &child_scope, depth + 1)?);
		}
	}
	Ok(n)
}

/// nearest wins, declaration order breaks ties, losers' subtrees are discarded; breadth-first output
fn mediate(forest: &[TNode]) -> (Vec<(Coord, String)>, bool, bool, bool) {
	let mut out = Vec::new();
	let mut seen: BTreeSet<Key> = BTreeSet::new();
	let mut level: Vec<&TNode> = forest.iter().collect();
	let mut conflict_by_depth = false;
	// all occurrences with depth, to classify the case
	let mut first_depth: BTreeMap<Key, (usize, String)> = BTreeMap::new();
	fn walk<'a>(n: &'a TNode, d: usize, acc: &mut Vec<(&'a TNode, usize)>) {
		acc.push((n, d));
		for c in &n.children {
			walk(c, d + 1, acc);
		}
	}
	let mut all = Vec::new();
	for t in forest {
		walk(t, 0, &mut all);
	}
	let mut depth = 0;
	let mut tie = false;
	while !level.is_empty() {
		let mut next = Vec::new();
		for n in level {
			let k = n.coord.key();
			if seen.insert(k.clone()) {
				out.push((n.coord.clone(), n.scope.clone()));
				first_depth.insert(k, (depth, n.coord.version.clone()));
				next.extend(n.children.iter());
			} else if let Some((d0, v0)) = first_depth.get(&k) {
				if *v0 != n.coord.version {
					if *d0 < depth {
						conflict_by_depth = true;
					} else {
						tie = true;
					}
				}
			}
		}
		level = next;
		depth += 1;
	}
	let _ = all;
	// does a discarded subtree hold an occurrence that would otherwise have been the nearest one?
	fn below<'a>(n: &'a TNode, d: usize, kept: bool, first: &BTreeMap<Key, (usize, String)>, seen_kept: &mut BTreeSet<(Key, usize)>, hit: &mut bool, under_loser: bool) {
		let k = n.coord.key();
		let is_winner = kept && first.get(&k).is_some_and(|(d0, v0)| *d0 == d && *v0 == n.coord.version) && seen_kept.insert((k.clone(), d));
		if under_loser {
			match first.get(&k) {
				Some((d0, _)) if *d0 > d => *hit = true,
				None => *hit = true,
				_ => {}
			}
		}
		for c in &n.children {
			below(c, d + 1, is_winner, first, seen_kept, hit, under_loser || !is_winner);
		}
	}
	let mut hit = false;
	let mut sk = BTreeSet::new();
	for t in forest {
		below(t, 0, true, &first_depth, &mut sk, &mut hit, false);
	}
	(out, conflict_by_depth, tie, hit)
}

fn build_universe(case: &Case) -> Result<Universe, String> {
	let n_repos = case.n_repos.max(1) as usize;
	let mut poms: BTreeMap<(String, String, String), XPom> = BTreeMap::new();
	let np = case.parents.len();
	let nb = case.boms.len();
	let parent_gav = |i: usize| (format!("org.parent"), format!("parent{i}"), "1".to_string());
	let bom_gav = |i: usize| (format!("org.bom"), format!("bom{i}"), "1".to_string());
	let repos_of = |mask: u8| -> Vec<usize> {
		let v: Vec<usize> = (0..n_repos).filter(|r| mask & (1 << r) != 0).collect();
		if v.is_empty() {
			(0..n_repos).collect()
		} else {
			v
		}
	};
	let scope_s = |s: Option<u8>| s.map(|i| SCOPES[i as usize % SCOPES.len()].to_string());
	let nl = case.libs.len();
	let managed_of = |raw: &RawPom, min_lib: usize| -> Vec<XDep> {
		let mut v = Vec::new();
		let mut seen = BTreeSet::new();
		for m in &raw.managed {
			if min_lib >= nl {
				break;
			}
			let l = min_lib + idx(m.lib, nl - min_lib);
			let vv = idx(m.ver, case.libs[l].len());
			let (g, a, ver) = lib_gav(l, vv);
			let (t, c) = variant_of(m.variant);
			if seen.insert((g.clone(), a.clone(), t.clone(), c.clone())) {
				v.push(XDep { group: g, artifact: a, version: Some(ver), type_: t, classifier: c, scope: scope_s(m.scope), optional: m.optional });
			}
		}
		if !v.is_empty() {
			for i in 0..case.bulk_managed as usize {
				v.push(XDep { group: "org.fill".into(), artifact: format!("fill{i}"), version: Some(format!("{}.0", 1 + (i + min_lib) % 3)), type_: None, classifier: None, scope: if i % 5 == 0 { Some("runtime".into()) } else { None }, optional: None });
			}
		}
		v
	};
	// parents of BOMs
	let nbp = case.bom_parents.len();
	let bom_parent_gav = |i: usize| (format!("org.bom"), format!("bomparent{i}"), "1".to_string());
	for (i, bp) in case.bom_parents.iter().enumerate() {
		let (g, a, v) = bom_parent_gav(i);
		let parent = bp.parent.and_then(|x| if i + 1 < nbp { Some(bom_parent_gav(i + 1 + idx(x, nbp - i - 1))) } else { None });
		poms.insert((g.clone(), a.clone(), v.clone()), XPom { group: g, artifact: a, version: v, write_group: true, write_version: true, packaging: Some("pom".into()), parent, managed: managed_of(bp, 0), deps: vec![], repos: repos_of(bp.repos) });
	}
	// BOMs
	for (i, b) in case.boms.iter().enumerate() {
		let (g, a, v) = bom_gav(i);
		let bom_parent = b.parent.and_then(|x| if nbp > 0 { Some(bom_parent_gav(idx(x, nbp))) } else { None });
		let mut managed = managed_of(b, 0);
		for imp in &b.imports {
			if i + 1 < nb {
				let t = i + 1 + idx(*imp, nb - i - 1);
				let (ig, ia, iv) = bom_gav(t);
				managed.push(XDep { group: ig, artifact: ia, version: Some(iv), type_: Some("pom".into()), classifier: None, scope: Some("import".into()), optional: None });
			}
		}
		poms.insert((g.clone(), a.clone(), v.clone()), XPom { group: g, artifact: a, version: v, write_group: true, write_version: true, packaging: Some("pom".into()), parent: bom_parent, managed, deps: vec![], repos: repos_of(b.repos) });
	}
	// parents (their own dependencies point to the last two libraries only, children never re-declare those)
	let reserved_from = nl.saturating_sub(2).max(1);
	for (i, p) in case.parents.iter().enumerate() {
		let (g, a, v) = parent_gav(i);
		let parent = p.parent.and_then(|x| if i + 1 < np { Some(parent_gav(i + 1 + idx(x, np - i - 1))) } else { None });
		let mut managed = managed_of(p, reserved_from.min(nl));
		for imp in &p.imports {
			if nb > 0 {
				let (ig, ia, iv) = bom_gav(idx(*imp, nb));
				managed.push(XDep { group: ig, artifact: ia, version: Some(iv), type_: Some("pom".into()), classifier: None, scope: Some("import".into()), optional: None });
			}
		}
		let mut deps = Vec::new();
		let mut seen = BTreeSet::new();
		for d in &p.deps {
			if reserved_from >= nl {
				break;
			}
			let l = reserved_from + idx(d.lib, nl - reserved_from);
			let vv = idx(d.ver, case.libs[l].len());
			let (dg, da, dv) = lib_gav(l, vv);
			let (t, c) = variant_of(d.variant);
			if seen.insert((dg.clone(), da.clone(), t.clone(), c.clone())) {
				deps.push(XDep { group: dg, artifact: da, version: Some(dv), type_: t, classifier: c, scope: scope_s(d.scope), optional: d.optional });
			}
		}
		poms.insert((g.clone(), a.clone(), v.clone()), XPom { group: g, artifact: a, version: v, write_group: true, write_version: true, packaging: Some("pom".into()), parent, managed, deps, repos: repos_of(p.repos) });
	}
	// libraries
	for (l, versions) in case.libs.iter().enumerate() {
		for (v, raw) in versions.iter().enumerate() {
			let (g, a, ver) = lib_gav(l, v);
			// a library with a parent takes group/version from it only if they are equal anyway (so that its coordinates stay what they are)
			let parent = raw.parent.and_then(|x| if np > 0 && l + 2 < nl { Some(parent_gav(idx(x, np))) } else { None });
			let mut managed = managed_of(raw, (l + 1).min(nl));
			// do not manage what a parent chain declares as dependency
			if parent.is_some() {
				managed.retain(|m| !m.artifact.strip_prefix("lib").and_then(|n| n.parse::<usize>().ok()).is_some_and(|n| n >= reserved_from));
			}
			for imp in &raw.imports {
				if nb > 0 {
					let (ig, ia, iv) = bom_gav(idx(*imp, nb));
					managed.push(XDep { group: ig, artifact: ia, version: Some(iv), type_: Some("pom".into()), classifier: None, scope: Some("import".into()), optional: None });
				}
			}
			let mut deps = Vec::new();
			let mut seen = BTreeSet::new();
			let hi = if parent.is_some() { reserved_from.min(nl) } else { nl };
			for d in &raw.deps {
				if l + 1 >= hi {
					break;
				}
				let t = l + 1 + idx(d.lib, hi - l - 1);
				let vv = idx(d.ver, case.libs[t].len());
				let (dg, da, dv) = lib_gav(t, vv);
				let (ty, c) = variant_of(d.variant);
				if seen.insert((dg.clone(), da.clone(), ty.clone(), c.clone())) {
					deps.push(XDep { group: dg, artifact: da, version: if d.omit_version { None } else { Some(dv) }, type_: ty, classifier: c, scope: scope_s(d.scope), optional: d.optional });
				}
			}
			poms.insert((g.clone(), a.clone(), ver.clone()), XPom { group: g, artifact: a, version: ver, write_group: true, write_version: true, packaging: None, parent, managed, deps, repos: repos_of(raw.repos) });
		}
	}
	// a long line of artifacts below one more root
	let chain = case.chain as usize;
	for k in 0..chain {
		let mut deps = Vec::new();
		if k + 1 < chain {
			deps.push(XDep { group: "org.chain".into(), artifact: format!("link{}", k + 1), version: Some("1.0".into()), type_: None, classifier: None, scope: if k % 7 == 3 { Some("runtime".into()) } else { None }, optional: None });
		}
		if k + 1 == chain || k % 9 == 4 {
			let l = (k * 5 + 1) % nl;
			let (dg, da, dv) = lib_gav(l, k % case.libs[l].len());
			deps.insert((k % 2).min(deps.len()), XDep { group: dg, artifact: da, version: Some(dv), type_: None, classifier: None, scope: None, optional: None });
		}
		// deep in the line the first link's artifact comes back in another version: as another artifact (classifier, type),
		// which is no rival of the first link, and once as the same artifact, which loses to it
		if chain >= 3 && (k + 1 == chain || k == chain / 2 || k == chain / 3) {
			let (type_, classifier) = if k + 1 == chain { (None, Some("adapters".to_string())) } else if k == chain / 2 { (Some("test-jar".to_string()), None) } else { (None, None) };
			deps.push(XDep { group: "org.chain".into(), artifact: "link0".into(), version: Some("0.9".into()), type_, classifier, scope: None, optional: None });
		}
		poms.insert(("org.chain".to_string(), format!("link{k}"), "1.0".to_string()), XPom { group: "org.chain".into(), artifact: format!("link{k}"), version: "1.0".into(), write_group: true, write_version: true, packaging: None, parent: None, managed: vec![], deps, repos: repos_of((k as u8).wrapping_mul(37)) });
	}
	if chain >= 3 {
		let (dg, da, dv) = lib_gav(nl - 1, 0);
		poms.insert(("org.chain".to_string(), "link0".to_string(), "0.9".to_string()), XPom { group: "org.chain".into(), artifact: "link0".into(), version: "0.9".into(), write_group: true, write_version: true, packaging: None, parent: None, managed: vec![], deps: vec![XDep { group: dg, artifact: da, version: Some(dv), type_: None, classifier: None, scope: None, optional: None }], repos: repos_of(5) });
	}
	// a dependency may omit its version only where the effective management has it
	let keys: Vec<_> = poms.keys().filter(|k| k.0 != "org.chain").cloned().collect();
	for k in keys {
		let mut p = poms[&k].clone();
		let mut probe = p.clone();
		for d in probe.deps.iter_mut() {
			if d.version.is_none() {
				d.version = Some("0".into());
			}
		}
		let mut tmp = poms.clone();
		tmp.insert(k.clone(), probe);
		let eff = effective(&tmp, &k, 0)?;
		for d in p.deps.iter_mut() {
			if d.version.is_none() {
				let key = Key { group: d.group.clone(), artifact: d.artifact.clone(), classifier: effective_classifier(&d.type_, &d.classifier), type_: d.type_.clone().unwrap_or("jar".into()) };
				match first_managed(&eff.dm, &key) {
					Some(m) if poms.contains_key(&(d.group.clone(), d.artifact.clone(), m.1.clone())) => {}
					_ => {
						// not managed: write the version of some existing POM
						let l: usize = d.artifact.trim_start_matches("lib").parse().unwrap_or(0);
						d.version = Some(lib_gav(l, 0).2);
					}
				}
			}
		}
		poms.insert(k, p);
	}
	let roots = case
		.roots
		.iter()
		.map(|(l, v, s)| {
			let li = idx(*l, nl);
			let vi = idx(*v, case.libs[li].len());
			let (g, a, ver) = lib_gav(li, vi);
			(Coord { group: g, artifact: a, version: ver, classifier: None, type_: "jar".into() }, SCOPES[*s as usize % SCOPES.len()].to_string())
		})
		.collect();
	let mut roots: Vec<(Coord, String)> = roots;
	if chain > 0 {
		let at = chain % (roots.len() + 1);
		roots.insert(at, (Coord { group: "org.chain".into(), artifact: "link0".into(), version: "1.0".into(), classifier: None, type_: "jar".into() }, if chain % 3 == 0 { "runtime".to_string() } else { "compile".to_string() }));
	}
	Ok(Universe { poms, roots, n_repos })
}

fn xml_dep(d: &XDep) -> String {
	let mut s = String::from("<dependency>");
	s.push_str(&format!("<groupId>{}</groupId><artifactId>{}</artifactId>", d.group, d.artifact));
	if let Some(v) = &d.version {
		s.push_str(&format!("<version>{v}</version>"));
	}
	if let Some(t) = &d.type_ {
		s.push_str(&format!("<type>{t}</type>"));
	}
	if let Some(c) = &d.classifier {
		s.push_str(&format!("<classifier>{c}</classifier>"));
	}
	if let Some(sc) = &d.scope {
		s.push_str(&format!("<scope>{sc}</scope>"));
	}
	if let Some(o) = d.optional {
		s.push_str(&format!("<optional>{o}</optional>"));
	}
	s.push_str("</dependency>");
	s
}

fn xml_pom(p: &XPom) -> String {
	let mut s = String::from("<project><modelVersion>4.0.0</modelVersion>");
	if let Some((g, a, v)) = &p.parent {
		s.push_str(&format!("<parent><groupId>{g}</groupId><artifactId>{a}</artifactId><version>{v}</version></parent>"));
	}
	if p.write_group {
		s.push_str(&format!("<groupId>{}</groupId>", p.group));
	}
	s.push_str(&format!("<artifactId>{}</artifactId>", p.artifact));
	if p.write_version {
		s.push_str(&format!("<version>{}</version>", p.version));
	}
	if let Some(pk) = &p.packaging {
		s.push_str(&format!("<packaging>{pk}</packaging>"));
	}
	if !p.managed.is_empty() {
		s.push_str("<dependencyManagement><dependencies>");
		p.managed.iter().for_each(|d| s.push_str(&xml_dep(d)));
		s.push_str("</dependencies></dependencyManagement>");
	}
	if !p.deps.is_empty() {
		s.push_str("<dependencies>");
		p.deps.iter().for_each(|d| s.push_str(&xml_dep(d)));
		s.push_str("</dependencies>");
	}
	s.push_str("</project>");
	s
}

struct Served(HashMap<String, String>);

impl Downloader for Served {
	#[allow(clippy::manual_async_fn)]
	fn get_maven_pom(&self, url: &str) -> impl Future<Output = anyhow::Result<Option<MavenPom>>> + Send {
		let found = self.0.get(url).cloned();
		async move {
			match found {
				None => Ok(None),
				Some(xml) => Ok(Some(serde_xml_rs::from_str(&xml).map_err(|e| anyhow::anyhow!("harness: generated POM does not parse: {e}: {xml}"))?)),
			}
		}
	}
}

/// the resolver's futures never pend: a no-op waker drives them
fn block_on<F: Future>(f: F) -> Result<F::Output, String> {
	use std::task::{Context, Poll, RawWaker, RawWakerVTable, Waker};
	fn noop(_: *const ()) {}
	fn clone(_: *const ()) -> RawWaker {
		RawWaker::new(std::ptr::null(), &VTABLE)
	}
	static VTABLE: RawWakerVTable = RawWakerVTable::new(clone, noop, noop, noop);
	let waker = unsafe { Waker::from_raw(RawWaker::new(std::ptr::null(), &VTABLE)) };
	let mut cx = Context::from_waker(&waker);
	let mut f = std::pin::pin!(f);
	for _ in 0..1000 {
		if let Poll::Ready(v) = f.as_mut().poll(&mut cx) {
			return Ok(v);
		}
	}
	Err("harness: the resolver's future did not complete".into())
}

fn repo_url(r: usize) -> String {
	if r % 2 == 0 {
		format!("invalid://repo{r}.example/maven")
	} else {
		format!("invalid://repo{r}.example/")
	}
}

fn pom_url(repo: usize, gav: &(String, String, String)) -> String {
	let base = repo_url(repo);
	let slash = if base.ends_with('/') { "" } else { "/" };
	format!("{base}{slash}{}/{}/{}/{}-{}.pom", gav.0.replace('.', "/"), gav.1, gav.2, gav.1, gav.2)
}

fn check(case: &Case, obs: &mut Obs) -> PropResult {
	let u = build_universe(case)?;
	let mut served = HashMap::new();
	for (gav, p) in &u.poms {
		let xml = xml_pom(p);
		for r in &p.repos {
			served.insert(pom_url(*r, gav), xml.clone());
		}
	}
	let urls: Vec<String> = (0..u.n_repos).map(repo_url).collect();
	let names: Vec<String> = (0..u.n_repos).map(|r| format!("repo{r}")).collect();
	let resolvers: Vec<Resolver> = (0..u.n_repos).map(|r| Resolver::new(&names[r], &urls[r])).collect();
	let root_list: Vec<(MavenCoord, DependencyScope)> = u.roots.iter().map(|(c, s)| (MavenCoord::from_group_artifact_version(&c.group, &c.artifact, &c.version), DependencyScope::from_str(s).unwrap())).collect();

	// reference
	let mut forest = Vec::new();
	for (c, s) in &u.roots {
		forest.push(tree(&u.poms, c, s, 0)?);
	}
	let (expected, by_depth, tie, loser_subtree) = mediate(&forest);
	let first_repo = |c: &Coord| -> String { urls[*u.poms[&c.gav()].repos.iter().min().unwrap()].clone() };

	let dl = Served(served);
	let got = block_on(get_maven_dependencies(&dl, &resolvers, &root_list))?.map_err(|e| format!("get_maven_dependencies failed on a universe inside the supported subset: {e:#}"))?;
	// second use of the same downloader and resolvers: the same answer
	if case.chain % 4 == 1 || case.libs.len() % 3 == 0 {
		let again = block_on(get_maven_dependencies(&dl, &resolvers, &root_list))?.map_err(|e| format!("the second get_maven_dependencies with the same downloader failed: {e:#}"))?;
		if again.len() != got.len() || again.iter().zip(got.iter()).any(|(a, b)| a.coord != b.coord || a.scope != b.scope || a.resolver.maven != b.resolver.maven) {
			return Err("resolving the same roots a second time with the same downloader and resolvers gives another list".into());
		}
		obs.label("resolved_twice");
	}
	let got_list: Vec<(Coord, String, String)> = got
		.iter()
		.map(|f| (Coord { group: f.coord.group.clone(), artifact: f.coord.artifact.clone(), version: f.coord.version.clone(), classifier: f.coord.classifier.clone(), type_: f.coord.type_.clone() }, f.scope.to_string(), f.resolver.maven.to_string()))
		.collect();
	let want_list: Vec<(Coord, String, String)> = expected.iter().map(|(c, s)| (c.clone(), s.clone(), first_repo(c))).collect();
	if got_list != want_list {
		let show = |l: &[(Coord, String, String)]| l.iter().map(|(c, s, r)| format!("{}:{}:{}{}:{} [{s}] @{r}", c.group, c.artifact, c.type_, c.classifier.as_ref().map(|x| format!(":{x}")).unwrap_or_default(), c.version)).collect::<Vec<_>>();
		return Err(format!("resolved list differs from Maven's rules:\n expected {:?}\n got      {:?}", show(&want_list), show(&got_list)));
	}
	// printing and re-parsing
	for f in &got {
		let s = f.to_string();
		let back = FoundDependency::try_from(s.as_str()).map_err(|e| format!("FoundDependency {s:?} does not parse back: {e:#}"))?;
		if back.coord != f.coord || back.scope != f.scope || back.resolver.maven != f.resolver.maven {
			return Err(format!("FoundDependency round trip changed {s:?} into {back:?}"));
		}
		let cs = f.coord.to_string();
		if MavenCoord::from_str(&cs).map_err(|e| format!("{e:#}"))? != f.coord {
			return Err(format!("MavenCoord round trip changed {cs:?}"));
		}
	}
	let managed_fill = u.poms.values().any(|p| p.deps.iter().any(|d| d.version.is_none()));
	let scope_changed = expected.iter().any(|(_, s)| s != "compile") && forest.iter().any(|t| !t.children.is_empty());
	obs.label_if(by_depth, "conflict_resolved_by_depth");
	obs.label_if(tie, "conflict_tie_broken_by_declaration_order");
	obs.label_if(loser_subtree, "discarded_subtree_holds_an_otherwise_nearest_occurrence");
	obs.label_if(managed_fill, "managed_version_fill_in");
	obs.label_if(u.poms.values().any(|p| p.parent.is_some()), "parent");
	obs.label_if(u.poms.values().any(|p| p.managed.iter().any(|m| m.scope.as_deref() == Some("import"))), "bom_import");
	obs.label_if(u.n_repos > 1, "several_repositories");
	let longest_dm = u.poms.keys().filter_map(|g| effective(&u.poms, g, 0).ok()).map(|e| e.dm.len()).max().unwrap_or(0);
	obs.label(format!("longest_effective_management:{}", match longest_dm { 0..=15 => "<=15", 16..=63 => "16..63", 64..=127 => "64..127", _ => ">=128" }));
	obs.label_if(case.chain >= 3, "artifact_of_an_ancestor_comes_back_with_another_classifier_or_type");
	let inherits = |p: &XPom| p.parent.as_ref().map_or(false, |g| effective(&u.poms, g, 0).map_or(false, |e| !e.dm.is_empty()));
	obs.label_if(u.poms.values().any(|p| p.artifact.starts_with("bom") && !p.artifact.starts_with("bomparent") && inherits(p)), "imported_bom_inherits_management_from_its_parent");
	fn height(t: &TNode) -> usize {
		1 + t.children.iter().map(height).max().unwrap_or(0)
	}
	let h = forest.iter().map(height).max().unwrap_or(0);
	obs.label(format!("longest_dependency_path:{}", match h { 0..=8 => "<=8", 9..=32 => "9..32", 33..=64 => "33..64", 65..=128 => "65..128", _ => ">128" }));
	obs.label(format!("resolved={}", expected.len().min(8)));
	obs.nontrivial_if(by_depth || tie || managed_fill || scope_changed);
	Ok(())
}

#[derive(Clone, Debug, Serialize, Deserialize)]
pub struct CoordCase {
	pub group: String,
	pub artifact: String,
	pub version: String,
	pub classifier: Option<String>,
	pub type_: String,
	pub scope: u8,
	pub url: String,
}

fn coord_roundtrip(c: &CoordCase, obs: &mut Obs) -> PropResult {
	let coord = MavenCoord { group: c.group.clone(), artifact: c.artifact.clone(), version: c.version.clone(), classifier: c.classifier.clone(), type_: c.type_.clone() };
	let s = coord.to_string();
	let back = MavenCoord::from_str(&s).map_err(|e| format!("{s:?} does not parse back: {e:#}"))?;
	if back != coord {
		return Err(format!("MavenCoord {coord:?} prints as {s:?} and parses back as {back:?}"));
	}
	let scope = DependencyScope::from_str(SCOPES[c.scope as usize % 5]).map_err(|e| format!("{e:#}"))?;
	if DependencyScope::from_str(&scope.to_string()).map_err(|e| format!("{e:#}"))? != scope {
		return Err(format!("DependencyScope {scope:?} does not round trip"));
	}
	let f = FoundDependency { resolver: Resolver::new("name", &c.url), coord: coord.clone(), scope };
	let fs = f.to_string();
	let fb = FoundDependency::try_from(fs.as_str()).map_err(|e| format!("{fs:?} does not parse back: {e:#}"))?;
	if fb.coord != coord || fb.scope != scope || fb.resolver.maven != c.url {
		return Err(format!("FoundDependency prints as {fs:?} and parses back as {fb:?}"));
	}
	obs.nontrivial_if(c.classifier.is_some() || c.type_ != "jar");
	Ok(())
}

pub fn run(ctx: &mut Ctx) {
	ctx.rule = "acyclic POM universes: 2-6 libraries in 1-2 versions each (dependencies only to higher-numbered libraries, any version -> version conflicts at different depths), 0-2 parent POMs (chains) and 0-2 BOMs (imports of further BOMs; a BOM may itself have a parent, or a chain of parents, whose management it inherits and hands on); in a third of the cases one more root with a line of 1-300 artifacts below it, each depending on the next, every ninth link and the far end depending on one of the libraries; POMs inherit group/version/dependencies/management, managed entries precede imports, dependencies omit versions only where the effective management has them, every scope, optional flags, classifier and type variants (natives, test-jar, ejb, maven-plugin, explicit jar, war: same or different artifact identity), 1-3 repositories each serving a subset; rendered to POM XML and served by an in-memory Downloader; 1-3 root dependencies with scopes. Oracle: a reference resolver written from Maven's documentation (effective POM, optional / non-transitive scope cut, scope table, breadth-first nearest-wins with declaration order, losers' subtrees discarded, first serving repository) must give exactly the same list (coordinate, scope, repository); Display/parse round trips of every result and of generated coordinates. Non-trivial = a version conflict resolved by depth or by declaration order, a managed fill-in, or a scope changed by the table; distinct by case hash".into();
	ctx.assume("supported subset only: literal versions, no exclusions/profiles/ranges; managed entries before imports; a child neither re-declares nor manages a dependency its parent chain declares");
	ctx.assume("real Maven is not available offline: the oracle is the harness's reading of the dependency-mechanism documentation");
	ctx.run_sub("resolution", ctx.tier.pick(60000, 1000000), strategy, check);
	ctx.run_sub(
		"coordinate_roundtrip",
		ctx.tier.pick(120000, 2000000),
		|| ("[a-z][a-z0-9.]{0,12}", "[a-z][a-z0-9_-]{0,12}", "[0-9][0-9A-Za-z.-]{0,10}", proptest::option::of("[a-z0-9]{0,8}"), prop_oneof![Just("jar".to_string()), Just("pom".to_string()), "[a-z-]{1,8}"], 0u8..5, "[a-z]{3,6}://[a-z0-9./-]{1,20}").prop_map(|(group, artifact, version, classifier, type_, scope, url)| CoordCase { group, artifact, version, classifier, type_, scope, url }),
		coord_roundtrip,
	);
}
