use crate::engine::Ctx;

pub mod c01;
pub mod c02;
pub mod c03;
pub mod c04;
pub mod c05;
pub mod c06;
pub mod c07;
pub mod c08;
pub mod c09;
pub mod c10;
pub mod c11;
pub mod c12;
pub mod c13;
pub mod c14;
pub mod c15;
pub mod c16;
pub mod c17;
pub mod c18;
pub mod c19;
pub mod c20;

pub const TABLE: &[(&str, fn(&mut Ctx))] = &[
	("C01", c01::run),
	("C02", c02::run),
	("C03", c03::run),
	("C04", c04::run),
	("C05", c05::run),
	("C06", c06::run),
	("C07", c07::run),
	("C08", c08::run),
	("C09", c09::run),
	("C10", c10::run),
	("C11", c11::run),
	("C12", c12::run),
	("C13", c13::run),
	("C14", c14::run),
	("C15", c15::run),
	("C16", c16::run),
	("C17", c17::run),
	("C18", c18::run),
	("C19", c19::run),
	("C20", c20::run),
];

pub fn run(ctx: &mut Ctx) -> bool {
	for (id, f) in TABLE {
		if *id == ctx.property {
			f(ctx);
			return true;
		}
	}
	false
}

pub fn all() -> Vec<&'static str> {
	TABLE.iter().map(|x| x.0).collect()
}
