use crate::engine::Ctx;

pub mod c03;

pub fn run(ctx: &mut Ctx) -> bool {
	match ctx.property.as_str() {
		"C03" => c03::run(ctx),
		_ => return false,
	}
	true
}

pub const ALL: &[&str] = &["C03"];
