//! C16 — parsers fail with an error, never crash, on arbitrary input (fault enumeration).
//!
//! Cases are enumerated deterministically from (VERIF_SEED, tier): structure-aware mutations of
//! valid class files (every structural field of the encoder's field map set to boundary values,
//! truncation at every field boundary, constant pool index redirection, random byte edits),
//! hand-assembled hostile files (deep nesting, self-reference, oversized counts), and token / line /
//! byte mutations of valid tiny, tinydiff, enigma and nests text and of descriptor strings.
//! Every case runs in a sandboxed child process (see `sandbox`).

use crate::classfile::encode::{encode, Choices, Encoded, W};
use crate::classfile::gen::{choices, class_from_stream, class_stream};
use crate::classfile::model::*;
use crate::engine::{fnv64, Ctx, Tier};
use crate::mapmodel::gen::{draws, edit, mapset, GenCfg, TargetStyle};
use crate::mapmodel::{refops, text};
use crate::sandbox::{run_guarded, run_shard, signature, ChildOut, Verdict};
use proptest::prelude::*;
use proptest::strategy::ValueTree;
use proptest::test_runner::{Config, RngSeed, TestRunner};
use serde_json::{json, Value};
use std::collections::{BTreeMap, BTreeSet};
use std::io::Cursor;
use std::time::Duration;

#[derive(Clone, Copy, Debug, PartialEq, Eq, PartialOrd, Ord, serde::Serialize, serde::Deserialize)]
pub enum Target {
	DukeTree,
	DukeUnit,
	Tiny2,
	Tiny3,
	TinyDiff,
	Enigma,
	Nests,
	FieldDesc,
	MethodDesc,
	ReturnDesc,
}

impl Target {
	fn name(self) -> &'static str {
		match self {
			Target::DukeTree => "duke_read_class+write_class",
			Target::DukeUnit => "duke_read_class_multi(())",
			Target::Tiny2 => "tiny_v2::read<2>",
			Target::Tiny3 => "tiny_v2::read<3>",
			Target::TinyDiff => "tiny_v2_diff::read_file",
			Target::Enigma => "enigma_file::read_into",
			Target::Nests => "Nests::read",
			Target::FieldDesc => "FieldDescriptor::parse+write",
			Target::MethodDesc => "MethodDescriptor::parse+write",
			Target::ReturnDesc => "ReturnDescriptor::parse+write",
		}
	}
}

struct Ns;

pub fn run_target(target: Target, input: &[u8]) {
	use java_string::JavaStr;
	match target {
		Target::DukeTree => {
			if let Ok(tree) = duke::read_class(&mut Cursor::new(input)) {
				let mut out = Vec::new();
				let _ = duke::write_class(&mut out, &tree);
			}
		}
		Target::DukeUnit => {
			let _ = duke::read_class_multi(&mut Cursor::new(input), ());
		}
		Target::Tiny2 => {
			let _ = quill::tiny_v2::read::<2, Ns>(input);
		}
		Target::Tiny3 => {
			let _ = quill::tiny_v2::read::<3, Ns>(input);
		}
		Target::TinyDiff => {
			let dir = crate::engine::Scratch::new("c16");
			let p = dir.path.join("x.tinydiff");
			if std::fs::write(&p, input).is_ok() {
				let _ = quill::tiny_v2_diff::read_file(&p);
			}
		}
		Target::Enigma => {
			if let Ok(mut m) = quill::tree::mappings::Mappings::<2, Ns>::from_namespaces(["a", "b"]) {
				let _ = quill::enigma_file::read_into(input, &mut m);
			}
		}
		Target::Nests => {
			let _ = dukenest::nest::Nests::<Ns>::read(&input.to_vec());
		}
		Target::FieldDesc | Target::MethodDesc | Target::ReturnDesc => {
			let Ok(s) = std::str::from_utf8(input) else { return };
			let js = JavaStr::from_str(s);
			match target {
				Target::FieldDesc => {
					if let Ok(p) = unsafe { duke::tree::field::FieldDescriptorSlice::from_inner_unchecked(js) }.parse() {
						let _ = p.write();
					}
				}
				Target::MethodDesc => {
					if let Ok(p) = unsafe { duke::tree::method::MethodDescriptorSlice::from_inner_unchecked(js) }.parse() {
						let _ = p.write();
					}
				}
				_ => {
					if let Ok(p) = unsafe { duke::tree::descriptor::ReturnDescriptorSlice::from_inner_unchecked(js) }.parse() {
						let _ = p.write();
					}
				}
			}
		}
	}
}

// ---------------------------------------------------------------------------------------------
// sampling seeds through proptest's generators (all randomness comes from VERIF_SEED)

struct Sampler {
	runner: TestRunner,
}

impl Sampler {
	fn new(seed: u64) -> Sampler {
		Sampler { runner: TestRunner::new(Config { rng_seed: RngSeed::Fixed(seed), failure_persistence: None, ..Config::default() }) }
	}
	fn draw<S: Strategy>(&mut self, s: &S) -> S::Value {
		s.new_tree(&mut self.runner).expect("strategy").current()
	}
}

pub struct Meta {
	pub target: Target,
	pub fault: &'static str,
	pub role: String,
	/// the mutation lies behind the magic/version header (class files) and changed the bytes
	pub nontrivial: bool,
}

type Visit<'a> = dyn FnMut(&Meta, &dyn Fn() -> Vec<u8>) -> bool + 'a;

fn boundary_values(width: u8, cur: u64, remaining: u64) -> Vec<u64> {
	let mut v: Vec<u64> = match width {
		1 => vec![0, 1, 0x7f, 0x80, 0xff],
		2 => vec![0, 1, 0x7f, 0x80, 0xff, 0x100, 0x7fff, 0x8000, 0xfffe, 0xffff],
		_ => vec![0, 1, 0xff, 0xffff, 0x10000, 0x7fff_ffff, 0x8000_0000, 0xffff_fff0, 0xffff_ffff, remaining, remaining.wrapping_add(1), remaining.wrapping_sub(1)],
	};
	v.push(cur.wrapping_add(1));
	v.push(cur.wrapping_sub(1));
	let mask = if width >= 8 { u64::MAX } else { (1u64 << (8 * width as u32)) - 1 };
	let mut out: Vec<u64> = v.into_iter().map(|x| x & mask).filter(|x| *x != cur).collect();
	out.sort();
	out.dedup();
	out
}

fn get_be(b: &[u8], off: usize, w: u8) -> u64 {
	b[off..off + w as usize].iter().fold(0u64, |a, x| a << 8 | *x as u64)
}

fn put_be(b: &mut [u8], off: usize, w: u8, v: u64) {
	for i in 0..w as usize {
		b[off + i] = (v >> (8 * (w as usize - 1 - i))) as u8;
	}
}

fn is_index_role(role: &str) -> bool {
	role.contains("index") || role.contains("_ref") || role == "this_class" || role == "super_class" || role == "bootstrap_argument"
}

fn class_file_cases(enc: &Encoded, randoms: &[(u32, u8)], visit: &mut Visit) -> bool {
	let bytes = &enc.bytes;
	for target in [Target::DukeTree, Target::DukeUnit] {
		// the seed itself
		if !visit(&Meta { target, fault: "valid_seed", role: String::new(), nontrivial: false }, &|| bytes.clone()) {
			return false;
		}
		for (off, w, role) in &enc.fields {
			let cur = get_be(bytes, *off, *w);
			let remaining = (bytes.len() - off - *w as usize) as u64;
			for val in boundary_values(*w, cur, remaining) {
				let m = Meta { target, fault: "field_boundary_value", role: role.to_string(), nontrivial: *off >= 8 };
				if !visit(&m, &|| {
					let mut b = bytes.clone();
					put_be(&mut b, *off, *w, val);
					b
				}) {
					return false;
				}
			}
			if is_index_role(role) && target == Target::DukeTree {
				let n = enc.pool_len as u64;
				let step = (n / 48).max(1);
				let mut v = 0;
				while v <= n + 1 {
					if v != cur {
						let m = Meta { target, fault: "index_redirection", role: role.to_string(), nontrivial: true };
						if !visit(&m, &|| {
							let mut b = bytes.clone();
							put_be(&mut b, *off, *w, v & if *w == 1 { 0xff } else { 0xffff });
							b
						}) {
							return false;
						}
					}
					v += step;
				}
			}
			for cut in [*off, *off + 1] {
				if cut < bytes.len() {
					let m = Meta { target, fault: "truncation", role: role.to_string(), nontrivial: cut >= 8 };
					if !visit(&m, &|| bytes[..cut].to_vec()) {
						return false;
					}
				}
			}
		}
		for (pos, val) in randoms {
			let p = (*pos as usize) % bytes.len();
			let m = Meta { target, fault: "random_byte_edit", role: String::new(), nontrivial: p >= 8 && bytes[p] != *val };
			if !visit(&m, &|| {
				let mut b = bytes.clone();
				b[p] = *val;
				b
			}) {
				return false;
			}
		}
	}
	true
}

/// (offset of the u16 length, length) of every CONSTANT_Utf8 of a class file whose pool can be walked
fn utf8_entries(b: &[u8]) -> Vec<(usize, usize)> {
	let mut out = Vec::new();
	if b.len() < 10 {
		return out;
	}
	let count = u16::from_be_bytes([b[8], b[9]]) as usize;
	let mut p = 10;
	let mut i = 1;
	while i < count && p < b.len() {
		let step = match b[p] {
			1 => {
				if p + 3 > b.len() {
					break;
				}
				let len = u16::from_be_bytes([b[p + 1], b[p + 2]]) as usize;
				if p + 3 + len > b.len() {
					break;
				}
				out.push((p + 1, len));
				3 + len
			}
			3 | 4 | 9 | 10 | 11 | 12 | 17 | 18 => 5,
			5 | 6 => {
				i += 1;
				9
			}
			7 | 8 | 16 | 19 | 20 => 3,
			15 => 4,
			_ => break,
		};
		p += step;
		i += 1;
	}
	out
}

/// replacement contents for a Utf8 constant: the strings at which name and descriptor handling changes behaviour
const HOSTILE_UTF8: &[&[u8]] = &[
	b"", b"L", b"[", b"(", b")", b"()", b"(L", b"L;", b"[[", b";", b"V", b"J", b"D", b"[J", b"(J", b"()J", b"(D)D", b"<", b"<init>", b"<clinit>", b"a//b", b"/", b"a/", b"/a", b".", b"[L", b"[L;", b"[La;", b"(;)V", b"()L;", b"LL;;",
	b"(La;", b"(La;)", b"()[", b"$", b"a$", b"$a", b"a$$b", b"1", b"a$1", b"\xc0\x80", b"\xff", b"\xc3", b"\xed\xa0\x80", b"\xed\xa0\x80\xed\xb0\x80", b"Code", b"StackMapTable", b"Signature",
];

/// every Utf8 constant replaced by every hostile content (a local edit: nothing in a class file addresses the pool by offset)
fn utf8_replacement_cases(bytes: &[u8], visit: &mut Visit) -> bool {
	for (off, len) in utf8_entries(bytes) {
		let cur = &bytes[off + 2..off + 2 + len];
		for rep in HOSTILE_UTF8 {
			if *rep == cur {
				continue;
			}
			let m = Meta { target: Target::DukeTree, fault: "utf8_constant_replaced", role: String::from_utf8_lossy(rep).into_owned(), nontrivial: true };
			if !visit(&m, &|| {
				let mut b = bytes[..off].to_vec();
				b.extend_from_slice(&(rep.len() as u16).to_be_bytes());
				b.extend_from_slice(rep);
				b.extend_from_slice(&bytes[off + 2 + len..]);
				b
			}) {
				return false;
			}
		}
	}
	true
}

// ---------------------------------------------------------------------------------------------
// hand-assembled hostile class files

struct Asm {
	pool: Vec<Vec<u8>>,
	slots: usize,
}

impl Asm {
	fn new() -> Asm {
		Asm { pool: Vec::new(), slots: 1 }
	}
	fn add(&mut self, e: Vec<u8>, wide: bool) -> u16 {
		let i = self.slots;
		self.pool.push(e);
		self.slots += if wide { 2 } else { 1 };
		i as u16
	}
	fn utf8(&mut self, s: &str) -> u16 {
		let mut e = vec![1];
		e.extend_from_slice(&(s.len() as u16).to_be_bytes());
		e.extend_from_slice(s.as_bytes());
		self.add(e, false)
	}
	fn class(&mut self, s: &str) -> u16 {
		let u = self.utf8(s);
		self.add([&[7u8][..], &u.to_be_bytes()].concat(), false)
	}
	fn int(&mut self, v: i32) -> u16 {
		self.add([&[3u8][..], &v.to_be_bytes()].concat(), false)
	}
	fn ref2(&mut self, tag: u8, a: u16, b: u16) -> u16 {
		self.add([&[tag][..], &a.to_be_bytes(), &b.to_be_bytes()].concat(), false)
	}
	fn handle(&mut self, kind: u8, r: u16) -> u16 {
		self.add([&[15u8, kind][..], &r.to_be_bytes()].concat(), false)
	}
	/// assembles: header, pool, access, this, super, no interfaces, `fields`, `methods`, `attrs` (each already encoded incl. count)
	fn finish(&self, this: u16, sup: u16, fields: &[u8], methods: &[u8], attrs: &[u8]) -> Vec<u8> {
		let mut o = vec![0xCA, 0xFE, 0xBA, 0xBE, 0, 0, 0, 61];
		o.extend_from_slice(&(self.slots as u16).to_be_bytes());
		for e in &self.pool {
			o.extend_from_slice(e);
		}
		o.extend_from_slice(&[0, 0x21]);
		o.extend_from_slice(&this.to_be_bytes());
		o.extend_from_slice(&sup.to_be_bytes());
		o.extend_from_slice(&[0, 0]);
		o.extend_from_slice(fields);
		o.extend_from_slice(methods);
		o.extend_from_slice(attrs);
		o
	}
}

fn attr(name: u16, body: &[u8]) -> Vec<u8> {
	[&name.to_be_bytes()[..], &(body.len() as u32).to_be_bytes(), body].concat()
}

/// an annotation whose single element value is nested `depth` times ('[' arrays or '@' annotations)
fn deep_annotation(depth: usize, by_annotation: bool, default_attr: bool) -> Vec<u8> {
	let mut a = Asm::new();
	let this = a.class("A");
	let sup = a.class("java/lang/Object");
	let name = a.utf8(if default_attr { "AnnotationDefault" } else { "RuntimeVisibleAnnotations" });
	let ty = a.utf8("LA;");
	let el = a.utf8("v");
	let k = a.int(1);
	let mname = a.utf8("m");
	let mdesc = a.utf8("()I");
	let mut value = Vec::with_capacity(depth * 9 + 3);
	for _ in 0..depth {
		if by_annotation {
			value.push(b'@');
			value.extend_from_slice(&ty.to_be_bytes());
			value.extend_from_slice(&1u16.to_be_bytes());
			value.extend_from_slice(&el.to_be_bytes());
		} else {
			value.push(b'[');
			value.extend_from_slice(&1u16.to_be_bytes());
		}
	}
	value.push(b'I');
	value.extend_from_slice(&k.to_be_bytes());
	if default_attr {
		let m = [&[0u8, 1][..], &[0, 1], &mname.to_be_bytes(), &mdesc.to_be_bytes(), &[0, 1], &attr(name, &value)].concat();
		a.finish(this, sup, &[0, 0], &m, &[0, 0])
	} else {
		let body = [&[0u8, 1][..], &ty.to_be_bytes(), &[0, 1], &el.to_be_bytes(), &value].concat();
		a.finish(this, sup, &[0, 0], &[0, 0], &[&[0u8, 1][..], &attr(name, &body)].concat())
	}
}

/// a dynamic constant that lists itself (directly or through a second one) as its bootstrap argument
fn self_referential_condy(indirect: bool, via_indy: bool) -> Vec<u8> {
	let mut a = Asm::new();
	let this = a.class("A");
	let sup = a.class("java/lang/Object");
	let bsm_name = a.utf8("BootstrapMethods");
	let code_name = a.utf8("Code");
	let n = a.utf8("x");
	let d = a.utf8(if via_indy { "()I" } else { "I" });
	let nat = a.ref2(12, n, d);
	let mn = a.utf8("bsm");
	let md = a.utf8("()V");
	let mnat = a.ref2(12, mn, md);
	let mref = a.ref2(10, this, mnat);
	let h = a.handle(6, mref);
	let condy_d = a.utf8("I");
	let condy_nat = a.ref2(12, n, condy_d);
	let c0 = a.ref2(17, 0, condy_nat); // Dynamic -> bsm 0
	let c1 = a.ref2(17, 1, condy_nat); // Dynamic -> bsm 1
	let indy = a.ref2(18, 0, nat);
	let m_name = a.utf8("m");
	let m_desc = a.utf8("()V");
	// bsm 0: args [c1 or c0], bsm 1: args [c0]
	let arg0 = if indirect { c1 } else { c0 };
	let bsm_body = [&[0u8, 2][..], &h.to_be_bytes(), &[0, 1], &arg0.to_be_bytes(), &h.to_be_bytes(), &[0, 1], &c0.to_be_bytes()].concat();
	let code: Vec<u8> = if via_indy { vec![186, (indy >> 8) as u8, indy as u8, 0, 0, 87, 177] } else { vec![19, (c0 >> 8) as u8, c0 as u8, 87, 177] };
	let code_body = [&[0u8, 1, 0, 1][..], &(code.len() as u32).to_be_bytes(), &code, &[0, 0, 0, 0]].concat();
	let m = [&[0u8, 1][..], &[0, 9], &m_name.to_be_bytes(), &m_desc.to_be_bytes(), &[0, 1], &attr(code_name, &code_body)].concat();
	a.finish(this, sup, &[0, 0], &m, &[&[0u8, 1][..], &attr(bsm_name, &bsm_body)].concat())
}

/// an acyclic chain of `n` distinct dynamic constants: constant k is the only argument of the bootstrap method of
/// constant k-1; the head is loaded by `ldc_w` (or called through `invokedynamic`).  Nothing refers to itself, so only a
/// depth limit (not a cycle check) keeps the resolution from recursing n levels deep.
fn condy_chain(n: usize, via_indy: bool) -> Vec<u8> {
	let mut a = Asm::new();
	let this = a.class("A");
	let sup = a.class("java/lang/Object");
	let bsm_name = a.utf8("BootstrapMethods");
	let code_name = a.utf8("Code");
	let x = a.utf8("x");
	let di = a.utf8("I");
	let condy_nat = a.ref2(12, x, di);
	let dv = a.utf8("()I");
	let indy_nat = a.ref2(12, x, dv);
	let mn = a.utf8("bsm");
	let md = a.utf8("()V");
	let mnat = a.ref2(12, mn, md);
	let mref = a.ref2(10, this, mnat);
	let h = a.handle(6, mref);
	let leaf = a.int(7);
	// constant k uses bootstrap method k
	let first = a.slots as u16;
	for k in 0..n {
		a.ref2(17, k as u16, condy_nat);
	}
	let indy = a.ref2(18, 0, indy_nat);
	let m_name = a.utf8("m");
	let m_desc = a.utf8("()V");
	let mut bsm_body = (n as u16).to_be_bytes().to_vec();
	for k in 0..n {
		let arg = if k + 1 < n { first + k as u16 + 1 } else { leaf };
		bsm_body.extend_from_slice(&h.to_be_bytes());
		bsm_body.extend_from_slice(&[0, 1]);
		bsm_body.extend_from_slice(&arg.to_be_bytes());
	}
	let code: Vec<u8> = if via_indy { vec![186, (indy >> 8) as u8, indy as u8, 0, 0, 87, 177] } else { vec![19, (first >> 8) as u8, first as u8, 87, 177] };
	let code_body = [&[0u8, 1, 0, 1][..], &(code.len() as u32).to_be_bytes(), &code, &[0, 0, 0, 0]].concat();
	let m = [&[0u8, 1][..], &[0, 9], &m_name.to_be_bytes(), &m_desc.to_be_bytes(), &[0, 1], &attr(code_name, &code_body)].concat();
	a.finish(this, sup, &[0, 0], &m, &[&[0u8, 1][..], &attr(bsm_name, &bsm_body)].concat())
}

/// a Code attribute with the given raw bytecode and optional extra Code attributes
fn raw_code_class(code: &[u8], code_attrs: &[(&str, Vec<u8>)], desc: &str) -> Vec<u8> {
	let mut a = Asm::new();
	let this = a.class("A");
	let sup = a.class("java/lang/Object");
	let code_name = a.utf8("Code");
	let m_name = a.utf8("m");
	let m_desc = a.utf8("()V");
	let itf = a.class("I");
	let in_ = a.utf8("call");
	let id = a.utf8(desc);
	let inat = a.ref2(12, in_, id);
	let _imref = a.ref2(11, itf, inat); // InterfaceMethodref, index known to callers: last-4..
	let lv_name = a.utf8("v");
	let lv_desc = a.utf8("I");
	let _ = (lv_name, lv_desc);
	let mut extra = Vec::new();
	for (n, body) in code_attrs {
		let ni = a.utf8(n);
		extra.extend_from_slice(&attr(ni, body));
	}
	let code_body = [&[0u8, 4, 0, 4][..], &(code.len() as u32).to_be_bytes(), code, &[0, 0], &(code_attrs.len() as u16).to_be_bytes(), &extra].concat();
	let m = [&[0u8, 1][..], &[0, 9], &m_name.to_be_bytes(), &m_desc.to_be_bytes(), &[0, 1], &attr(code_name, &code_body)].concat();
	a.finish(this, sup, &[0, 0], &m, &[0, 0])
}

fn hostile_class_files(thorough: bool) -> Vec<(&'static str, Vec<u8>)> {
	let mut v: Vec<(&'static str, Vec<u8>)> = Vec::new();
	let depths: &[usize] = if thorough { &[10, 1000, 20_000, 100_000] } else { &[10, 1000, 100_000] };
	for d in depths {
		v.push(("deep_element_value_array", deep_annotation(*d, false, false)));
		v.push(("deep_nested_annotation", deep_annotation(*d, true, false)));
		v.push(("deep_annotation_default", deep_annotation(*d, false, true)));
	}
	v.push(("self_referential_condy", self_referential_condy(false, false)));
	v.push(("self_referential_condy", self_referential_condy(true, false)));
	v.push(("self_referential_condy_via_indy", self_referential_condy(false, true)));
	v.push(("self_referential_condy_via_indy", self_referential_condy(true, true)));
	for n in [3usize, 255, 256, 257, 5000, 60000] {
		v.push(("long_chain_of_dynamic_constants", condy_chain(n, false)));
		v.push(("long_chain_of_dynamic_constants_via_indy", condy_chain(n, true)));
	}
	// a label at every bytecode offset a method can have: 65535 one-byte instructions, a line number for each of them, and
	// an exception range that ends at code_length = 65535 (65536 distinct offsets; a valid class file)
	for with_end in [false, true] {
		use crate::classfile::model::{Attr, CClass, CMember, Code, ExcEntry, Insn};
		let n = 65535usize;
		let mut insns: Vec<Insn> = vec![Insn::Simple(0); n - 1];
		insns.push(Insn::Simple(177));
		let code = Code { max_stack: 1, max_locals: 1, insns, exceptions: if with_end { vec![ExcEntry { start: 0, end: n, handler: 0, catch: None }] } else { vec![] }, attrs: vec![Attr::LineNumberTable((0..n).map(|i| (i, (i % 60000) as u16)).collect())] };
		let c = CClass { minor: 0, major: 52, access: 0x21, name: "a/Labels".into(), super_class: Some("java/lang/Object".into()), interfaces: vec![], fields: vec![], methods: vec![CMember { access: 9, name: "m".into(), desc: "()V".into(), attrs: vec![Attr::Code(code)] }], attrs: vec![] };
		if let Ok(e) = encode(&c, &Choices::default()) {
			v.push(("label_at_every_bytecode_offset", e.bytes));
		}
	}
	// truncated last instructions
	for code in [&[17u8][..], &[17, 0], &[16], &[18], &[19, 0], &[153, 0], &[200, 0, 0], &[196], &[196, 21], &[196, 132, 0, 1], &[197, 0], &[185, 0, 13, 1], &[186, 0], &[170], &[170, 0, 0, 0], &[171, 0, 0, 0, 0, 0, 0, 0]] {
		v.push(("truncated_last_instruction", raw_code_class(code, &[], "()V")));
	}
	// switches at int extremes
	let ts = |low: i32, high: i32| -> Vec<u8> { [&[170u8, 0, 0, 0][..], &0i32.to_be_bytes(), &low.to_be_bytes(), &high.to_be_bytes(), &0i32.to_be_bytes(), &[177]].concat() };
	for (lo, hi) in [(i32::MIN, i32::MAX), (0, i32::MAX), (i32::MIN, 0), (-1, i32::MAX - 1), (5, 4), (0, 0x0fff_ffff)] {
		v.push(("tableswitch_int_range", raw_code_class(&ts(lo, hi), &[], "()V")));
	}
	for n in [i32::MAX, i32::MIN, -1, 0x1000_0000, 0x7fff] {
		let ls = [&[171u8, 0, 0, 0][..], &0i32.to_be_bytes(), &n.to_be_bytes(), &[177]].concat();
		v.push(("lookupswitch_npairs", raw_code_class(&ls, &[], "()V")));
	}
	// branch arithmetic
	for code in [&[167u8, 0x80, 0x00, 177][..], &[167, 0x7f, 0xff, 177], &[200, 0x80, 0, 0, 0, 177], &[200, 0x7f, 0xff, 0xff, 0xff, 177], &[200, 0, 1, 0, 0, 177], &[153, 0xff, 0xff, 177]] {
		v.push(("branch_offset_extremes", raw_code_class(code, &[], "()V")));
	}
	// local variable ranges and stack map offsets past the code / past 65535
	for (start, len) in [(0u16, 0xffffu16), (0xffff, 0xffff), (1, 0xffff), (0, 2), (2, 0)] {
		let body = [&[0u8, 1][..], &start.to_be_bytes(), &len.to_be_bytes(), &[0, 14, 0, 15, 0, 0]].concat();
		v.push(("local_variable_range", raw_code_class(&[0, 177], &[("LocalVariableTable", body.clone())], "()V")));
		v.push(("local_variable_range", raw_code_class(&[0, 177], &[("LocalVariableTypeTable", body)], "()V")));
	}
	for deltas in [&[0xffffu16, 0xffff][..], &[0xffff, 0], &[1, 0xfffe], &[0x8000, 0x8000, 0x8000]] {
		let mut body = (deltas.len() as u16).to_be_bytes().to_vec();
		for d in deltas {
			body.push(251);
			body.extend_from_slice(&d.to_be_bytes());
		}
		v.push(("stack_map_offset_sum", raw_code_class(&[0, 177], &[("StackMapTable", body)], "()V")));
	}
	// invokeinterface with more argument slots than a byte can count
	for n in [126usize, 127, 128, 254, 255, 256, 300] {
		let desc = format!("({})V", "J".repeat(n));
		v.push(("invokeinterface_argument_slots", raw_code_class(&[185, 0, 13, 1, 0, 177], &[], &desc)));
	}
	// huge counts with a tiny body
	let mut a = Asm::new();
	let this = a.class("A");
	let sup = a.class("java/lang/Object");
	let n = a.utf8("Whatever");
	for len in [0xffff_fff0u32, 0x7fff_ffff, 0x1000_0000] {
		let at = [&n.to_be_bytes()[..], &len.to_be_bytes(), &[1, 2, 3]].concat();
		v.push(("huge_attribute_length", a.finish(this, sup, &[0, 0], &[0, 0], &[&[0u8, 1][..], &at].concat())));
	}
	v.push(("huge_counts", a.finish(this, sup, &[0xff, 0xff], &[], &[])));
	v.push(("huge_counts", a.finish(this, sup, &[0, 0], &[0xff, 0xff], &[])));
	v.push(("huge_counts", a.finish(this, sup, &[0, 0], &[0, 0], &[0xff, 0xff])));
	v
}

// ---------------------------------------------------------------------------------------------
// text mutations

fn text_cases(target: Target, seed_text: &str, visit: &mut Visit) -> bool {
	let bytes = seed_text.as_bytes();
	let lines: Vec<&str> = seed_text.split_inclusive('\n').collect();
	let v = |fault: &'static str, role: String, f: &dyn Fn() -> Vec<u8>, visit: &mut Visit| visit(&Meta { target, fault, role, nontrivial: true }, f);
	if !visit(&Meta { target, fault: "valid_seed", role: String::new(), nontrivial: false }, &|| bytes.to_vec()) {
		return false;
	}
	let join = |ls: &[String]| ls.concat().into_bytes();
	for i in 0..lines.len() {
		let kind = lines[i].trim_start_matches('\t').split(['\t', ' ']).next().unwrap_or("").trim().to_string();
		let owned: Vec<String> = lines.iter().map(|s| s.to_string()).collect();
		// line level
		if !v("delete_line", kind.clone(), &|| { let mut l = owned.clone(); l.remove(i); join(&l) }, visit) {
			return false;
		}
		if !v("duplicate_line", kind.clone(), &|| { let mut l = owned.clone(); l.insert(i, owned[i].clone()); join(&l) }, visit) {
			return false;
		}
		if i + 1 < lines.len() && !v("swap_lines", kind.clone(), &|| { let mut l = owned.clone(); l.swap(i, i + 1); join(&l) }, visit) {
			return false;
		}
		for delta in [-1i32, 1, 2, 5] {
			if !v("indentation_jump", format!("{kind}:{delta}"), &|| {
				let mut l = owned.clone();
				if delta < 0 {
					l[i] = l[i].strip_prefix('\t').or_else(|| l[i].strip_prefix(' ')).unwrap_or(&l[i]).to_string();
				} else {
					l[i] = format!("{}{}", "\t".repeat(delta as usize), l[i]);
				}
				join(&l)
			}, visit) {
				return false;
			}
		}
		// token level (tab and space separated)
		let line = lines[i].trim_end_matches('\n');
		let sep = if line.contains('\t') && target != Target::Enigma { '\t' } else { ' ' };
		let toks: Vec<&str> = line.split(sep).collect();
		for t in 0..toks.len() {
			let repl: Vec<(&'static str, Option<String>)> = vec![
				("delete_token", None),
				("empty_token", Some(String::new())),
				("duplicate_token", Some(format!("{}{}{}", toks[t], sep, toks[t]))),
				("huge_number_token", Some("99999999999999999999".to_string())),
				("negative_number_token", Some("-1".to_string())),
				("nul_token", Some("\0".to_string())),
				("long_token", Some("x".repeat(70_000))),
				("bracket_token", Some("[".to_string())),
				("descriptor_garbage_token", Some("(L;[[)".to_string())),
				("non_ascii_token", Some("\u{10400}é\u{200b}".to_string())),
			];
			for (fault, r) in repl {
				let role = format!("{kind}:{t}");
				if !v(fault, role, &|| {
					let mut tk: Vec<String> = toks.iter().map(|s| s.to_string()).collect();
					match &r {
						None => {
							tk.remove(t);
						}
						Some(s) => tk[t] = s.clone(),
					}
					let mut l = owned.clone();
					l[i] = format!("{}\n", tk.join(&sep.to_string()));
					join(&l)
				}, visit) {
					return false;
				}
			}
		}
	}
	// byte level
	let step = (bytes.len() / 200).max(1);
	let mut p = 0;
	while p < bytes.len() {
		for (fault, val) in [("invalid_utf8_byte", 0xffu8), ("nul_byte", 0), ("cr_byte", b'\r'), ("tab_byte", b'\t'), ("newline_byte", b'\n'), ("backslash_byte", b'\\')] {
			if !v(fault, String::new(), &|| { let mut b = bytes.to_vec(); b[p] = val; b }, visit) {
				return false;
			}
		}
		if !v("truncation", String::new(), &|| bytes[..p].to_vec(), visit) {
			return false;
		}
		p += step;
	}
	if !v("one_huge_line", String::new(), &|| { let mut b = bytes.to_vec(); b.extend(std::iter::repeat(b'a').take(1 << 20)); b }, visit) {
		return false;
	}
	// an element no reader knows (first field `x`), followed by a long run of deeper-indented lines that belong to it - at
	// every indentation a section can start at, 100000 lines each (a reader that descends once per ignored line runs out of stack)
	for depth in 0..4usize {
		for lines in [2000usize, 100_000] {
			if !v("unknown_element_with_many_sub_lines", format!("{depth}:{lines}"), &|| {
				let mut b = bytes.to_vec();
				if !b.ends_with(b"\n") {
					b.push(b'\n');
				}
				b.extend(std::iter::repeat(b'\t').take(depth));
				b.extend_from_slice(b"x\tunknown\telement\n");
				for i in 0..lines {
					b.extend(std::iter::repeat(b'\t').take(depth + 1 + i % 2));
					b.extend_from_slice(b"y\tsub\n");
				}
				b
			}, visit) {
				return false;
			}
		}
	}
	if !v("many_tabs_line", String::new(), &|| { let mut b = bytes.to_vec(); b.extend(std::iter::repeat(b'\t').take(100_000)); b.extend_from_slice(b"c\ta\tb\n"); b }, visit) {
		return false;
	}
	true
}

fn nests_text(m: &crate::mapmodel::MapSet) -> String {
	let mut s = String::new();
	for (i, (k, c)) in m.classes.iter().enumerate() {
		let _ = c;
		let inner = match i % 3 {
			0 => "Inner".to_string(),
			1 => format!("{}", i + 1),
			_ => format!("{}Local", i + 1),
		};
		let (mn, md) = if i % 2 == 0 { ("m", "(I)V") } else { ("", "") };
		s.push_str(&format!("{k}\touter/Class{i}\t{mn}\t{md}\t{inner}\t{}\n", i * 8 + 1));
	}
	s
}

fn surrogate_names(c: &mut crate::classfile::model::CClass) {
	use crate::classfile::model::{Attr, Const, Insn};
	fn mark(n: &mut String) {
		if !n.starts_with('<') {
			n.push('\u{E000}');
		}
	}
	fn in_const(k: &mut Const) {
		if let Const::Dynamic { name, bsm, .. } = k {
			mark(name);
			for a in bsm.args.iter_mut() {
				in_const(a);
			}
			mark(&mut bsm.handle.name);
		}
		if let Const::MethodHandle(h) = k {
			mark(&mut h.name);
		}
	}
	for m in c.fields.iter_mut().chain(c.methods.iter_mut()) {
		mark(&mut m.name);
		for a in m.attrs.iter_mut() {
			if let Attr::Code(code) = a {
				for i in code.insns.iter_mut() {
					match i {
						Insn::Field { name, .. } | Insn::Invoke { name, .. } => mark(name),
						Insn::InvokeDynamic { name, bsm, .. } => {
							mark(name);
							mark(&mut bsm.handle.name);
							for a in bsm.args.iter_mut() {
								in_const(a);
							}
						}
						Insn::Ldc(k) => in_const(k),
						_ => {}
					}
				}
			}
		}
	}
}

/// the whole deterministic case list
pub fn enumerate(seed: u64, tier: Tier, visit: &mut Visit) {
	let thorough = tier == Tier::Thorough;
	let mut sm = Sampler::new(seed ^ 0xC16);
	// class files
	let n_class_seeds = if thorough { 1500 } else { 60 };
	for k in 0..n_class_seeds {
		let stream = sm.draw(&class_stream());
		let ch: Choices = if k % 2 == 0 { Choices::default() } else { sm.draw(&choices()) };
		let mut model = class_from_stream(&stream, 3, 14);
		// every fourth seed spells its member names (declared, referenced, dynamic) with an unpaired surrogate: still a valid
		// file, but a name that cannot be printed lies on every error path the faults below reach
		if k % 4 == 3 {
			surrogate_names(&mut model);
		}
		let Ok(enc) = encode(&model, &ch) else { continue };
		if enc.bytes.len() > 6000 {
			continue;
		}
		let randoms: Vec<(u32, u8)> = (0..if thorough { 400 } else { 120 }).map(|_| (sm.draw(&any::<u32>()), sm.draw(&any::<u8>()))).collect();
		if !class_file_cases(&enc, &randoms, visit) {
			return;
		}
		if (thorough || k % 2 == 0) && !utf8_replacement_cases(&enc.bytes, visit) {
			return;
		}
	}
	// javac-compiled classes: no field map, so offset-based mutations
	let corpus = crate::corpus::load();
	for (ci, (_, bytes)) in corpus.iter().enumerate() {
		if bytes.len() > 8000 || (!thorough && ci % 3 != 0) {
			continue;
		}
		let n_edits = if thorough { 600 } else { 150 };
		let edits: Vec<(u32, u8, u8)> = (0..n_edits).map(|_| (sm.draw(&any::<u32>()), sm.draw(&any::<u8>()), sm.draw(&(0u8..4)))).collect();
		for target in [Target::DukeTree, Target::DukeUnit] {
			for (pos, val, kind) in &edits {
				let p = 8 + (*pos as usize) % (bytes.len() - 8);
				let m = Meta { target, fault: ["corpus_byte_edit", "corpus_u16_overwrite", "corpus_u32_overwrite", "corpus_truncation"][*kind as usize], role: String::new(), nontrivial: true };
				if !visit(&m, &|| {
					let mut b = bytes.clone();
					match kind {
						0 => b[p] = *val,
						1 => {
							let v: u16 = [0, 1, 0x7fff, 0x8000, 0xffff, *val as u16, 0x100, 0xfffe][(*val % 8) as usize];
							for (i, x) in v.to_be_bytes().iter().enumerate() {
								if p + i < b.len() {
									b[p + i] = *x;
								}
							}
						}
						2 => {
							let v: u32 = [0, 1, 0x7fff_ffff, 0x8000_0000, 0xffff_ffff, 0xffff_fff0, 0x10000, (b.len() - p) as u32][(*val % 8) as usize];
							for (i, x) in v.to_be_bytes().iter().enumerate() {
								if p + i < b.len() {
									b[p + i] = *x;
								}
							}
						}
						_ => b.truncate(p),
					}
					b
				}) {
					return;
				}
			}
		}
	}
	for (ci, (_, bytes)) in corpus.iter().enumerate() {
		if bytes.len() > 4000 || (!thorough && ci % 8 != 0) {
			continue;
		}
		if !utf8_replacement_cases(bytes, visit) {
			return;
		}
	}
	for (fault, bytes) in hostile_class_files(thorough) {
		for target in [Target::DukeTree, Target::DukeUnit] {
			if !visit(&Meta { target, fault, role: String::new(), nontrivial: true }, &|| bytes.clone()) {
				return;
			}
		}
	}
	// mapping text
	let cfg = GenCfg { ns_min: 2, ns_max: 2, max_classes: 3, max_fields: 2, max_methods: 2, max_params: 2, p_missing: 20, style: TargetStyle::Extended, enigma_safe: true, injective: true, p_nested: 40, docs: true, ..GenCfg::default() };
	let n_text_seeds = if thorough { 60 } else { 5 };
	for _ in 0..n_text_seeds {
		let m2 = sm.draw(&mapset(cfg.clone()));
		let m3 = sm.draw(&mapset(GenCfg { ns_min: 3, ns_max: 3, enigma_safe: false, ..cfg.clone() }));
		let b = edit(&m2, 1, &sm.draw(&draws()));
		if !text_cases(Target::Tiny2, &text::tiny(&m2, 0), visit) {
			return;
		}
		if !text_cases(Target::Tiny3, &text::tiny(&m3, 0), visit) {
			return;
		}
		if let Some(d) = refops::diff(&m2, &b) {
			if !text_cases(Target::TinyDiff, &text::tinydiff(&d, 0), visit) {
				return;
			}
		}
		if !text_cases(Target::Enigma, &text::enigma(&m2), visit) {
			return;
		}
		if !text_cases(Target::Nests, &nests_text(&m2), visit) {
			return;
		}
	}
	for (target, path) in [(Target::Tiny2, "/repo/quill/tests/remap_input.tiny"), (Target::Enigma, "/repo/quill/tests/read_file_input_enigma.txt"), (Target::Tiny2, "/repo/quill/tests/read_file_input_tiny_v2.txt")] {
		if let Ok(t) = std::fs::read_to_string(path) {
			if t.len() < 6000 && !text_cases(target, &t, visit) {
				return;
			}
		}
	}
	// descriptor strings: long and hostile ones (short ones are exhausted by C18)
	let descs: Vec<String> = vec![
		"[".repeat(255) + "I",
		"[".repeat(256) + "I",
		"[".repeat(100_000),
		format!("({})V", "J".repeat(70_000)),
		format!("({}", "[".repeat(70_000)),
		format!("L{};", "a/".repeat(50_000)),
		format!("L{}", "a".repeat(100_000)),
		"(".repeat(100_000),
		format!("({})", "Lx;".repeat(50_000)),
		"L;".into(),
		"L[I;".into(),
		"()".into(),
		"\u{10400}".into(),
		String::new(),
	];
	for d in &descs {
		for target in [Target::FieldDesc, Target::MethodDesc, Target::ReturnDesc] {
			if !visit(&Meta { target, fault: "hostile_descriptor", role: String::new(), nontrivial: true }, &|| d.as_bytes().to_vec()) {
				return;
			}
		}
	}
	for _ in 0..if thorough { 20_000 } else { 2_000 } {
		let s: String = sm.draw(&"[\\[\\(\\)LBIJVZ;/a$<>\\.]{0,40}");
		for target in [Target::FieldDesc, Target::MethodDesc, Target::ReturnDesc] {
			if !visit(&Meta { target, fault: "random_descriptor", role: String::new(), nontrivial: s.len() >= 2 }, &|| s.as_bytes().to_vec()) {
				return;
			}
		}
	}
}

fn _unused(_: W) {}

// ---------------------------------------------------------------------------------------------
// child

pub fn child(seed: u64, tier: Tier, shard: usize, nshards: usize, start: u64) -> ! {
	let mut out = ChildOut::default();
	let mut idx: u64 = 0;
	let mut executed = 0u64;
	let mut combos: BTreeMap<String, u64> = BTreeMap::new();
	let mut nontrivial: BTreeSet<u64> = BTreeSet::new();
	let mut samples: Vec<Value> = Vec::new();
	// run on a thread with a fixed 8 MiB stack so that stack behaviour does not depend on ulimit
	let handle = std::thread::Builder::new()
		.stack_size(8 << 20)
		.spawn(move || {
			enumerate(seed, tier, &mut |meta, make| {
				let i = idx;
				idx += 1;
				if i % nshards as u64 != shard as u64 {
					return true;
				}
				let input = make();
				// cases before `start` were executed by an earlier incarnation of this child that died: count them, do not run them
				let v = if i < start {
					Verdict::Fine
				} else {
					out.start(i);
					executed += 1;
					run_guarded(input.len(), || run_target(meta.target, &input))
				};
				let combo = format!("{}|{}|{}", meta.target.name(), meta.fault, meta.role.split(':').next().unwrap_or(""));
				*combos.entry(combo.clone()).or_insert(0) += 1;
				if meta.nontrivial {
					nontrivial.insert(fnv64(&input) ^ fnv64(combo.as_bytes()));
					if samples.len() < 3 && i % 997 == 0 {
						samples.push(json!({"index": i, "target": meta.target.name(), "fault": meta.fault, "role": meta.role, "input_len": input.len(), "input_prefix_hex": hex(&input[..input.len().min(48)])}));
					}
				}
				if v != Verdict::Fine {
					out.verdict(i, &v);
				}
				true
			});
			// the hashes of the non-trivial cases go to a scratch file (the parent merges them exactly)
			let base = if std::path::Path::new("/dev/shm").is_dir() { "/dev/shm" } else { "/tmp" };
			let hpath = format!("{base}/fbverif-c16-{}-{shard}-{start}.hashes", std::process::id());
			let mut buf = Vec::with_capacity(nontrivial.len() * 8);
			for h in &nontrivial {
				buf.extend_from_slice(&h.to_le_bytes());
			}
			let _ = std::fs::write(&hpath, buf);
			out.end(&json!({"executed": executed, "combos": combos, "hashes": hpath, "samples": samples}));
		})
		.expect("spawn worker");
	let _ = handle.join();
	std::process::exit(0)
}

/// writes one saved case per hostile class file kind and target (regression tier)
pub fn dump_hostile() {
	let dir = std::path::Path::new(crate::engine::VERIF).join("replays").join("C16");
	let _ = std::fs::create_dir_all(&dir);
	let mut seen: BTreeSet<String> = BTreeSet::new();
	for (fault, bytes) in hostile_class_files(false) {
		if bytes.len() > 40_000 {
			continue;
		}
		let n = (0..).find(|n| seen.insert(format!("{fault}-{n}"))).unwrap_or(0);
		if n >= 3 {
			continue;
		}
		for target in [Target::DukeTree, Target::DukeUnit] {
			let v = json!({"property": "C16", "sub": "totality", "reason": "regression input (hostile class file)", "case": {"target": target, "fault": fault, "role": "", "input_hex": hex(&bytes), "input_len": bytes.len()}});
			let _ = std::fs::write(dir.join(format!("regress-{fault}-{n}-{}.json", if target == Target::DukeTree { "tree" } else { "unit" })), serde_json::to_string(&v).unwrap_or_default());
		}
	}
}

/// how the libFuzzer target `c16_text` picks the parser from its first byte
pub fn fuzz_text_target(b: u8) -> Target {
	match b % 8 {
		0 => Target::Tiny2,
		1 => Target::Tiny3,
		2 => Target::Enigma,
		3 => Target::Nests,
		4 => Target::FieldDesc,
		5 => Target::MethodDesc,
		6 => Target::ReturnDesc,
		_ => Target::TinyDiff,
	}
}

pub fn hex(b: &[u8]) -> String {
	b.iter().map(|x| format!("{x:02x}")).collect()
}

pub fn unhex(s: &str) -> Vec<u8> {
	(0..s.len() / 2).filter_map(|i| u8::from_str_radix(&s[2 * i..2 * i + 2], 16).ok()).collect()
}

/// runs a single saved case in this process and prints the verdict (used through a child process)
pub fn child_one(case: &Value) -> ! {
	let target: Target = serde_json::from_value(case["target"].clone()).unwrap_or(Target::DukeTree);
	let input = unhex(case["input_hex"].as_str().unwrap_or(""));
	let handle = std::thread::Builder::new()
		.stack_size(8 << 20)
		.spawn(move || {
			let v = run_guarded(input.len(), || run_target(target, &input));
			println!("R 0 {}", serde_json::to_string(&v).unwrap_or_default());
		})
		.expect("spawn");
	let _ = handle.join();
	std::process::exit(0)
}

// ---------------------------------------------------------------------------------------------
// parent

pub fn verdict_signature(target: Target, fault: &str, v: &Verdict) -> String {
	match v {
		Verdict::Fine => "fine".into(),
		Verdict::Panic { site, message } => format!("panic:{}", signature(site, message)),
		Verdict::Alloc { .. } => format!("alloc:{}", target.name()),
		Verdict::Crash { .. } => format!("crash:{}:{}", target.name(), fault),
		Verdict::Watchdog => "watchdog".into(),
	}
}

fn one_in_child(path: &std::path::Path) -> Verdict {
	let exe = std::env::current_exe().expect("exe");
	let out = std::process::Command::new(exe).arg("C16").arg("--child-one").arg(path).stderr(std::process::Stdio::null()).output();
	match out {
		Ok(o) => {
			let text = String::from_utf8_lossy(&o.stdout);
			for l in text.lines() {
				if let Some(js) = l.strip_prefix("R 0 ") {
					if let Ok(v) = serde_json::from_str(js) {
						return v;
					}
				}
			}
			use std::os::unix::process::ExitStatusExt;
			Verdict::Crash { signal: o.status.signal().map(|s| format!("signal {s}")).unwrap_or("exit".into()) }
		}
		Err(e) => Verdict::Crash { signal: format!("spawn failed: {e}") },
	}
}

pub fn run(ctx: &mut Ctx) {
	ctx.level = "fault_enumeration";
	ctx.rule = "deterministic enumeration from VERIF_SEED: for generated valid class files every structural field (encoder field map: counts, lengths, indices, tags, offsets, opcodes) is set to boundary values (0,1,0x7f,0x80,0xff,0x100,0x7fff,0x8000,0xfffe,0xffff, u32 extremes, own value +-1, remaining length +-1), every constant pool reference is redirected over the whole pool incl. 0 / count / count+1, the file is truncated at every field boundary, plus random byte edits; hand-assembled hostile files (element values and annotations nested up to 100000 deep, dynamic constants that are their own bootstrap argument, acyclic chains of up to 60000 distinct dynamic constants, truncated last instructions, switches over the int range, branch/local-variable/stack-map arithmetic at 65535, invokeinterface with >255 argument slots, 4 GiB attribute_length in a tiny file); valid tiny / tinydiff / enigma / nests text with line, indentation, token and byte mutations (20-digit numbers, NUL, invalid UTF-8, 70 kB tokens, 1 MiB line); hostile and random descriptor strings. Each case runs in a sandboxed child: only a value or a clean Err is allowed; panic (caught, site recorded), death of the child (stack overflow, abort), or one allocation request > 64*len+16MiB are violations; no progress for 60 s is inconclusive. distinct_nontrivial = distinct (input bytes, target, fault kind, field role) behind the header".into();
	ctx.assume("a hang is reported as inconclusive (exit 2), never as a violation");
	ctx.assume("memory unrelated to the input size = a single allocation request larger than 64 x input length + 16 MiB (pre-sizing by a 16-bit count is bounded and not counted)");
	let sub = "totality";

	// replay mode: one saved case in a child
	if ctx.in_replay() {
		if let Some(case) = ctx.replay_case(sub) {
			let dir = crate::engine::Scratch::new("c16replay");
			let p = dir.path.join("case.json");
			let _ = std::fs::write(&p, json!({"sub": sub, "case": case}).to_string());
			let v = one_in_child(&p);
			if v != Verdict::Fine && v != Verdict::Watchdog {
				ctx.push_violation(sub, format!("{} on input of {} bytes: {v:?}", case["target"], unhex(case["input_hex"].as_str().unwrap_or("")).len()));
			}
		}
		return;
	}

	// open findings: signature -> id
	let mut open: BTreeMap<String, String> = BTreeMap::new();
	let mut known_replays: Vec<(String, String, String, Option<String>)> = Vec::new();
	for f in &ctx.findings.findings {
		if f.property == "C16" {
			if f.status == "open" && !ctx.strict {
				if let Some(sig) = &f.signature {
					open.insert(sig.clone(), f.id.clone());
				}
			}
			if let Some(r) = &f.replay {
				known_replays.push((f.id.clone(), f.status.clone(), f.what.clone(), Some(r.clone())));
			}
		}
	}
	// replay tier: every saved input under replays/C16; the input of an open finding is expected to fail
	let dir = std::path::Path::new(crate::engine::VERIF).join("replays").join("C16");
	let mut files: Vec<std::path::PathBuf> = std::fs::read_dir(&dir).map(|rd| rd.filter_map(|e| e.ok().map(|e| e.path())).filter(|p| p.extension().is_some_and(|x| x == "json")).collect()).unwrap_or_default();
	files.sort();
	let results: Vec<(std::path::PathBuf, Verdict)> = std::thread::scope(|s| {
		let hs: Vec<_> = files.chunks(files.len().div_ceil(ctx.threads).max(1)).map(|chunk| s.spawn(move || chunk.iter().map(|p| (p.clone(), one_in_child(p))).collect::<Vec<_>>())).collect();
		hs.into_iter().flat_map(|h| h.join().expect("replay thread")).collect()
	});
	for (p, v) in results {
		ctx.replayed += 1;
		let rel = format!("replays/C16/{}", p.file_name().and_then(|f| f.to_str()).unwrap_or(""));
		let open_finding = known_replays.iter().find(|(_, status, _, r)| status == "open" && r.as_deref() == Some(rel.as_str()));
		let bad = v != Verdict::Fine && v != Verdict::Watchdog;
		match open_finding {
			Some((id, _, what, _)) if !ctx.strict => {
				if bad {
					ctx.known_lines.push(format!("{what} [{id}]"));
				} else {
					eprintln!("note: open finding {id} no longer reproduces from {p:?}");
				}
			}
			_ => {
				if bad {
					ctx.violations_push_saved(sub, format!("saved input {rel} fails: {v:?}"), p.clone());
				}
			}
		}
	}

	let nshards = ctx.threads;
	let args = vec!["C16".to_string(), "--tier".to_string(), ctx.tier.name().to_string()];
	std::env::set_var("VERIF_SEED", ctx.seed.to_string());
	let reports: Vec<_> = std::thread::scope(|s| {
		let hs: Vec<_> = (0..nshards).map(|sh| { let args = &args; s.spawn(move || run_shard(args, sh, nshards, Duration::from_secs(60))) }).collect();
		hs.into_iter().map(|h| h.join().expect("shard")).collect()
	});
	let mut executed = 0u64;
	let mut hashes: std::collections::HashSet<u64> = std::collections::HashSet::new();
	let mut combos: BTreeMap<String, u64> = BTreeMap::new();
	let mut samples: Vec<Value> = Vec::new();
	let mut bad: BTreeMap<u64, Verdict> = BTreeMap::new();
	for r in reports {
		executed += r.executed;
		for s in r.stats {
			if let Some(hp) = s["hashes"].as_str() {
				if let Ok(b) = std::fs::read(hp) {
					hashes.extend(b.chunks_exact(8).map(|c| u64::from_le_bytes(c.try_into().unwrap())));
				}
				let _ = std::fs::remove_file(hp);
			}
			if let Some(m) = s["combos"].as_object() {
				for (k, v) in m {
					*combos.entry(k.clone()).or_insert(0) += v.as_u64().unwrap_or(0);
				}
			}
			if let Some(a) = s["samples"].as_array() {
				samples.extend(a.iter().take(2).cloned());
			}
		}
		for (i, v) in r.findings {
			bad.insert(i, v);
		}
	}
	// attribute verdicts to cases
	let mut by_sig: BTreeMap<String, (u64, Verdict, Value)> = BTreeMap::new();
	let mut masked: BTreeMap<String, u64> = BTreeMap::new();
	let mut verdict_counts: BTreeMap<String, u64> = BTreeMap::new();
	if !bad.is_empty() {
		let mut idx = 0u64;
		enumerate(ctx.seed, ctx.tier, &mut |meta, make| {
			let i = idx;
			idx += 1;
			if let Some(v) = bad.get(&i) {
				let sig = verdict_signature(meta.target, meta.fault, v);
				*verdict_counts.entry(sig.clone()).or_insert(0) += 1;
				if *v == Verdict::Watchdog {
					ctx.inconclusive.push(format!("case {i} ({}, {}) made no progress for 60 s", meta.target.name(), meta.fault));
				} else if let Some(id) = open.get(&sig) {
					*masked.entry(id.clone()).or_insert(0) += 1;
				} else if !by_sig.contains_key(&sig) {
					let input = make();
					by_sig.insert(sig, (i, v.clone(), json!({"target": meta.target, "fault": meta.fault, "role": meta.role, "input_hex": hex(&input), "input_len": input.len()})));
				}
			}
			true
		});
		if let Some(v) = bad.get(&u64::MAX) {
			ctx.inconclusive.push(format!("sandbox: {v:?}"));
		}
	}
	ctx.run_enum(sub, |rec| {
		let labels: BTreeMap<String, u64> = combos.iter().map(|(k, v)| (k.clone(), *v)).collect();
		rec.bulk(executed, hashes.iter().copied(), &labels);
		for s in samples.into_iter().take(4) {
			rec.sample(s);
		}
		for (id, n) in &masked {
			rec.masked(id, *n);
		}
		for (sig, (i, v, case)) in by_sig {
			rec.fail(format!("case {i}: {} on {} [{sig}]: {v:?}", case["fault"], case["target"]), case);
			let _ = sig;
		}
	});
	ctx.extra.insert("verdict_signatures".into(), json!(verdict_counts));

	// coverage-guided campaigns (thorough tier): any panic / abort / allocation above 1 GiB inside the targets is a violation
	if ctx.tier == Tier::Thorough {
		let class_seeds: Vec<Vec<u8>> = crate::corpus::load().into_iter().map(|x| x.1).filter(|b| b.len() < 6000).chain(hostile_class_files(false).into_iter().map(|x| x.1).filter(|b| b.len() < 6000)).collect();
		let o = crate::fuzzrun::campaign(ctx, "c16_bytes", 150, &class_seeds, 8192);
		let via_child = |target: Target| {
			move |input: &[u8]| -> (Value, Result<(), String>) {
				let case = json!({"target": target, "fault": "libfuzzer", "role": "", "input_hex": hex(input), "input_len": input.len()});
				let dir = crate::engine::Scratch::new("c16fuzz");
				let p = dir.path.join("case.json");
				let _ = std::fs::write(&p, json!({"sub": "totality", "case": case}).to_string());
				let v = one_in_child(&p);
				(case, if v == Verdict::Fine || v == Verdict::Watchdog { Ok(()) } else { Err(format!("{v:?}")) })
			}
		};
		crate::fuzzrun::report(ctx, sub, "c16_bytes", o, &via_child(Target::DukeTree));
		let mut sm = Sampler::new(ctx.seed ^ 0xF022);
		let cfg = GenCfg { ns_min: 2, ns_max: 2, max_classes: 3, max_fields: 2, max_methods: 2, max_params: 2, p_missing: 20, style: TargetStyle::Extended, enigma_safe: true, injective: true, p_nested: 40, docs: true, ..GenCfg::default() };
		let mut text_seeds: Vec<Vec<u8>> = Vec::new();
		for _ in 0..6 {
			let m2 = sm.draw(&mapset(cfg.clone()));
			text_seeds.push([&[0u8][..], text::tiny(&m2, 0).as_bytes()].concat());
			text_seeds.push([&[2u8][..], text::enigma(&m2).as_bytes()].concat());
			text_seeds.push([&[3u8][..], nests_text(&m2).as_bytes()].concat());
			let b = edit(&m2, 1, &sm.draw(&draws()));
			if let Some(d) = refops::diff(&m2, &b) {
				text_seeds.push([&[7u8][..], text::tinydiff(&d, 0).as_bytes()].concat());
			}
		}
		text_seeds.push(b"\x05(Lx;[[I)V".to_vec());
		let o = crate::fuzzrun::campaign(ctx, "c16_text", 120, &text_seeds, 4096);
		crate::fuzzrun::report(ctx, sub, "c16_text", o, &|input: &[u8]| {
			if input.is_empty() {
				return (json!({}), Ok(()));
			}
			let t = fuzz_text_target(input[0]);
			via_child(t)(&input[1..])
		});
	}
}
