//! C11 — inner-class name extension and contraction are consistent and inverse.

use crate::engine::{Ctx, Obs, PropResult};
use crate::mapmodel::conv::{from_quill, to_quill};
use crate::mapmodel::gen::{mapset, order_seed, GenCfg, TargetStyle};
use crate::mapmodel::refops::{self, Extended};
use crate::mapmodel::{nesting_depth, split_inner, MapSet};
use proptest::prelude::*;
use serde::{Deserialize, Serialize};

struct Ns;

#[derive(Clone, Debug, Serialize, Deserialize)]
pub struct Case {
	pub m: MapSet,
	pub ns: usize,
	pub order: u64,
}

fn strategy(style: TargetStyle, outer_absent: bool) -> impl Strategy<Value = Case> {
	let cfg = GenCfg { ns_min: 2, ns_max: 4, p_missing: 12, style, max_classes: 7, p_nested: 60, outer_absent, weird_dollar: true, max_fields: 1, max_methods: 1, max_params: 1, lone_surrogates: true, ..GenCfg::default() };
	(mapset(cfg), any::<u8>(), order_seed()).prop_map(|(m, ns, order)| {
		let ns = 1 + (ns as usize) % (m.ns.len() - 1);
		Case { m, ns, order }
	})
}

fn check<const N: usize>(case: &Case, obs: &mut Obs) -> PropResult {
	let m = &case.m;
	let ns_name = &m.ns[case.ns];
	let mut q = to_quill::<N, Ns>(m, case.order).map_err(|e| format!("harness: {e:#}"))?;
	// the comment of the set itself must come through both operations untouched (the plain model has no slot for it)
	let set_comment = Some(quill::tree::mappings::JavadocMapping("about this set\nsecond line".to_string()));
	q.javadoc = set_comment.clone();
	let stored_simple = m.classes.iter().all(|(k, c)| split_inner(k).is_none() || c.names[case.ns].as_deref().is_none_or(|n| !n.contains('$') && !n.contains('/')));
	// contraction: only the innermost simple name is kept, everything else untouched
	let mut contracted = q.contract_inner_class_names(ns_name).map_err(|e| format!("contract failed: {e:#}"))?;
	if contracted.javadoc != set_comment {
		return Err(format!("contract_inner_class_names changed the comment of the set to {:?}", contracted.javadoc));
	}
	contracted.javadoc = None;
	let contracted_m = from_quill(&contracted).map_err(|e| format!("contract result inconsistent: {e:#}"))?;
	let exp_c = refops::contract_inner(m, case.ns);
	if contracted_m != exp_c {
		return Err(format!("contract_inner_class_names({ns_name}) wrong\ninput    = {m:?}\nexpected = {exp_c:?}\ngot      = {contracted_m:?}"));
	}
	let expected = refops::extend_inner(m, case.ns);
	let got = q.extend_inner_class_names(ns_name);
	if let Ok(r) = &got {
		if r.javadoc != set_comment {
			return Err(format!("extend_inner_class_names changed the comment of the set to {:?}", r.javadoc));
		}
	}
	let got = got.map(|mut r| {
		r.javadoc = None;
		r
	});
	// a nested class without a name in the namespace has nothing to extend: if its outer class is
	// missing the statement is silent about failing
	let unnamed_orphan = m.classes.iter().any(|(k, c)| c.names[case.ns].is_none() && split_inner(k).is_some_and(|(p, _)| !m.classes.contains_key(p)));
	match (&expected, got) {
		(Extended::Fail(why), Ok(r)) => {
			let r = from_quill(&r).map(|m| format!("{m:?}")).unwrap_or_else(|e| format!("<inconsistent {e:#}>"));
			return Err(format!("extension must fail ({why}) but returned {r}\ninput = {m:?}"));
		}
		(Extended::Fail(_), Err(_)) => obs.label("expected_failure"),
		(Extended::Ok(_), Err(e)) => {
			if unnamed_orphan {
				obs.label("unspecified_unnamed_orphan");
			} else {
				return Err(format!("extension failed although every outer class is present and named: {e:#}\ninput = {m:?}"));
			}
		}
		(Extended::Ok(exp), Ok(r)) => {
			let got = from_quill(&r).map_err(|e| format!("extend result inconsistent: {e:#}"))?;
			if &got != exp {
				return Err(format!("extend_inner_class_names({ns_name}) wrong\ninput    = {m:?}\nexpected = {exp:?}\ngot      = {got:?}"));
			}
			// contract(extend(M)) == M whenever the stored names were simple
			if stored_simple {
				let back = r.contract_inner_class_names(ns_name).map_err(|e| format!("contract failed: {e:#}"))?;
				let back = from_quill(&back).map_err(|e| format!("{e:#}"))?;
				// top-level names keep their packages, nested ones were simple: contraction only cuts at `$`
				if back != refops::contract_inner(m, case.ns) {
					return Err(format!("contract(extend(M)) wrong\nM = {m:?}\nback = {back:?}"));
				}
				let orig_has_dollar_toplevel = m.classes.iter().any(|(k, c)| split_inner(k).is_none() && c.names[case.ns].as_deref().is_some_and(|n| split_inner(n).is_some()));
				if !orig_has_dollar_toplevel && back != *m {
					return Err(format!("contract(extend(M)) != M although the stored names were simple\nM = {m:?}\nback = {back:?}"));
				}
				obs.label("inverse_checked");
			}
			obs.label("extended");
		}
	}
	let depth = m.classes.keys().map(|k| nesting_depth(k)).max().unwrap_or(0);
	obs.label(format!("max_depth={depth}"));
	obs.label(format!("ns={N},target={}", case.ns));
	obs.label_if(m.classes.keys().any(|k| k.contains('/') && split_inner(k).is_some()), "nested_in_package");
	obs.nontrivial_if(depth >= 2 && matches!(expected, Extended::Ok(_)));
	Ok(())
}

fn dispatch(case: &Case, obs: &mut Obs) -> PropResult {
	match case.m.n() {
		2 => check::<2>(case, obs),
		3 => check::<3>(case, obs),
		4 => check::<4>(case, obs),
		n => Err(format!("harness: unsupported namespace count {n}")),
	}
}

pub fn run(ctx: &mut Ctx) {
	ctx.rule = "mapping sets with 2..4 namespaces, nesting depth 0..4, outer classes in packages, names absent in the target namespace, any non-first target namespace; strata: stored target names simple with every outer class present, the same with outer classes missing (failure expected), and arbitrary stored names (consistency with the reference only). Non-trivial = a class nested at depth >=2 is present and extension is defined; distinct by hash of the serialised case".into();
	ctx.assume("a nested class without a name in the target namespace whose outer class is missing: either outcome accepted (nothing to extend; statement silent)");
	ctx.run_sub("simple_complete", ctx.tier.pick(128000, 1000000), || strategy(TargetStyle::Simple, false), dispatch);
	ctx.run_sub("simple_outer_missing", ctx.tier.pick(64000, 600000), || strategy(TargetStyle::Simple, true), dispatch);
	ctx.run_sub("arbitrary_names", ctx.tier.pick(64000, 600000), || strategy(TargetStyle::Arbitrary, true), dispatch);
}
