//! C14 — nesting renames classes identically in jars and in mappings.

use crate::classfile::encode::{encode, Choices};
use crate::classfile::gen::{class_from_stream, class_stream, CLASS_NAMES};
use crate::classfile::model::*;
use crate::classfile::project::project;
use crate::classfile::rename::{Answers, Gaps, Renamer, R};
use crate::engine::{Ctx, Obs, PropResult};
use crate::jar::{build_jar, list_zip, Entry};
use crate::mapmodel::conv::{class_name, from_quill, to_quill};
use crate::mapmodel::refops::map_desc;
use crate::mapmodel::{MClass, MField, MMethod, MapSet, MemberKey};
use crate::props::c01::first_diff;
use crate::props::c07::canon_blank;
use dukebox::storage::{ClassRepr, JarEntryEnum};
use dukenest::nest::{Nest, NestType, Nests};
use proptest::prelude::*;
use serde::{Deserialize, Serialize};
use std::collections::{BTreeMap, BTreeSet};

#[derive(Clone)]
struct Ns;

/// the classes of the jar (index order = allowed nesting order: a class may only be nested into an earlier one)
/// `a/Outer$C_1` is a class of its own whose name is exactly what `a/C_1` becomes when it is nested into `a/Outer` under its
/// derived inner name (legal when that class is listed too and moves elsewhere), and whose own derived inner name holds a `$`.
pub const POOL: &[&str] = &["a/Outer", "a/C_1", "a/C_2", "a/Outer$C_1", "b/C_4", "C_5"];
const MISSING_ENCL: &[&str] = &["a/Missing", "gen/Created"];
const NOT_IN_JAR: &str = "a/NotInJar";

#[derive(Clone, Debug, Serialize, Deserialize)]
pub struct NestPlan {
	/// index into POOL, or POOL.len() = the class that is not in the jar
	pub class: usize,
	/// 0 inner, 1 local, 2 anonymous
	pub kind: u8,
	/// enclosing: index < class into POOL, or POOL.len()+k = MISSING_ENCL[k]
	pub encl: usize,
	/// 0 none, 1 an existing method of the enclosing class, 2 a method the enclosing class does not have
	pub method: u8,
	/// inner name variant: 0 derived from the class name, 1 custom; anonymous: 0 => "1".., 1 => "0", 2 => too large for i32
	pub name_variant: u8,
	pub access: u16,
}

#[derive(Clone, Debug, Serialize, Deserialize)]
pub struct Case {
	pub streams: Vec<Vec<u8>>,
	pub nests: Vec<NestPlan>,
	pub remap: bool,
	/// the table goes through harness-written text and Nests::read
	pub via_text: bool,
	/// target names of the mappings: 0 plain, 1 some already nested with `__`, 2 some nested twice (`A__B__C`) or with `___`
	pub dst_style: u8,
}

fn strategy() -> impl Strategy<Value = Case> {
	let nest = (
		prop_oneof![9 => 0usize..POOL.len(), 1 => Just(POOL.len())],
		0u8..3,
		prop_oneof![5 => 0usize..POOL.len(), 1 => POOL.len()..POOL.len() + MISSING_ENCL.len()],
		0u8..10,
		prop_oneof![6 => Just(0u8), 2 => Just(1u8), 1 => Just(2u8)],
		prop_oneof![Just(0u16), Just(8), Just(0x1009), any::<u16>().prop_map(|x| x & 0x761f)],
	)
		.prop_map(|(class, kind, encl, m, name_variant, access)| {
			// the enclosing method mostly fits the kind (inner: none, local: an existing one), sometimes not
			let method = match kind {
				0 => if m < 7 { 0 } else if m < 9 { 2 } else { 1 },
				1 => if m < 7 { 1 } else if m < 9 { 0 } else { 2 },
				_ => m % 3,
			};
			NestPlan { class, kind, encl, method, name_variant, access }
		});
	(proptest::collection::vec(class_stream(), 3..=POOL.len()), proptest::collection::vec(nest, 1..8), any::<bool>(), any::<bool>(), 0u8..3).prop_map(|(streams, nests, remap, via_text, dst_style)| Case { streams, nests, remap, via_text, dst_style })
}

/// plain class renaming: members keep their names, descriptors follow the classes
pub struct ClassMapAnswers(pub BTreeMap<String, String>);

impl Answers for ClassMapAnswers {
	fn class(&self, name: &str) -> R<String> {
		Ok(self.0.get(name).cloned().unwrap_or_else(|| name.to_string()))
	}
	fn class_any(&self, name: &str) -> R<String> {
		if name.starts_with('[') {
			self.field_desc(name)
		} else {
			self.class(name)
		}
	}
	fn field_desc(&self, d: &str) -> R<String> {
		Ok(map_desc(d, &|c| self.0.get(c).cloned().unwrap_or_else(|| c.to_string())))
	}
	fn method_desc(&self, d: &str) -> R<String> {
		self.field_desc(d)
	}
	fn return_desc(&self, d: &str) -> R<String> {
		self.field_desc(d)
	}
	fn field(&self, _owner: &str, name: &str, desc: &str) -> R<(String, String)> {
		Ok((name.to_string(), self.field_desc(desc)?))
	}
	fn method(&self, _owner: &str, name: &str, desc: &str) -> R<(String, String)> {
		Ok((name.to_string(), self.field_desc(desc)?))
	}
	fn field_ref(&self, owner: &str, name: &str, desc: &str) -> R<(String, String, String)> {
		Ok((self.class(owner)?, name.to_string(), self.field_desc(desc)?))
	}
	fn method_ref(&self, owner: &str, name: &str, desc: &str) -> R<(String, String, String)> {
		if owner.starts_with('[') {
			return Ok((self.class_any(owner)?, name.to_string(), desc.to_string()));
		}
		Ok((self.class(owner)?, name.to_string(), self.field_desc(desc)?))
	}
}

fn strip(attrs: &mut Vec<Attr>) {
	attrs.retain(|a| !matches!(a, Attr::Unknown { .. } | Attr::Record(_) | Attr::Module(_) | Attr::ModulePackages(_) | Attr::ModuleMainClass(_)));
	for a in attrs.iter_mut() {
		if let Attr::Code(c) = a {
			strip(&mut c.attrs);
		}
	}
}

/// the jar's classes: generator output with the generator's class names replaced by POOL names
fn jar_models(streams: &[Vec<u8>]) -> Vec<CClass> {
	let mut map = BTreeMap::new();
	for (i, n) in CLASS_NAMES.iter().enumerate() {
		if *n != "java/lang/Object" && *n != "java/lang/String" {
			map.insert(n.to_string(), POOL[i % POOL.len()].to_string());
		}
	}
	let a = ClassMapAnswers(map);
	let mut out = Vec::new();
	for (k, s) in streams.iter().enumerate().take(POOL.len()) {
		let mut m = class_from_stream(s, 3, 14);
		strip(&mut m.attrs);
		for x in m.fields.iter_mut().chain(m.methods.iter_mut()) {
			strip(&mut x.attrs);
		}
		let mut m = Renamer::new(&a, Gaps::default()).class_model(&m).expect("plain renaming");
		m.name = POOL[k].to_string();
		m.super_class = Some("java/lang/Object".into());
		m.interfaces.clear();
		// distinct method keys so that "the enclosing class has the method" is well defined
		let mut seen = BTreeSet::new();
		m.methods.retain(|x| seen.insert((x.name.clone(), x.desc.clone())));
		if m.methods.is_empty() {
			m.methods.push(CMember { access: 1, name: "host".into(), desc: "()V".into(), attrs: vec![] });
		}
		out.push(m);
	}
	out
}

#[derive(Clone, Debug)]
struct RNest {
	kind: u8,
	class: String,
	encl: String,
	method: Option<(String, String)>,
	inner: String,
	access: u16,
}

fn build_nests(case: &Case, models: &[CClass]) -> Vec<RNest> {
	let mut out: Vec<RNest> = Vec::new();
	let mut anon = 0;
	for p in &case.nests {
		// a listed class that is not in the jar: preferably one the jar's classes refer to (POOL names beyond the
		// jar's classes are referenced from generated code), so that "not present => nothing renamed" is observable
		let class = if p.class < models.len() {
			models[p.class].name.clone()
		} else if p.class == POOL.len() {
			if models.len() < POOL.len() && p.access % 4 != 0 { POOL[models.len()].to_string() } else { NOT_IN_JAR.to_string() }
		} else {
			continue;
		};
		if out.iter().any(|n| n.class == class) {
			continue;
		}
		// enclosing class: an earlier class of the jar, or one that does not exist
		let encl = if p.encl < POOL.len() {
			let limit = if p.class < models.len() { p.class } else { models.len() };
			if limit == 0 {
				MISSING_ENCL[0].to_string()
			} else {
				models[p.encl % limit].name.clone()
			}
		} else {
			MISSING_ENCL[(p.encl - POOL.len()) % MISSING_ENCL.len()].to_string()
		};
		let encl_model = models.iter().find(|m| m.name == encl);
		let method = match p.method {
			0 => None,
			1 => encl_model.and_then(|m| m.methods.first()).map(|m| (m.name.clone(), m.desc.clone())).or(Some(("absent".into(), "()V".into()))),
			_ => Some(("absent".into(), "(I)V".into())),
		};
		let simple = class.rsplit('/').next().unwrap_or(&class).to_string();
		let inner = match p.kind {
			// variant 2: the part behind the last `$` of a class that is already called Encl$Inner
			0 => if p.name_variant == 0 { simple.clone() } else if p.name_variant == 2 && class.contains('$') { class.rsplit('$').next().unwrap_or(&simple).to_string() } else { format!("Custom{}", out.len()) },
			1 => if p.name_variant == 0 { format!("1{simple}") } else { format!("2Custom{}", out.len()) },
			_ => match p.name_variant {
				0 => {
					anon += 1;
					anon.to_string()
				}
				1 => "0".repeat(out.len() + 1),
				_ => format!("9999999999{}", out.len()),
			},
		};
		out.push(RNest { kind: p.kind, class, encl, method, inner, access: p.access });
	}
	out
}

fn to_duke_nests(nests: &[RNest], via_text: bool) -> Result<Nests<Ns>, String> {
	if via_text {
		let mut text = String::new();
		for n in nests {
			let (mn, md) = n.method.clone().unwrap_or_default();
			// the three documented spellings of the access flags
			let access = match n.access % 3 {
				0 => n.access.to_string(),
				1 => format!("0x{:x}", n.access),
				_ => format!("0b{:b}", n.access),
			};
			text.push_str(&format!("{}\t{}\t{}\t{}\t{}\t{}\n", n.class, n.encl, mn, md, n.inner, access));
		}
		return Nests::<Ns>::read(&text.into_bytes()).map_err(|e| format!("Nests::read rejects a harness-written table: {e:#}"));
	}
	let mut t = Nests::<Ns>::default();
	for n in nests {
		let nest = Nest {
			nest_type: match n.kind {
				0 => NestType::Inner,
				1 => NestType::Local,
				_ => NestType::Anonymous,
			},
			class_name: class_name(&n.class).map_err(|e| format!("{e:#}"))?,
			encl_class_name: class_name(&n.encl).map_err(|e| format!("{e:#}"))?,
			encl_method: match &n.method {
				None => None,
				Some((a, b)) => Some(duke::tree::method::MethodNameAndDesc {
					name: duke::tree::method::MethodName::try_from(java_string::JavaString::from(a.as_str())).map_err(|e| format!("{e:#}"))?,
					desc: duke::tree::method::MethodDescriptor::try_from(java_string::JavaString::from(b.as_str())).map_err(|e| format!("{e:#}"))?,
				}),
			},
			inner_name: class_name(&n.inner).map_err(|e| format!("{e:#}"))?,
			inner_access: n.access.into(),
		};
		t.all.insert(nest.class_name.clone(), nest);
	}
	Ok(t)
}

/// the rule of each kind, applied to the jar
fn accepted(n: &RNest, models: &[CClass]) -> bool {
	if !models.iter().any(|m| m.name == n.class) {
		return false;
	}
	let has_method = n.method.as_ref().is_some_and(|(a, b)| models.iter().find(|m| m.name == n.encl).is_some_and(|m| m.methods.iter().any(|x| x.name == *a && x.desc == *b)));
	match n.kind {
		2 => n.inner.parse::<i32>().is_ok_and(|x| x >= 1),
		0 => !has_method,
		_ => has_method,
	}
}

fn transitive(nests: &[&RNest], n: &RNest) -> String {
	let outer = match nests.iter().find(|x| x.class == n.encl) {
		Some(e) => transitive(nests, e),
		None => n.encl.clone(),
	};
	format!("{outer}${}", n.inner)
}

fn strip_digits(s: &str) -> String {
	let t = s.trim_start_matches(|c: char| c.is_ascii_digit());
	if t.is_empty() {
		s.to_string()
	} else {
		t.to_string()
	}
}

fn mappings_for(models: &[CClass], dst_style: u8) -> MapSet {
	let mut set = MapSet { ns: vec!["official".into(), "named".into()], classes: BTreeMap::new() };
	for (k, m) in models.iter().enumerate() {
		// style 2: target names that are nested more than once (`A__B__C`: only the last `__` separates the inner name) and a triple underscore
		let dst = match (dst_style, k % 3) {
			(1, 2) => format!("n/Named{}__In{k}", k - 1),
			(2, 2) => format!("n/Named{}__Mid{}__In{k}", k - 2, k - 1),
			(2, 1) => format!("n/Named{}___In{k}", k - 1),
			_ => format!("n/Named{k}"),
		};
		let mut c = MClass { names: vec![Some(m.name.clone()), Some(dst)], ..MClass::default() };
		for f in &m.fields {
			c.fields.insert(MemberKey::new(&f.name, &f.desc), MField { names: vec![Some(f.name.clone()), Some(format!("f_{}", f.name))], ..MField::default() });
		}
		for me in &m.methods {
			if !me.name.starts_with('<') {
				c.methods.insert(MemberKey::new(&me.name, &me.desc), MMethod { names: vec![Some(me.name.clone()), Some(format!("m_{}", me.name))], ..MMethod::default() });
			}
		}
		set.classes.insert(m.name.clone(), c);
	}
	set
}

fn check(case: &Case, obs: &mut Obs) -> PropResult {
	let models = jar_models(&case.streams);
	let ch = Choices::default();
	let mut entries: Vec<(String, Entry)> = vec![("META-INF/MANIFEST.MF".into(), Entry::Other(b"Manifest-Version: 1.0\n".to_vec()))];
	let mut present: Vec<CClass> = Vec::new();
	for m in &models {
		if let Ok(e) = encode(m, &ch) {
			entries.push((format!("{}.class", m.name), Entry::Class(e.bytes)));
			present.push(m.clone());
		}
	}
	if present.is_empty() {
		return Ok(());
	}
	// the inputs as duke reads them
	let mut inputs: BTreeMap<String, CClass> = BTreeMap::new();
	let mut min_version = (u16::MAX, u16::MAX);
	for (n, e) in &entries {
		if let Entry::Class(b) = e {
			let t = duke::read_class(&mut std::io::Cursor::new(b)).map_err(|e| format!("duke::read_class rejected a well-formed class file: {e:#}"))?;
			let m = project(&t).map_err(|e| format!("harness: {e}"))?;
			min_version = min_version.min((m.major, m.minor));
			inputs.insert(n.trim_end_matches(".class").to_string(), m);
		}
	}
	let rnests = build_nests(case, &present);
	let table = to_duke_nests(&rnests, case.via_text)?;
	if table.all.len() != rnests.len() {
		return Err(format!("the table has {} nests, {} were given", table.all.len(), rnests.len()));
	}

	// ---- (1) the jar
	let acc: Vec<&RNest> = rnests.iter().filter(|n| accepted(n, &present)).collect();
	let rejected = rnests.len() - acc.len();
	let mut name_map: BTreeMap<String, String> = BTreeMap::new();
	for n in &acc {
		name_map.insert(n.class.clone(), transitive(&acc, n));
	}
	// two classes that would end up under one name: the statement does not say what then happens
	{
		let mut finals: BTreeSet<String> = BTreeSet::new();
		let listed_everywhere: Vec<String> = rnests.iter().map(|n| transitive(&rnests.iter().collect::<Vec<_>>(), n)).collect();
		let clash_all = {
			let mut f: BTreeSet<String> = BTreeSet::new();
			let mut clash = false;
			for c in POOL.iter().map(|s| s.to_string()).chain(rnests.iter().map(|n| n.class.clone())).collect::<BTreeSet<_>>() {
				let name = rnests.iter().position(|n| n.class == c).map(|i| listed_everywhere[i].clone()).unwrap_or(c);
				clash |= !f.insert(name);
			}
			clash
		};
		let clash_jar = present.iter().any(|m| !finals.insert(name_map.get(&m.name).cloned().unwrap_or_else(|| m.name.clone())));
		if clash_jar || clash_all {
			obs.label("two_classes_under_one_name:unspecified");
			return Ok(());
		}
		obs.label_if(rnests.iter().any(|n| present.iter().any(|m| m.name != n.class && name_map.get(&n.class) == Some(&m.name))), "nested_under_the_name_another_listed_class_gives_up");
		obs.label_if(acc.iter().any(|n| n.inner.contains('$')), "inner_name_with_dollar");
	}
	let jar = build_jar(&entries, false)?;
	let out = dukenest::nest_jar(case.remap, &jar, table.clone()).map_err(|e| format!("nest_jar failed: {e:#}"))?;
	// second use of the same jar and an equal table: the same entries in the same order
	if case.nests.len() % 3 == 0 {
		let again = dukenest::nest_jar(case.remap, &jar, table.clone()).map_err(|e| format!("the second nest_jar on the same jar failed: {e:#}"))?;
		if again.entries.keys().collect::<Vec<_>>() != out.entries.keys().collect::<Vec<_>>() {
			return Err(format!("nesting the same jar with the same table twice gives other entries: {:?} vs {:?}", out.entries.keys().collect::<Vec<_>>(), again.entries.keys().collect::<Vec<_>>()));
		}
		obs.label("nested_twice");
	}
	let answers = ClassMapAnswers(if case.remap { name_map.clone() } else { BTreeMap::new() });
	let mut expected: BTreeMap<String, CClass> = BTreeMap::new();
	for (old, input) in &inputs {
		let mut m = input.clone();
		if let Some(n) = acc.iter().find(|n| n.class == *old) {
			if n.kind != 0 {
				m.attrs.retain(|a| !matches!(a, Attr::EnclosingMethod { .. }));
				m.attrs.push(Attr::EnclosingMethod { class: n.encl.clone(), method: n.method.clone() });
			}
			let ic = InnerClass { inner: n.class.clone(), outer: if n.kind == 0 { Some(n.encl.clone()) } else { None }, name: if n.kind != 2 { Some(strip_digits(&n.inner)) } else { None }, flags: n.access & 0x761f };
			let mut found = false;
			for a in m.attrs.iter_mut() {
				if let Attr::InnerClasses(l) = a {
					l.push(ic.clone());
					found = true;
				}
			}
			if !found {
				m.attrs.push(Attr::InnerClasses(vec![ic]));
			}
		}
		let renamed = Renamer::new(&answers, Gaps::default()).class_model(&m).map_err(|e| format!("harness: {e}"))?;
		expected.insert(format!("{}.class", renamed.name), renamed);
	}
	// enclosing classes that are missing are created (tolerated also for nests that end up rejected)
	let must_create: BTreeSet<String> = acc.iter().filter(|n| !inputs.contains_key(&n.encl)).map(|n| n.encl.clone()).collect();
	let may_create: BTreeSet<String> = rnests.iter().filter(|n| inputs.contains_key(&n.class) && !inputs.contains_key(&n.encl)).map(|n| n.encl.clone()).collect();
	let mut got_classes: BTreeMap<String, CClass> = BTreeMap::new();
	for (name, e) in &out.entries {
		match &e.content {
			JarEntryEnum::Class(ClassRepr::Parsed { class }) => {
				got_classes.insert(name.clone(), project(class).map_err(|e| format!("harness: {e}"))?);
			}
			JarEntryEnum::Class(ClassRepr::Vec { data }) => {
				let t = duke::read_class(&mut std::io::Cursor::new(data)).map_err(|e| format!("{e:#}"))?;
				got_classes.insert(name.clone(), project(&t).map_err(|e| format!("harness: {e}"))?);
			}
			JarEntryEnum::Other(d) => {
				if name != "META-INF/MANIFEST.MF" || d.as_slice() != b"Manifest-Version: 1.0\n" {
					return Err(format!("non-class entry {name} changed"));
				}
			}
			JarEntryEnum::Dir => {}
		}
	}
	for (name, exp) in &expected {
		let got = got_classes.get(name).ok_or_else(|| format!("class entry {name} is missing from the nested jar (entries: {:?}; accepted nests give {name_map:?})", got_classes.keys().collect::<Vec<_>>()))?;
		let (e, g) = (canon_blank(exp), canon_blank(got));
		if e != g {
			return Err(format!("class {name} of the nested jar: (expected vs result) {}", first_diff(&e, &g)));
		}
		// the InnerClasses entry recorded for a nest carries the nest's inner name (the comparison above leaves simple names
		// out, as C07 does for names nobody records): exactly as listed - without the leading digits of a local class -, or
		// nothing for an anonymous class
		let me = name.trim_end_matches(".class");
		if let Some(n) = acc.iter().find(|n| name_map.get(&n.class).map(|x| x.as_str()).filter(|_| case.remap).unwrap_or(n.class.as_str()) == me) {
			let want = if n.kind != 2 { Some(strip_digits(&n.inner)) } else { None };
			let recorded: Vec<&InnerClass> = got.attrs.iter().filter_map(|a| if let Attr::InnerClasses(l) = a { Some(l) } else { None }).flatten().filter(|ic| ic.inner == me).collect();
			if !recorded.iter().any(|ic| ic.name == want) {
				return Err(format!("class {name}: the InnerClasses entry recorded for the nest of {} has the inner name {:?}, the table says {:?}", n.class, recorded.iter().map(|ic| ic.name.clone()).collect::<Vec<_>>(), want));
			}
		}
	}
	for (name, got) in &got_classes {
		if expected.contains_key(name) {
			continue;
		}
		let cn = name.trim_end_matches(".class");
		if !may_create.contains(cn) {
			return Err(format!("unexpected class entry {name} in the nested jar"));
		}
		if got.access != 1 || got.super_class.as_deref() != Some("java/lang/Object") || !got.fields.is_empty() || !got.methods.is_empty() || (got.major, got.minor) != min_version {
			return Err(format!("created enclosing class {name} is not an empty public class of the jar's lowest version: {got:?}"));
		}
	}
	for c in &must_create {
		if !got_classes.contains_key(&format!("{c}.class")) {
			return Err(format!("enclosing class {c} is missing from the jar and was not created"));
		}
	}
	// the written jar opens and its classes are well-formed
	let mem = out.to_mem().map_err(|e| format!("writing the nested jar failed: {e:#}"))?;
	for (n, e) in list_zip(&mem.data)? {
		if let Entry::Class(b) = e {
			crate::classfile::decode::decode(&b).map_err(|e| format!("class {n} of the written nested jar is not structurally valid: {e}"))?;
		}
	}

	// ---- (2) the mappings
	let set = mappings_for(&present, case.dst_style);
	let q = to_quill::<2, (Ns, Ns)>(&set, 0).map_err(|e| format!("harness: {e:#}"))?;
	let all: Vec<&RNest> = rnests.iter().collect();
	let mut full_map: BTreeMap<String, String> = BTreeMap::new();
	for n in &all {
		full_map.insert(n.class.clone(), transitive(&all, n));
	}
	let table2: Nests<Ns> = to_duke_nests(&rnests, case.via_text)?;
	let applied = match dukenest::apply_nests_to_mappings(q.clone(), &table2) {
		Ok(a) => Some(a),
		Err(e) => {
			// a `__` target name that cannot be split, or an anonymous class mapped to C_<not a number>: stated preconditions of the translation
			obs.label(format!("apply_refused:{}", format!("{e:#}").chars().take(40).collect::<String>()));
			None
		}
	};
	if let Some(applied) = applied {
		let am = from_quill(&applied).map_err(|e| format!("harness: applied mappings not readable: {e:#}"))?;
		let f = |c: &str| full_map.get(c).cloned().unwrap_or_else(|| c.to_string());
		let want_keys: BTreeSet<String> = set.classes.keys().map(|k| f(k)).collect();
		let got_keys: BTreeSet<String> = am.classes.keys().cloned().collect();
		if want_keys != got_keys {
			return Err(format!("apply_nests_to_mappings: source class names are {got_keys:?}, the table gives {want_keys:?}"));
		}
		for (k, c) in &set.classes {
			let nc = &am.classes[&f(k)];
			let want_f: BTreeSet<(String, String)> = c.fields.keys().map(|m| (m.name.clone(), map_desc(&m.desc, &f))).collect();
			let got_f: BTreeSet<(String, String)> = nc.fields.keys().map(|m| (m.name.clone(), m.desc.clone())).collect();
			let want_m: BTreeSet<(String, String)> = c.methods.keys().map(|m| (m.name.clone(), map_desc(&m.desc, &f))).collect();
			let got_m: BTreeSet<(String, String)> = nc.methods.keys().map(|m| (m.name.clone(), m.desc.clone())).collect();
			if want_f != got_f || want_m != got_m {
				return Err(format!("apply_nests_to_mappings: members of {k}: descriptors are not rewritten with the nested names: expected {want_f:?} {want_m:?}, got {got_f:?} {got_m:?}"));
			}
		}
		// undo restores source names and descriptors
		let undone = dukenest::undo_nests_to_mappings(applied, &table2).map_err(|e| format!("undo_nests_to_mappings failed: {e:#}"))?;
		let um = from_quill(&undone).map_err(|e| format!("harness: {e:#}"))?;
		// only meaningful when the nested names do not collide with other classes
		let values: BTreeSet<&String> = full_map.values().collect();
		// ... i.e. when renaming is one-to-one on every class the set speaks about (keys and descriptors): a nested name may be
		// the old name of another listed class that itself moves away
		let mut universe: BTreeSet<String> = set.classes.keys().cloned().collect();
		universe.extend(full_map.keys().cloned());
		for c in set.classes.values() {
			for k in c.fields.keys().chain(c.methods.keys()) {
				universe.extend(crate::mapmodel::refops::class_segments(&k.desc));
			}
		}
		let finals: BTreeSet<String> = universe.iter().map(|c| full_map.get(c).cloned().unwrap_or_else(|| c.clone())).collect();
		let injective = want_keys.len() == set.classes.len() && values.len() == full_map.len() && finals.len() == universe.len();
		obs.label_if(injective && full_map.values().any(|v| full_map.contains_key(v) || set.classes.contains_key(v)), "undo:nested_name_is_the_old_name_of_a_class_that_moves_away");
		if injective {
			let src = |m: &MapSet| -> BTreeMap<String, (BTreeSet<MemberKey>, BTreeSet<MemberKey>)> { m.classes.iter().map(|(k, c)| (k.clone(), (c.fields.keys().cloned().collect(), c.methods.keys().cloned().collect()))).collect() };
			if src(&um) != src(&set) {
				return Err(format!("undo(apply(M)) does not restore source names and descriptors: {:?} vs {:?}", src(&um).keys().collect::<Vec<_>>(), src(&set).keys().collect::<Vec<_>>()));
			}
		}
		// ---- (3) agreement for tables whose entries all apply to the jar
		if case.remap && rejected == 0 && rnests.iter().all(|n| inputs.contains_key(&n.class)) {
			obs.label("agreement_checked");
			for old in inputs.keys() {
				let jar_name = name_map.get(old).cloned().unwrap_or_else(|| old.clone());
				if !got_classes.contains_key(&format!("{jar_name}.class")) || !got_keys.contains(&jar_name) {
					return Err(format!("jar and mappings disagree on the nested name of {old}: jar has {:?}, mappings have {got_keys:?}", got_classes.keys().collect::<Vec<_>>()));
				}
			}
		}
	}

	// ---- (4) translating the table
	match dukenest::remap_nests(&table2, &q) {
		Ok(mapped) => {
			if mapped.all.len() != rnests.len() {
				let dst_names: BTreeSet<String> = rnests.iter().map(|n| set.classes.get(&n.class).and_then(|c| c.names[1].clone()).unwrap_or_else(|| n.class.clone())).collect();
				if dst_names.len() == rnests.len() {
					return Err(format!("remap_nests: {} nests in, {} out", rnests.len(), mapped.all.len()));
				}
			}
			let dst = |c: &str| set.classes.get(c).and_then(|x| x.names[1].clone()).unwrap_or_else(|| c.to_string());
			for n in &rnests {
				let mapped_name = dst(&n.class);
				let got = mapped.all.get(&class_name(&mapped_name).map_err(|e| format!("{e:#}"))?).ok_or_else(|| format!("remap_nests: no nest for {mapped_name} (from {})", n.class))?;
				let (want_encl, want_inner) = match mapped_name.rsplit_once("__") {
					Some((e, i)) => (e.to_string(), i.to_string()),
					None => {
						let simple_mapped = mapped_name.rsplit('/').next().unwrap_or(&mapped_name).to_string();
						let digits: String = n.inner.chars().take_while(|c| c.is_ascii_digit()).collect();
						let rest = &n.inner[digits.len()..];
						let inner = if rest.is_empty() {
							// anonymous
							match simple_mapped.strip_prefix("C_") {
								Some(num) => num.to_string(),
								None => n.inner.clone(),
							}
						} else if digits.is_empty() {
							if n.class.ends_with(&n.inner) { simple_mapped.clone() } else { n.inner.clone() }
						} else if n.class.ends_with(rest) {
							format!("{digits}{simple_mapped}")
						} else {
							n.inner.clone()
						};
						(dst(&n.encl), inner)
					}
				};
				let g_encl = got.encl_class_name.as_inner().to_string();
				let g_inner = got.inner_name.as_inner().to_string();
				if g_encl != want_encl || g_inner != want_inner {
					return Err(format!("remap_nests: nest of {} -> {mapped_name}: enclosing class / inner name are ({g_encl}, {g_inner}), expected ({want_encl}, {want_inner}) in the target namespace", n.class));
				}
				let want_method = n.method.as_ref().map(|(a, b)| {
					let renamed = set.classes.get(&n.encl).and_then(|c| c.methods.get(&MemberKey::new(a, b))).and_then(|m| m.names[1].clone()).unwrap_or_else(|| a.clone());
					(renamed, map_desc(b, &dst))
				});
				let got_method = got.encl_method.as_ref().map(|m| (m.name.as_inner().to_string(), m.desc.as_inner().to_string()));
				if want_method != got_method {
					return Err(format!("remap_nests: enclosing method of {mapped_name} is {got_method:?}, expected {want_method:?}"));
				}
			}
		}
		Err(e) => obs.label(format!("remap_nests_refused:{}", format!("{e:#}").chars().take(40).collect::<String>())),
	}

	let depth = |n: &RNest| {
		let mut d = 1;
		let mut cur = n.encl.clone();
		while let Some(e) = acc.iter().find(|x| x.class == cur) {
			d += 1;
			cur = e.encl.clone();
		}
		d
	};
	let max_depth = acc.iter().map(|n| depth(n)).max().unwrap_or(0);
	obs.label(format!("accepted_chain_depth={max_depth}"));
	obs.label_if(rejected > 0, "rejected_nest");
	obs.label_if(!must_create.is_empty(), "enclosing_class_created");
	obs.label_if(rnests.iter().any(|n| !models.iter().any(|m| m.name == n.class)), "nest_for_class_not_in_jar");
	obs.label_if(rnests.iter().any(|n| n.class != NOT_IN_JAR && !models.iter().any(|m| m.name == n.class)), "nest_for_referenced_class_not_in_jar");
	for n in &rnests {
		obs.label(format!("kind{}:{}", n.kind, if accepted(n, &present) { "accepted" } else { "rejected" }));
	}
	obs.label(format!("remap={}", case.remap));
	obs.nontrivial_if(max_depth >= 2 && rejected >= 1);
	Ok(())
}

pub fn run(ctx: &mut Ctx) {
	crate::engine::silence_stderr();
	ctx.rule = "jars of 2-6 generated classes that reference each other + nests tables (inner / local / anonymous; enclosing class = an earlier class of the jar so that chains up to depth 5 form, or a class missing from the jar; enclosing method absent / existing / not existing; derived and custom inner names; anonymous names 1.., 0 and out of the i32 range; a nest for a class that is not in the jar), built directly or through harness-written text and Nests::read; two-namespace mappings over the same classes (plain and already nested `__` target names). Oracle: reference acceptance rule and transitive naming -> expected class names; every class == reference renaming (class-only) of the input plus the synthesized InnerClasses / EnclosingMethod entries; missing enclosing classes created; apply_nests_to_mappings source keys and descriptors == reference naming over the table; undo(apply(M)) restores source names and descriptors; jar and mappings agree when every nest applies; remap_nests keeps every nest with enclosing class, method and inner name in the target namespace. Non-trivial = an accepted chain of depth >= 2 and a rejected nest; distinct by case hash".into();
	ctx.assume("every class of the mappings has a target name (apply_nests_to_mappings requires it)");
	ctx.assume("nests are acyclic; no nest names a class that only exists as a created enclosing class");
	ctx.assume("an enclosing class created for a nest that is then rejected is tolerated (the statement is silent)");
	ctx.run_sub("nesting", ctx.tier.pick(32000, 1600000), strategy, check);
}
