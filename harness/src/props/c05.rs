//! C05 — the version graph resolves each version to root plus the diffs on its path.
//!
//! `/repo/src/version_graph.rs` is compiled into the harness via `#[path]` (see lib.rs).

use crate::engine::{idx, Ctx, Obs, PropResult, Scratch};
use crate::mapmodel::conv::from_quill;
use crate::mapmodel::gen::{draws, edit_keeping, mapset, GenCfg, TargetStyle};
use crate::mapmodel::refops::{self, contract_inner, extend_inner, Extended};
use crate::mapmodel::{text, MapSet};
use crate::version_graph::{Split, VersionGraph};
use proptest::prelude::*;
use serde::{Deserialize, Serialize};
use std::collections::BTreeMap;

#[derive(Clone, Debug, Serialize, Deserialize)]
pub struct Node {
	/// parents: indices of earlier nodes (1 or 2; ignored for node 0)
	pub parents: Vec<u16>,
	pub split_name: bool,
	pub edits: Vec<u8>,
	/// spelling of the version name (0 = the plain `v<k>` / `c<k>~s<k>` of the saved cases); see `node_name`
	#[serde(default)]
	pub style: u8,
}

#[derive(Clone, Debug, Serialize, Deserialize)]
pub struct Case {
	/// contracted form of the root mappings (nested classes store simple target names)
	pub root: MapSet,
	pub nodes: Vec<Node>,
	/// file creation orders (two runs); tmpfs lists a directory in reverse creation order
	pub order1: Vec<u16>,
	pub order2: Vec<u16>,
	/// 0 well-formed, 1 no root, 2 two roots, 3 cycle through the root, 4 cycle below the root, 5 version only reachable from an undeclared parent, 6 unknown version queried
	pub malformed: u8,
	/// malformed == 4: further edges between arbitrary non-root versions (each with the true diff between the two versions);
	/// they may close cycles of any length with any number of entry points, or leave the graph acyclic
	#[serde(default)]
	pub extra: Vec<(u16, u16)>,
	/// malformed == 2: how the second root file is named (0 = an unrelated name; otherwise a name sharing a half with the root's)
	#[serde(default)]
	pub variant: u8,
}

fn strategy() -> impl Strategy<Value = Case> {
	let cfg = GenCfg { ns_min: 2, ns_max: 2, p_missing: 10, style: TargetStyle::Simple, param_src_names: false, max_classes: 5, p_nested: 45, backslash_docs: true, ..GenCfg::default() };
	let node = (proptest::collection::vec(any::<u16>(), 1..3), prop_oneof![2 => Just(false), 1 => Just(true)], draws(), prop_oneof![1 => Just(0u8), 3 => 1u8..=10]).prop_map(|(parents, split_name, edits, style)| Node { parents, split_name, edits, style });
	let roots = prop_oneof![3 => mapset(GenCfg { p_missing: 0, ..cfg.clone() }), 2 => mapset(cfg)];
	(roots, proptest::collection::vec(node, 1..8), proptest::collection::vec(any::<u16>(), 24), proptest::collection::vec(any::<u16>(), 24), prop_oneof![5 => Just(0u8), 1 => 1u8..7, 1 => Just(4u8)], proptest::collection::vec(any::<(u16, u16)>(), 0..4), any::<u8>()).prop_map(|(mut root, nodes, order1, order2, malformed, extra, variant)| {
		root.ns = vec!["calamus".into(), "named".into()];
		Case { root, nodes, order1, order2, malformed, extra, variant }
	})
}

fn fix_docs(m: &mut MapSet) {
	m.for_each_doc_mut(|d| {
		if d.as_deref() == Some("") {
			*d = Some("-".into());
		}
	});
}

/// Version names as the Feather repository spells them: dots, dashes, names that are prefixes of each other, names
/// containing the text of the two file extensions. Distinct for distinct k within one style *and* across styles
/// (every name carries k in a position no other style uses).
fn plain_name(k: usize, style: u8, side: &str) -> String {
	match style {
		0 => format!("{side}{k}"),
		1 => format!("1.{k}{}", if side == "s" { "-server" } else if side == "c" { "-client" } else { "" }),
		2 => format!("1.{k}.{}", if side == "s" { 2 } else { 5 }),
		3 => format!("b1.{k}-pre1-2011090{}1459", if side == "s" { 9 } else { 8 }),
		4 => format!("1{k}w14{}", if side == "s" { "b" } else { "a" }),
		5 => format!("1.RV-Pre{k}{side}"),
		6 => format!("{k}.tiny.x{side}"),
		7 => format!("{k}.tinydiffs{side}"),
		8 => format!("1.{k}.tiny{side}.0"),
		// the long side of an entry of the command line's shortcut table (`1.0` stands for `1.0.0` there - but only there)
		10 => format!("{}{}", SHORTCUTS[k % SHORTCUTS.len()].1, if side == "s" { "-s" } else { "" }),
		_ => format!("a{k}.{side}_0.1.tinydif"),
	}
}

/// a few entries of `VERSION_SHORTCUTS` in /repo/src/version_graph.rs: (what may be typed on the command line, the version it stands for)
const SHORTCUTS: &[(&str, &str)] = &[("1.0", "1.0.0"), ("1.4", "1.4-pre"), ("b1.1", "b1.1-1245"), ("12w05a", "12w05a-1442"), ("15w14a", "af-2015"), ("1.7", "1.7-pre"), ("1.3", "1.3-pre-07261249"), ("b1.4", "b1.4-1507"), ("1.RV-Pre1", "af-2016")];

fn node_name(k: usize, n: &Node) -> String {
	if n.split_name {
		format!("{}~{}", plain_name(k, n.style, "c"), plain_name(k, n.style, "s"))
	} else {
		plain_name(k, n.style, "v")
	}
}

struct Built {
	names: Vec<String>,
	/// contracted mappings per node (None = not derivable, e.g. a diamond whose second parent cannot reach the same child)
	contracted: Vec<MapSet>,
	/// (parent, child)
	edges: Vec<(usize, usize)>,
	files: Vec<(String, String)>,
}

fn build(case: &Case) -> Result<Built, String> {
	let mut root = case.root.clone();
	fix_docs(&mut root);
	let mut names = vec![node_name(0, &case.nodes[0])];
	let mut contracted = vec![root];
	let mut edges = Vec::new();
	for (k, n) in case.nodes.iter().enumerate().skip(1) {
		let mut ps: Vec<usize> = n.parents.iter().map(|p| idx(*p, k)).collect();
		ps.sort();
		ps.dedup();
		// the child is derived from its first parent; every parent edge is the diff parent -> child
		let mut m = edit_keeping(&contracted[ps[0]], 1, &n.edits, true);
		fix_docs(&mut m);
		names.push(node_name(k, n));
		contracted.push(m);
		for p in ps {
			edges.push((p, k));
		}
	}
	let mut files = Vec::new();
	let root_ext = match extend_inner(&contracted[0], 1) {
		Extended::Ok(m) => m,
		Extended::Fail(e) => return Err(e),
	};
	files.push((format!("{}.tiny", names[0]), text::tiny(&root_ext, 0)));
	for (p, c) in &edges {
		let d = refops::diff_partial(&contracted[*p], &contracted[*c]).ok_or_else(|| "diff not expressible".to_string())?;
		files.push((format!("{}#{}.tinydiff", names[*p], names[*c]), text::tinydiff(&d, 0)));
	}
	Ok(Built { names, contracted, edges, files })
}

fn write_dir(files: &[(String, String)], order: &[u16], tag: &str) -> Result<Scratch, String> {
	let dir = Scratch::new(tag);
	let mut left: Vec<&(String, String)> = files.iter().collect();
	let mut k = 0;
	while !left.is_empty() {
		let i = idx(order.get(k).copied().unwrap_or(0), left.len());
		let (name, content) = left.remove(i);
		std::fs::write(dir.path.join(name), content).map_err(|e| format!("harness: cannot write {name}: {e}"))?;
		k += 1;
	}
	Ok(dir)
}

fn query(g: &VersionGraph, name: &str) -> Result<(Split, String, MapSet), String> {
	let (split, v) = g.get(name).map_err(|e| format!("get({name:?}): {e:#}"))?;
	let full = v.as_str().to_string();
	let m = g.apply_diffs(v).map_err(|e| format!("apply_diffs({name:?}): {e:#}"))?;
	let ms = from_quill(&m).map_err(|e| format!("harness: result not readable: {e:#}"))?;
	Ok((split, full, ms))
}

/// The other entry points that report versions and mapping data of a resolved directory (`main.rs` resolves its command
/// line through `get_all`, `insert_mappings.rs` walks the graph through `is_root_then_get_mappings` and `get_diff`):
/// several names at once answer like each name alone, the root — and only the root — reports the root mappings, and the
/// diff reported for two versions is the content of exactly the edge file between them (none where there is no edge).
fn graph_queries(g: &VersionGraph, built: &Built, obs: &mut Obs) -> PropResult {
	let n = built.names.len();
	let mut keys: Vec<(String, usize)> = Vec::new();
	for (k, full) in built.names.iter().enumerate() {
		match full.split_once('~') {
			Some((a, b)) => {
				keys.push((a.to_string(), k));
				keys.push((b.to_string(), k));
			}
			None => keys.push((full.clone(), k)),
		}
	}
	match g.get_all(keys.iter().map(|(name, _)| name.as_str())) {
		Ok(all) => {
			if all.len() != keys.len() {
				return Err(format!("get_all of {} names answers {} versions", keys.len(), all.len()));
			}
			for ((name, k), (split, v)) in keys.iter().zip(&all) {
				let (want_split, want_v) = g.get(name).map_err(|e| format!("get({name:?}): {e:#}"))?;
				if *split != want_split || v.as_str() != want_v.as_str() || v.as_str() != built.names[*k] {
					return Err(format!("get_all answers ({split:?}, {:?}) for {name:?}, get alone answers ({want_split:?}, {:?}); the version is {:?}", v.as_str(), want_v.as_str(), built.names[*k]));
				}
			}
		}
		Err(e) => return Err(format!("get_all of the names of a well-formed directory failed: {e:#}")),
	}
	for pos in [0, keys.len() / 2, keys.len()] {
		let mut names: Vec<&str> = keys.iter().map(|(name, _)| name.as_str()).collect();
		names.insert(pos, "no-such-version");
		if g.get_all(names.iter()).is_ok() {
			return Err(format!("get_all resolved a list whose entry {pos} names no version"));
		}
	}
	let entry = |k: usize| g.get(&keys.iter().find(|(_, kk)| *kk == k).unwrap().0).map(|(_, v)| v).map_err(|e| format!("get: {e:#}"));
	for k in 0..n {
		let v = entry(k)?;
		match (k == 0, g.is_root_then_get_mappings(v)) {
			(true, Some(m)) => {
				let got = from_quill(m).map_err(|e| format!("harness: root mappings not readable: {e:#}"))?;
				let mut want = built.contracted[0].clone();
				want.ns = got.ns.clone();
				let want_ext = match extend_inner(&want, 1) {
					Extended::Ok(x) => x,
					Extended::Fail(_) => want.clone(),
				};
				if got != want && got != want_ext {
					return Err(format!("is_root_then_get_mappings(root) does not report the root file's mappings (neither with simple nor with extended inner names): got classes {:?}, root file has {:?}", got.classes.keys().collect::<Vec<_>>(), want.classes.keys().collect::<Vec<_>>()));
				}
			}
			(true, None) => return Err("is_root_then_get_mappings(root) reports nothing".into()),
			(false, Some(_)) => return Err(format!("is_root_then_get_mappings reports root mappings for the non-root version {:?}", built.names[k])),
			(false, None) => {}
		}
	}
	let mut edge_diffs = 0;
	for a in 0..n {
		for b in 0..n {
			let (va, vb) = (entry(a)?, entry(b)?);
			let is_edge = built.edges.contains(&(a, b));
			match g.get_diff(va, vb) {
				Ok(Some(d)) if is_edge => {
					let got = crate::mapmodel::conv::diff_from_quill(&d).map_err(|e| format!("harness: diff not readable: {e:#}"))?.normalised();
					let want = refops::diff_partial(&built.contracted[a], &built.contracted[b]).ok_or("harness: diff not expressible")?.normalised();
					if got != want {
						return Err(format!("get_diff({:?}, {:?}) is not the content of the edge file between the two versions", built.names[a], built.names[b]));
					}
					edge_diffs += 1;
				}
				Ok(None) if !is_edge => {}
				Ok(Some(_)) => return Err(format!("get_diff({:?}, {:?}) reports a diff although the directory has no such edge", built.names[a], built.names[b])),
				Ok(None) => return Err(format!("get_diff({:?}, {:?}) reports nothing for an existing edge", built.names[a], built.names[b])),
				Err(e) => return Err(format!("get_diff({:?}, {:?}) of a well-formed directory: {e:#}", built.names[a], built.names[b])),
			}
		}
	}
	obs.label_if(edge_diffs >= 2, "graph_queries:edge_diffs>=2");
	Ok(())
}

fn check(case: &Case, obs: &mut Obs) -> PropResult {
	if case.nodes.is_empty() {
		return Ok(());
	}
	let built = match build(case) {
		Ok(b) => b,
		Err(_) => {
			obs.label("root_not_extensible_or_diff_not_expressible");
			return Ok(());
		}
	};
	let n = built.names.len();
	let mut files = built.files.clone();
	let mut broken: Vec<usize> = Vec::new(); // nodes whose queries must fail (if resolve succeeds)
	let mut must_fail_resolve = false;
	match case.malformed {
		1 => {
			files.remove(0);
			must_fail_resolve = true;
		}
		2 => {
			// a second .tiny file: under an unrelated name, or under a name that shares one half with the root's
			let root = &built.names[0];
			let (h1, h2) = root.split_once('~').unwrap_or((root.as_str(), root.as_str()));
			let second = match case.variant % 6 {
				0 => "second-root".to_string(),
				1 => format!("{h1}~second-root"),
				2 => format!("second-root~{h2}"),
				3 if root.contains('~') => h1.to_string(),
				4 if root.contains('~') => h2.to_string(),
				3 | 4 => format!("{root}~{root}x"),
				_ => format!("{h2}~{h1}x"),
			};
			obs.label(format!("second_root:{}", ["unrelated", "shares_first_half", "shares_second_half", "is_first_half", "is_second_half", "halves_swapped"][(case.variant % 6) as usize]));
			files.push((format!("{second}.tiny"), built.files[0].1.clone()));
			must_fail_resolve = true;
		}
		3 if n >= 2 => {
			let (_, c) = built.edges[built.edges.len() - 1];
			files.push((format!("{}#{}.tinydiff", built.names[c], built.names[0]), "tiny\t2\t0\n".into()));
			must_fail_resolve = true;
		}
		4 if n >= 3 => {
			// an edge from a node back to one of its ancestors (not the root)
			let (p, c) = built.edges[built.edges.len() - 1];
			if p != 0 && case.extra.is_empty() {
				files.push((format!("{}#{}.tinydiff", built.names[c], built.names[p]), "tiny\t2\t0\n".into()));
				must_fail_resolve = true;
			}
			// general form: extra edges with true diffs; the oracle is an independent topological sort
			let mut edges = built.edges.clone();
			for (x, y) in &case.extra {
				let (a, b) = (1 + idx(*x, n - 1), 1 + idx(*y, n - 1));
				if a == b || edges.contains(&(a, b)) {
					continue;
				}
				let Some(d) = refops::diff_partial(&built.contracted[a], &built.contracted[b]) else { continue };
				files.push((format!("{}#{}.tinydiff", built.names[a], built.names[b]), text::tinydiff(&d, 0)));
				edges.push((a, b));
			}
			if edges.len() > built.edges.len() {
				let mut indeg = vec![0usize; n];
				for (_, c) in &edges {
					indeg[*c] += 1;
				}
				let mut ready: Vec<usize> = (0..n).filter(|k| indeg[*k] == 0).collect();
				let mut sorted = 0;
				while let Some(k) = ready.pop() {
					sorted += 1;
					for (p, c) in &edges {
						if *p == k {
							indeg[*c] -= 1;
							if indeg[*c] == 0 {
								ready.push(*c);
							}
						}
					}
				}
				if sorted < n {
					must_fail_resolve = true;
					let on_cycle = (0..n).filter(|k| indeg[*k] > 0).count();
					let entries = edges.iter().filter(|(p, c)| indeg[*p] == 0 && indeg[*c] > 0).map(|(_, c)| *c).collect::<std::collections::BTreeSet<_>>().len();
					obs.label(format!("cycle:nodes_on_or_behind={},entry_points={}", on_cycle.min(5), entries.min(3)));
				} else {
					obs.label("extra_edges_acyclic:well_formed");
				}
			}
		}
		5 => {
			files.push((format!("ghost#orphan.tinydiff"), "tiny\t2\t0\n".into()));
		}
		_ => {}
	}

	let mut results: Vec<BTreeMap<String, MapSet>> = Vec::new();
	for (run, order) in [&case.order1, &case.order2].into_iter().enumerate() {
		let dir = write_dir(&files, order, "c05")?;
		let g = match VersionGraph::resolve(&dir.path) {
			Ok(g) => g,
			Err(e) => {
				if must_fail_resolve {
					obs.label(format!("malformed{}:resolve_refused", case.malformed));
					return Ok(());
				}
				return Err(format!("resolve of a well-formed directory failed (run {run}): {e:#}"));
			}
		};
		if must_fail_resolve {
			// not refused as a whole: then nothing may be resolved arbitrarily — at least the versions on the defect must fail
			match case.malformed {
				3 | 4 => return Err(format!("a directory whose edges form a cycle reachable from the root was resolved (files: {:?})", files.iter().map(|f| &f.0).collect::<Vec<_>>())),
				_ => return Err(format!("a malformed directory (kind {}) was resolved (files: {:?})", case.malformed, files.iter().map(|f| &f.0).collect::<Vec<_>>())),
			}
		}
		let mut got: BTreeMap<String, MapSet> = BTreeMap::new();
		for k in 0..n {
			let full = &built.names[k];
			let halves: Vec<(String, Split)> = match full.split_once('~') {
				Some((a, b)) => vec![(a.to_string(), Split::First), (b.to_string(), Split::Second)],
				None => vec![(full.clone(), Split::None)],
			};
			let expected = extend_inner(&built.contracted[k], 1);
			for (name, want_split) in halves {
				match (&expected, query(&g, &name)) {
					(Extended::Ok(exp), Ok((split, got_full, ms))) => {
						if split != want_split || &got_full != full {
							return Err(format!("get({name:?}) answers ({split:?}, {got_full:?}), expected ({want_split:?}, {full:?})"));
						}
						let mut exp = exp.clone();
						exp.ns = ms.ns.clone();
						if ms != exp {
							let diff_class = exp.classes.iter().find(|(k, c)| ms.classes.get(*k) != Some(c)).map(|(k, c)| format!("class {k}: expected {c:?}\n got {:?}", ms.classes.get(k))).unwrap_or_else(|| format!("classes {:?} vs {:?}", ms.classes.keys().collect::<Vec<_>>(), exp.classes.keys().collect::<Vec<_>>()));
							return Err(format!("version {name:?} ({full}): the mappings are not root + the diffs on its path: {diff_class}"));
						}
						got.insert(name, ms);
					}
					(Extended::Fail(_), Ok(_)) => return Err(format!("version {name:?}: inner class names cannot be extended (outer class missing), but mappings were reported")),
					(Extended::Fail(_), Err(_)) => obs.label("extension_refused"),
					(Extended::Ok(_), Err(e)) => return Err(format!("version {name:?} of a well-formed directory: {e}")),
				}
			}
		}
		if case.malformed == 0 || case.malformed == 6 {
			graph_queries(&g, &built, obs)?;
		}
		if case.malformed == 5 {
			for name in ["orphan", "ghost"] {
				if let Ok((_, _, _)) = query(&g, name) {
					return Err(format!("version {name:?} is not reachable from the root, but mappings were reported for it"));
				}
			}
			obs.label("malformed5:unreachable_query_refused");
		}
		if case.malformed == 6 || case.malformed == 0 {
			// names that designate no version: unrelated text, near misses of real keys, and `x~y` combinations of
			// real keys that are not the two halves of one version (the exact `client~server` name of an existing
			// version is left unspecified: the statement only promises the halves)
			let mut keys: Vec<String> = Vec::new();
			for full in &built.names {
				match full.split_once('~') {
					Some((a, b)) => {
						keys.push(a.to_string());
						keys.push(b.to_string());
					}
					None => keys.push(full.clone()),
				}
			}
			let is_key = |x: &str| keys.iter().any(|k| k == x);
			let mut unknown: Vec<String> = vec!["no-such-version".into(), String::new(), "~".into()];
			// what the shortcut table of the command line abbreviates is not a name of the directory
			unknown.extend(SHORTCUTS.iter().map(|(short, _)| short.to_string()).filter(|x| !is_key(x)));
			for k in &keys {
				for cand in [format!("{k} "), format!(" {k}"), format!("{k}~"), format!("~{k}"), format!("{k}0"), k[..k.len() - 1].to_string(), k.to_uppercase(), format!("{k}.tiny"), format!("{k}#{k}")] {
					if !is_key(&cand) {
						unknown.push(cand);
					}
				}
			}
			for (i, x) in keys.iter().enumerate() {
				for (j, y) in keys.iter().enumerate() {
					let pair = format!("{x}~{y}");
					if i != j && !built.names.contains(&pair) {
						unknown.push(pair);
					}
				}
			}
			unknown.truncate(120);
			for name in &unknown {
				if let Ok((split, v)) = g.get(name) {
					return Err(format!("get({name:?}) names no version of the directory but was resolved to ({split:?}, {:?})", v.as_str()));
				}
			}
			obs.label("unknown_names_refused");
			obs.label_if(case.malformed == 6, "malformed6:unknown_version_refused");
			obs.label_if(unknown.iter().any(|u| u.contains('~') && u.len() > 2 && !u.starts_with('~') && !u.ends_with('~')), "mixed_halves_queried");
		}
		let _ = &mut broken;
		results.push(got);
	}
	if results.len() == 2 && results[0] != results[1] {
		return Err("the answers depend on the order in which the files were created".into());
	}
	let depth = |k: usize| {
		// shortest path length from the root
		let mut dist = vec![usize::MAX; n];
		dist[0] = 0;
		for (p, c) in &built.edges {
			if dist[*p] != usize::MAX {
				dist[*c] = dist[*c].min(dist[*p] + 1);
			}
		}
		dist[k]
	};
	let max_depth = (0..n).map(depth).max().unwrap_or(0);
	let diamond = (0..n).any(|k| built.edges.iter().filter(|(_, c)| *c == k).count() >= 2);
	obs.label(format!("versions={}", n.min(6)));
	obs.label(format!("max_path_edges={}", max_depth.min(5)));
	obs.label_if(diamond, "diamond");
	obs.label_if(built.names.iter().any(|x| x.contains('~')), "split_name");
	obs.label_if(case.nodes.iter().any(|x| x.style != 0), "dotted_or_extension_like_version_names");
	obs.label_if(built.names.iter().any(|x| built.names.iter().any(|y| y != x && y.starts_with(x.as_str()))), "version_name_prefix_of_another");
	obs.label_if(case.order1 != case.order2, "two_creation_orders");
	obs.label(format!("malformed={}", case.malformed));
	let gains_name = built.edges.iter().any(|(p, c)| built.contracted[*p].classes.iter().any(|(k, pc)| built.contracted[*c].classes.get(k).map_or(false, |cc| (pc.names[1].is_none() && cc.names[1].is_some() && (pc.doc.is_some() || !pc.fields.is_empty() || !pc.methods.is_empty())) || pc.methods.iter().any(|(mk, pm)| cc.methods.get(mk).map_or(false, |cm| pm.names[1].is_none() && cm.names[1].is_some() && (pm.doc.is_some() || !pm.params.is_empty()))))));
	obs.label_if(gains_name, "edge_names_an_unnamed_entry_that_has_children");
	obs.nontrivial_if(n >= 3 && max_depth >= 2 && case.malformed == 0);
	Ok(())
}

pub fn run(ctx: &mut Ctx) {
	crate::engine::silence_stderr();
	ctx.rule = "rooted graphs of 1-8 versions (each later version has 1-2 parents among the earlier ones: chains, trees, diamonds; plain and client~server names); each version's mappings derive from its first parent by a generated edit script (entries dropped/added, renames, comment edits at all levels; a tenth of the root's entries have no name in `named`, keep their children and comments, and may gain the name on a later edge), every edge file is the harness-written .tinydiff of the model-level diff between the contracted sets, the root file the harness-written .tiny with extended inner names; files are created in two generated orders inside fresh tmpfs directories (tmpfs lists in reverse creation order). Oracle: for every version and every name/half: get() finds it with the right split kind, and apply_diffs == extend(model of that version) (or an error where the outer class of a named nested class is gone); both creation orders give the same answers; get_all answers like get per name and refuses a list with one unknown name, only the root reports root mappings, get_diff reports exactly the edge file's diff (nothing where there is no edge); version names are spelled v3 / c3~s3 or the way the Feather repository spells them (dots, dashes, -client/-server, names that are prefixes of each other or contain the text of the file extensions); malformed variants (no root, two roots - the second under an unrelated name or one sharing a half with the root's -, cycle through / below the root, version only below an undeclared parent, unknown name) must be refused by resolve or by every query on the defect. Non-trivial = >=3 versions and a queried path of >=2 edges in a well-formed directory; distinct by case hash".into();
	ctx.assume("in a diamond all parents lead to the same child mappings (every path is valid)");
	ctx.assume("directory listing orders other than those tmpfs produces for the generated creation orders are not reachable");
	ctx.run_sub("version_graph", ctx.tier.pick(72000, 1200000), strategy, check);
}
