//! C05 — the version graph resolves each version to root plus the diffs on its path.
//!
//! `/repo/src/version_graph.rs` is compiled into the harness via `#[path]` (see lib.rs).

use crate::engine::{idx, Ctx, Obs, PropResult, Scratch};
use crate::mapmodel::conv::from_quill;
use crate::mapmodel::gen::{draws, edit, mapset, GenCfg, TargetStyle};
use crate::mapmodel::refops::{self, contract_inner, extend_inner, Extended};
use crate::mapmodel::{text, MapSet};
use crate::version_graph::{Split, VersionGraph};
use proptest::prelude::*;
use serde::{Deserialize, Serialize};
use std::collections::BTreeMap;

#[derive(Clone, Debug, Serialize, Deserialize)]
pub struct Node {
	/// parents: indices of earlier nodes (1 or 2; ignored for node 0)
	pub parents: Vec<u16>,
	pub split_name: bool,
	pub edits: Vec<u8>,
}

#[derive(Clone, Debug, Serialize, Deserialize)]
pub struct Case {
	/// contracted form of the root mappings (nested classes store simple target names)
	pub root: MapSet,
	pub nodes: Vec<Node>,
	/// file creation orders (two runs); tmpfs lists a directory in reverse creation order
	pub order1: Vec<u16>,
	pub order2: Vec<u16>,
	/// 0 well-formed, 1 no root, 2 two roots, 3 cycle through the root, 4 cycle below the root, 5 version only reachable from an undeclared parent, 6 unknown version queried
	pub malformed: u8,
	/// malformed == 4: further edges between arbitrary non-root versions (each with the true diff between the two versions);
	/// they may close cycles of any length with any number of entry points, or leave the graph acyclic
	#[serde(default)]
	pub extra: Vec<(u16, u16)>,
}

fn strategy() -> impl Strategy<Value = Case> {
	let cfg = GenCfg { ns_min: 2, ns_max: 2, p_missing: 0, style: TargetStyle::Simple, param_src_names: false, max_classes: 5, p_nested: 45, ..GenCfg::default() };
	let node = (proptest::collection::vec(any::<u16>(), 1..3), prop_oneof![2 => Just(false), 1 => Just(true)], draws()).prop_map(|(parents, split_name, edits)| Node { parents, split_name, edits });
	(mapset(cfg), proptest::collection::vec(node, 1..8), proptest::collection::vec(any::<u16>(), 24), proptest::collection::vec(any::<u16>(), 24), prop_oneof![5 => Just(0u8), 1 => 1u8..7, 1 => Just(4u8)], proptest::collection::vec(any::<(u16, u16)>(), 0..4)).prop_map(|(mut root, nodes, order1, order2, malformed, extra)| {
		root.ns = vec!["calamus".into(), "named".into()];
		Case { root, nodes, order1, order2, malformed, extra }
	})
}

fn fix_docs(m: &mut MapSet) {
	m.for_each_doc_mut(|d| {
		if d.as_deref() == Some("") {
			*d = Some("-".into());
		}
	});
}

fn node_name(k: usize, n: &Node) -> String {
	if n.split_name {
		format!("c{k}~s{k}")
	} else {
		format!("v{k}")
	}
}

struct Built {
	names: Vec<String>,
	/// contracted mappings per node (None = not derivable, e.g. a diamond whose second parent cannot reach the same child)
	contracted: Vec<MapSet>,
	/// (parent, child)
	edges: Vec<(usize, usize)>,
	files: Vec<(String, String)>,
}

fn build(case: &Case) -> Result<Built, String> {
	let mut root = case.root.clone();
	fix_docs(&mut root);
	let mut names = vec![node_name(0, &case.nodes[0])];
	let mut contracted = vec![root];
	let mut edges = Vec::new();
	for (k, n) in case.nodes.iter().enumerate().skip(1) {
		let mut ps: Vec<usize> = n.parents.iter().map(|p| idx(*p, k)).collect();
		ps.sort();
		ps.dedup();
		// the child is derived from its first parent; every parent edge is the diff parent -> child
		let mut m = edit(&contracted[ps[0]], 1, &n.edits);
		fix_docs(&mut m);
		names.push(node_name(k, n));
		contracted.push(m);
		for p in ps {
			edges.push((p, k));
		}
	}
	let mut files = Vec::new();
	let root_ext = match extend_inner(&contracted[0], 1) {
		Extended::Ok(m) => m,
		Extended::Fail(e) => return Err(e),
	};
	files.push((format!("{}.tiny", names[0]), text::tiny(&root_ext, 0)));
	for (p, c) in &edges {
		let d = refops::diff(&contracted[*p], &contracted[*c]).ok_or_else(|| "diff not expressible".to_string())?;
		files.push((format!("{}#{}.tinydiff", names[*p], names[*c]), text::tinydiff(&d, 0)));
	}
	Ok(Built { names, contracted, edges, files })
}

fn write_dir(files: &[(String, String)], order: &[u16], tag: &str) -> Result<Scratch, String> {
	let dir = Scratch::new(tag);
	let mut left: Vec<&(String, String)> = files.iter().collect();
	let mut k = 0;
	while !left.is_empty() {
		let i = idx(order.get(k).copied().unwrap_or(0), left.len());
		let (name, content) = left.remove(i);
		std::fs::write(dir.path.join(name), content).map_err(|e| format!("harness: cannot write {name}: {e}"))?;
		k += 1;
	}
	Ok(dir)
}

fn query(g: &VersionGraph, name: &str) -> Result<(Split, String, MapSet), String> {
	let (split, v) = g.get(name).map_err(|e| format!("get({name:?}): {e:#}"))?;
	let full = v.as_str().to_string();
	let m = g.apply_diffs(v).map_err(|e| format!("apply_diffs({name:?}): {e:#}"))?;
	let ms = from_quill(&m).map_err(|e| format!("harness: result not readable: {e:#}"))?;
	Ok((split, full, ms))
}

fn check(case: &Case, obs: &mut Obs) -> PropResult {
	if case.nodes.is_empty() {
		return Ok(());
	}
	let built = match build(case) {
		Ok(b) => b,
		Err(_) => {
			obs.label("root_not_extensible_or_diff_not_expressible");
			return Ok(());
		}
	};
	let n = built.names.len();
	let mut files = built.files.clone();
	let mut broken: Vec<usize> = Vec::new(); // nodes whose queries must fail (if resolve succeeds)
	let mut must_fail_resolve = false;
	match case.malformed {
		1 => {
			files.remove(0);
			must_fail_resolve = true;
		}
		2 => {
			files.push(("second-root.tiny".into(), built.files[0].1.clone()));
			must_fail_resolve = true;
		}
		3 if n >= 2 => {
			let (_, c) = built.edges[built.edges.len() - 1];
			files.push((format!("{}#{}.tinydiff", built.names[c], built.names[0]), "tiny\t2\t0\n".into()));
			must_fail_resolve = true;
		}
		4 if n >= 3 => {
			// an edge from a node back to one of its ancestors (not the root)
			let (p, c) = built.edges[built.edges.len() - 1];
			if p != 0 && case.extra.is_empty() {
				files.push((format!("{}#{}.tinydiff", built.names[c], built.names[p]), "tiny\t2\t0\n".into()));
				must_fail_resolve = true;
			}
			// general form: extra edges with true diffs; the oracle is an independent topological sort
			let mut edges = built.edges.clone();
			for (x, y) in &case.extra {
				let (a, b) = (1 + idx(*x, n - 1), 1 + idx(*y, n - 1));
				if a == b || edges.contains(&(a, b)) {
					continue;
				}
				let Some(d) = refops::diff(&built.contracted[a], &built.contracted[b]) else { continue };
				files.push((format!("{}#{}.tinydiff", built.names[a], built.names[b]), text::tinydiff(&d, 0)));
				edges.push((a, b));
			}
			if edges.len() > built.edges.len() {
				let mut indeg = vec![0usize; n];
				for (_, c) in &edges {
					indeg[*c] += 1;
				}
				let mut ready: Vec<usize> = (0..n).filter(|k| indeg[*k] == 0).collect();
				let mut sorted = 0;
				while let Some(k) = ready.pop() {
					sorted += 1;
					for (p, c) in &edges {
						if *p == k {
							indeg[*c] -= 1;
							if indeg[*c] == 0 {
								ready.push(*c);
							}
						}
					}
				}
				if sorted < n {
					must_fail_resolve = true;
					let on_cycle = (0..n).filter(|k| indeg[*k] > 0).count();
					let entries = edges.iter().filter(|(p, c)| indeg[*p] == 0 && indeg[*c] > 0).map(|(_, c)| *c).collect::<std::collections::BTreeSet<_>>().len();
					obs.label(format!("cycle:nodes_on_or_behind={},entry_points={}", on_cycle.min(5), entries.min(3)));
				} else {
					obs.label("extra_edges_acyclic:well_formed");
				}
			}
		}
		5 => {
			files.push((format!("ghost#orphan.tinydiff"), "tiny\t2\t0\n".into()));
		}
		_ => {}
	}

	let mut results: Vec<BTreeMap<String, MapSet>> = Vec::new();
	for (run, order) in [&case.order1, &case.order2].into_iter().enumerate() {
		let dir = write_dir(&files, order, "c05")?;
		let g = match VersionGraph::resolve(&dir.path) {
			Ok(g) => g,
			Err(e) => {
				if must_fail_resolve {
					obs.label(format!("malformed{}:resolve_refused", case.malformed));
					return Ok(());
				}
				return Err(format!("resolve of a well-formed directory failed (run {run}): {e:#}"));
			}
		};
		if must_fail_resolve {
			// not refused as a whole: then nothing may be resolved arbitrarily — at least the versions on the defect must fail
			match case.malformed {
				3 | 4 => return Err(format!("a directory whose edges form a cycle reachable from the root was resolved (files: {:?})", files.iter().map(|f| &f.0).collect::<Vec<_>>())),
				_ => return Err(format!("a malformed directory (kind {}) was resolved (files: {:?})", case.malformed, files.iter().map(|f| &f.0).collect::<Vec<_>>())),
			}
		}
		let mut got: BTreeMap<String, MapSet> = BTreeMap::new();
		for k in 0..n {
			let full = &built.names[k];
			let halves: Vec<(String, Split)> = match full.split_once('~') {
				Some((a, b)) => vec![(a.to_string(), Split::First), (b.to_string(), Split::Second)],
				None => vec![(full.clone(), Split::None)],
			};
			let expected = extend_inner(&built.contracted[k], 1);
			for (name, want_split) in halves {
				match (&expected, query(&g, &name)) {
					(Extended::Ok(exp), Ok((split, got_full, ms))) => {
						if split != want_split || &got_full != full {
							return Err(format!("get({name:?}) answers ({split:?}, {got_full:?}), expected ({want_split:?}, {full:?})"));
						}
						let mut exp = exp.clone();
						exp.ns = ms.ns.clone();
						if ms != exp {
							let diff_class = exp.classes.iter().find(|(k, c)| ms.classes.get(*k) != Some(c)).map(|(k, c)| format!("class {k}: expected {c:?}\n got {:?}", ms.classes.get(k))).unwrap_or_else(|| format!("classes {:?} vs {:?}", ms.classes.keys().collect::<Vec<_>>(), exp.classes.keys().collect::<Vec<_>>()));
							return Err(format!("version {name:?} ({full}): the mappings are not root + the diffs on its path: {diff_class}"));
						}
						got.insert(name, ms);
					}
					(Extended::Fail(_), Ok(_)) => return Err(format!("version {name:?}: inner class names cannot be extended (outer class missing), but mappings were reported")),
					(Extended::Fail(_), Err(_)) => obs.label("extension_refused"),
					(Extended::Ok(_), Err(e)) => return Err(format!("version {name:?} of a well-formed directory: {e}")),
				}
			}
		}
		if case.malformed == 5 {
			for name in ["orphan", "ghost"] {
				if let Ok((_, _, _)) = query(&g, name) {
					return Err(format!("version {name:?} is not reachable from the root, but mappings were reported for it"));
				}
			}
			obs.label("malformed5:unreachable_query_refused");
		}
		if case.malformed == 6 || case.malformed == 0 {
			// names that designate no version: unrelated text, near misses of real keys, and `x~y` combinations of
			// real keys that are not the two halves of one version (the exact `client~server` name of an existing
			// version is left unspecified: the statement only promises the halves)
			let mut keys: Vec<String> = Vec::new();
			for full in &built.names {
				match full.split_once('~') {
					Some((a, b)) => {
						keys.push(a.to_string());
						keys.push(b.to_string());
					}
					None => keys.push(full.clone()),
				}
			}
			let is_key = |x: &str| keys.iter().any(|k| k == x);
			let mut unknown: Vec<String> = vec!["no-such-version".into(), String::new(), "~".into()];
			for k in &keys {
				for cand in [format!("{k} "), format!(" {k}"), format!("{k}~"), format!("~{k}"), format!("{k}0"), k[..k.len() - 1].to_string(), k.to_uppercase(), format!("{k}.tiny"), format!("{k}#{k}")] {
					if !is_key(&cand) {
						unknown.push(cand);
					}
				}
			}
			for (i, x) in keys.iter().enumerate() {
				for (j, y) in keys.iter().enumerate() {
					let pair = format!("{x}~{y}");
					if i != j && !built.names.contains(&pair) {
						unknown.push(pair);
					}
				}
			}
			unknown.truncate(120);
			for name in &unknown {
				if let Ok((split, v)) = g.get(name) {
					return Err(format!("get({name:?}) names no version of the directory but was resolved to ({split:?}, {:?})", v.as_str()));
				}
			}
			obs.label("unknown_names_refused");
			obs.label_if(case.malformed == 6, "malformed6:unknown_version_refused");
			obs.label_if(unknown.iter().any(|u| u.contains('~') && u.len() > 2 && !u.starts_with('~') && !u.ends_with('~')), "mixed_halves_queried");
		}
		let _ = &mut broken;
		results.push(got);
	}
	if results.len() == 2 && results[0] != results[1] {
		return Err("the answers depend on the order in which the files were created".into());
	}
	let depth = |k: usize| {
		// shortest path length from the root
		let mut dist = vec![usize::MAX; n];
		dist[0] = 0;
		for (p, c) in &built.edges {
			if dist[*p] != usize::MAX {
				dist[*c] = dist[*c].min(dist[*p] + 1);
			}
		}
		dist[k]
	};
	let max_depth = (0..n).map(depth).max().unwrap_or(0);
	let diamond = (0..n).any(|k| built.edges.iter().filter(|(_, c)| *c == k).count() >= 2);
	obs.label(format!("versions={}", n.min(6)));
	obs.label(format!("max_path_edges={}", max_depth.min(5)));
	obs.label_if(diamond, "diamond");
	obs.label_if(built.names.iter().any(|x| x.contains('~')), "split_name");
	obs.label_if(case.order1 != case.order2, "two_creation_orders");
	obs.label(format!("malformed={}", case.malformed));
	obs.nontrivial_if(n >= 3 && max_depth >= 2 && case.malformed == 0);
	Ok(())
}

pub fn run(ctx: &mut Ctx) {
	crate::engine::silence_stderr();
	ctx.rule = "rooted graphs of 1-8 versions (each later version has 1-2 parents among the earlier ones: chains, trees, diamonds; plain and client~server names); each version's mappings derive from its first parent by a generated edit script (entries dropped/added, renames, comment edits at all levels), every edge file is the harness-written .tinydiff of the model-level diff between the contracted sets, the root file the harness-written .tiny with extended inner names; files are created in two generated orders inside fresh tmpfs directories (tmpfs lists in reverse creation order). Oracle: for every version and every name/half: get() finds it with the right split kind, and apply_diffs == extend(model of that version) (or an error where the outer class of a named nested class is gone); both creation orders give the same answers; malformed variants (no root, two roots, cycle through / below the root, version only below an undeclared parent, unknown name) must be refused by resolve or by every query on the defect. Non-trivial = >=3 versions and a queried path of >=2 edges in a well-formed directory; distinct by case hash".into();
	ctx.assume("in a diamond all parents lead to the same child mappings (every path is valid)");
	ctx.assume("directory listing orders other than those tmpfs produces for the generated creation orders are not reachable");
	ctx.run_sub("version_graph", ctx.tier.pick(72000, 1200000), strategy, check);
}
