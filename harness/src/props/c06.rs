//! C06 — remappers answer names and descriptors consistently with the mappings.

use crate::engine::{idx, Ctx, Obs, PropResult};
use crate::mapmodel::conv::{class_name, js, to_quill};
use crate::mapmodel::gen::{build_type, draws, mapset, order_seed, raw_type, Draws, GenCfg, RawType, TargetStyle, EXTERNAL_CLASSES};
use crate::mapmodel::refops::{self, Inheritance, RefRemapper, Search};
use crate::mapmodel::MapSet;
use duke::tree::class::ClassName;
use duke::tree::descriptor::ReturnDescriptor;
use duke::tree::field::{FieldDescriptor, FieldName};
use duke::tree::method::{MethodDescriptor, MethodName};
use indexmap::{IndexMap, IndexSet};
use proptest::collection::vec;
use proptest::prelude::*;
use quill::remapper::{ARemapper, BRemapper, JarSuperProv};
use quill::tree::names::Namespace;
use serde::{Deserialize, Serialize};

struct Ns;

#[derive(Clone, Debug, Serialize, Deserialize)]
pub struct Case {
	pub m: MapSet,
	pub from: usize,
	pub to: usize,
	/// class (name in `from` namespace, or an unmapped class) -> super types in declaration order
	pub inh: Vec<(String, Vec<String>)>,
	pub descs: Vec<String>,
	pub queries: Vec<u16>,
	pub order: u64,
}

const UNMAPPED: &[&str] = &["ext/U1", "ext/U2", "ext/U3"];

fn strategy() -> impl Strategy<Value = Case> {
	let cfg = GenCfg { ns_min: 2, ns_max: 4, p_missing: 12, style: TargetStyle::Arbitrary, injective: true, injective_members: false, max_classes: 7, max_fields: 3, max_methods: 3, max_params: 0, docs: false, ..GenCfg::default() };
	(mapset(cfg), any::<(u8, u8, u16)>(), draws(), vec(raw_type(), 0..6), vec(any::<u16>(), 0..24), order_seed()).prop_map(|(mut m, (f, t, chain), stream, raw_descs, queries, order)| {
		let n = m.ns.len();
		// shadowing: copy members (same key, other target names) into other classes
		{
			let mut dr = Draws::new(&stream);
			let keys: Vec<String> = m.classes.keys().cloned().collect();
			for i in 1..keys.len() {
				if dr.pct(45) {
					let src = m.classes[&keys[idx((dr.next() as u16) << 8, i)]].clone();
					let dst = m.classes.get_mut(&keys[i]).unwrap();
					for (k, me) in &src.methods {
						let mut me = me.clone();
						for (j, nm) in me.names.iter_mut().enumerate().skip(1) {
							if let Some(nm) = nm.as_mut().filter(|n| !n.starts_with('<')) {
								nm.push_str(&format!("_s{j}"));
							}
						}
						dst.methods.entry(k.clone()).or_insert(me);
					}
					for (k, f) in &src.fields {
						let mut f = f.clone();
						for (j, nm) in f.names.iter_mut().enumerate().skip(1) {
							if let Some(nm) = nm {
								nm.push_str(&format!("_s{j}"));
							}
						}
						dst.fields.entry(k.clone()).or_insert(f);
					}
				}
			}
		}
		// within one class a (name, descriptor) pair identifies one member in every namespace
		// (otherwise a query by that pair is ambiguous by nature): blank out later duplicates
		for c in m.classes.values_mut() {
			for k in 1..n {
				let mut seen = std::collections::BTreeSet::new();
				for (key, f) in c.fields.iter_mut() {
					if let Some(nm) = f.names[k].clone() {
						if !seen.insert((nm, key.desc.clone())) {
							f.names[k] = None;
						}
					}
				}
				let mut seen = std::collections::BTreeSet::new();
				for (key, me) in c.methods.iter_mut() {
					if let Some(nm) = me.names[k].clone() {
						if !seen.insert((nm, key.desc.clone())) {
							me.names[k] = None;
						}
					}
				}
			}
		}
		let from = (f as usize) % n;
		let mut to = (t as usize) % n;
		if to == from {
			to = (to + 1) % n;
		}
		// nodes of the inheritance DAG in topological order: a node may only extend earlier nodes
		let mut dr = Draws::new(&stream);
		let mut nodes: Vec<String> = Vec::new();
		let set_classes: Vec<String> = m.classes.values().filter_map(|c| c.names[from].clone()).collect();
		let mut pending = set_classes.clone();
		let mut unmapped = UNMAPPED.iter().map(|s| s.to_string()).collect::<Vec<_>>();
		while !pending.is_empty() || (!unmapped.is_empty() && dr.pct(40)) {
			if !unmapped.is_empty() && (pending.is_empty() || dr.pct(25)) {
				nodes.push(unmapped.remove(0));
			} else {
				let i = idx((dr.next() as u16) << 8, pending.len());
				nodes.push(pending.remove(i));
			}
		}
		let mut inh = Vec::new();
		for i in 0..nodes.len() {
			let mut supers: Vec<String> = Vec::new();
			let k = if i == 0 { 0 } else { dr.next() % 4 };
			for _ in 0..k {
				let s = nodes[idx((dr.next() as u16) << 8 | dr.next() as u16, i)].clone();
				if !supers.contains(&s) {
					supers.push(s);
				}
			}
			if dr.pct(30) {
				supers.insert(0, "java/lang/Object".to_string());
			}
			if !supers.is_empty() || dr.pct(50) {
				inh.push((nodes[i].clone(), supers));
			}
		}
		// deep hierarchies: in one case of 16 a chain of unmapped intermediate classes is spliced between a class and its
		// super types (depths around 64 / 256 / 1000, where depth guards and recursion limits would sit)
		if chain % 16 == 0 {
			const DEPTHS: &[usize] = &[10, 63, 64, 65, 66, 100, 255, 256, 257, 300, 1000];
			let depth = DEPTHS[idx(chain, DEPTHS.len())];
			let with_supers: Vec<usize> = (0..inh.len()).filter(|&i| !inh[i].1.is_empty()).collect();
			if !with_supers.is_empty() {
				let at = with_supers[idx(chain.rotate_left(5), with_supers.len())];
				let old_supers = std::mem::replace(&mut inh[at].1, vec!["ext/chain/K0".to_string()]);
				for k in 0..depth {
					let sup = if k + 1 == depth { old_supers.clone() } else { vec![format!("ext/chain/K{}", k + 1)] };
					inh.push((format!("ext/chain/K{k}"), sup));
				}
			}
		}
		let pool: Vec<String> = set_classes.iter().cloned().chain(UNMAPPED.iter().map(|s| s.to_string())).collect();
		let descs = raw_descs.iter().map(|r: &RawType| build_type(r, &pool)).collect();
		Case { m, from, to, inh, descs, queries, order }
	})
}

fn prov(inh: &[(String, Vec<String>)]) -> Result<JarSuperProv, String> {
	let mut super_classes = IndexMap::new();
	for (c, s) in inh {
		let mut set = IndexSet::new();
		for x in s {
			set.insert(class_name(x).map_err(|e| format!("harness: {e:#}"))?);
		}
		super_classes.insert(class_name(c).map_err(|e| format!("harness: {e:#}"))?, set);
	}
	Ok(JarSuperProv { super_classes })
}

fn check<const N: usize>(case: &Case, obs: &mut Obs) -> PropResult {
	let m = &case.m;
	let q = to_quill::<N, Ns>(m, case.order).map_err(|e| format!("harness: {e:#}"))?;
	let from = Namespace::<N>::new(case.from).map_err(|e| format!("{e:#}"))?;
	let to = Namespace::<N>::new(case.to).map_err(|e| format!("{e:#}"))?;
	let inh_map: Inheritance = case.inh.iter().cloned().collect();
	let provider = prov(&case.inh)?;
	let ra = q.remapper_a(from, to).map_err(|e| format!("remapper_a failed: {e:#}"))?;
	let rb = q.remapper_b(from, to, &provider).map_err(|e| format!("remapper_b failed: {e:#}"))?;
	let reference = RefRemapper::new(m, case.from, case.to, &inh_map);

	// --- classes
	let mut class_queries: Vec<String> = m.classes.values().filter_map(|c| c.names[case.from].clone()).collect();
	class_queries.extend(EXTERNAL_CLASSES.iter().map(|s| s.to_string()));
	class_queries.extend(UNMAPPED.iter().map(|s| s.to_string()));
	class_queries.extend(m.classes.values().filter_map(|c| c.names[case.to].clone()));
	for c in &class_queries {
		let cn = class_name(c).map_err(|e| format!("harness: {e:#}"))?;
		let exp = reference.map_class(c);
		for (which, got) in [("remapper_a", ra.map_class(&cn)), ("remapper_b", rb.map_class(&cn))] {
			let got = got.map_err(|e| format!("{which}.map_class({c}) failed: {e:#}"))?;
			if got.as_inner() != exp.as_str() {
				return Err(format!("{which}.map_class({c}) = {got}, expected {exp}\nmappings = {m:?} from={} to={}", case.from, case.to));
			}
		}
		let fail = ra.map_class_fail(&cn).map_err(|e| format!("{e:#}"))?;
		if fail.is_some() != reference.class_mapped(c) {
			return Err(format!("map_class_fail({c}) = {fail:?} but class mapped = {}", reference.class_mapped(c)));
		}
	}

	// --- descriptors
	let mut two_segments = false;
	let mut descs: Vec<String> = case.descs.clone();
	for c in m.classes.values() {
		for k in c.fields.keys() {
			descs.push(k.desc.clone());
		}
	}
	for d in &descs {
		let exp = reference.map_desc(d);
		if refops::shape(&exp) != refops::shape(d) {
			return Err(format!("harness: reference changed the shape of {d}"));
		}
		let got = ra.map_field_desc(&FieldDescriptor::try_from(js(d)).unwrap()).map_err(|e| format!("map_field_desc({d}) failed: {e:#}"))?;
		if got.as_inner() != exp.as_str() {
			return Err(format!("map_field_desc({d}) = {:?}, expected {exp}", got.as_inner()));
		}
		// the same type as array class name / return descriptor / inside a method descriptor
		let md = format!("({d}[{d}){d}");
		let exp_md = reference.map_desc(&md);
		let got_md = rb.map_method_desc(&MethodDescriptor::try_from(js(&md)).unwrap()).map_err(|e| format!("map_method_desc({md}) failed: {e:#}"))?;
		if got_md.as_inner() != exp_md.as_str() {
			return Err(format!("map_method_desc({md}) = {:?}, expected {exp_md}", got_md.as_inner()));
		}
		let got_r = ra.map_return_desc(&ReturnDescriptor::try_from(js(d)).unwrap()).map_err(|e| format!("map_return_desc({d}) failed: {e:#}"))?;
		if got_r.as_inner() != exp.as_str() {
			return Err(format!("map_return_desc({d}) = {:?}, expected {exp}", got_r.as_inner()));
		}
		let arr = format!("[{d}");
		let got_a = ra.map_class_any(&ClassName::try_from(js(&arr)).unwrap()).map_err(|e| format!("map_class_any({arr}) failed: {e:#}"))?;
		if got_a.as_inner() != format!("[{exp}").as_str() {
			return Err(format!("map_class_any({arr}) = {:?}, expected [{exp}", got_a.as_inner()));
		}
		if refops::class_segments(&md).len() >= 2 && exp_md != md {
			two_segments = true;
		}
	}
	// method descriptors whose array types add up to far more than 255 dimensions (every single type stays within the limit),
	// and with as many parameters as the format allows
	if let Some(first) = descs.first().cloned() {
		let el = first.trim_start_matches('[').to_string();
		for md in [
			format!("({}){}", format!("[[[[{el}").repeat(64), format!("[[{el}")),
			format!("({}{}{})V", format!("{}{el}", "[".repeat(255)), format!("[{el}"), format!("{}I", "[".repeat(255))),
			format!("({}){}", format!("[{el}").repeat(255), format!("{}{el}", "[".repeat(255))),
		] {
			let exp_md = reference.map_desc(&md);
			let got_md = rb.map_method_desc(&MethodDescriptor::try_from(js(&md)).map_err(|e| format!("harness: {e:#}"))?).map_err(|e| format!("map_method_desc of a descriptor with {} array dimensions in total failed: {e:#}", md.matches('[').count()))?;
			if got_md.as_inner() != exp_md.as_str() {
				return Err(format!("map_method_desc({md}) = {:?}, expected {exp_md}", got_md.as_inner()));
			}
		}
		obs.label("method_descriptor_with_>255_array_dimensions_in_total");
	}
	let void = ra.map_return_desc(&ReturnDescriptor::try_from(js("V")).unwrap()).map_err(|e| format!("{e:#}"))?;
	if void.as_inner() != "V" {
		return Err("map_return_desc(V) changed".into());
	}

	// --- members: every declared member queried from owners chosen by the query draws
	let mut owners: Vec<String> = case.inh.iter().map(|x| x.0.clone()).collect();
	for c in m.classes.values() {
		if let Some(f) = &c.names[case.from] {
			if !owners.contains(f) {
				owners.push(f.clone());
			}
		}
	}
	owners.push("ext/NotInGraph".into());
	// declared members in the from-namespace
	let mut members: Vec<(bool, String, String)> = Vec::new();
	{
		let zero_to_from = RefRemapper::new(m, 0, case.from, &inh_map);
		for c in m.classes.values() {
			for (k, f) in &c.fields {
				if let Some(n) = &f.names[case.from] {
					members.push((false, n.clone(), zero_to_from.map_desc(&k.desc)));
				}
			}
			for (k, me) in &c.methods {
				if let Some(n) = &me.names[case.from] {
					members.push((true, n.clone(), zero_to_from.map_desc(&k.desc)));
				}
			}
		}
	}
	members.push((false, "notDeclared".into(), "I".into()));
	members.push((true, "notDeclared".into(), "()V".into()));
	members.sort();
	members.dedup();
	let mut through_super = false;
	let mut qi = case.queries.iter();
	let all_pairs = owners.len() * members.len() <= 40;
	let mut pairs: Vec<(usize, usize)> = Vec::new();
	if all_pairs {
		for o in 0..owners.len() {
			for me in 0..members.len() {
				pairs.push((o, me));
			}
		}
	} else {
		while let (Some(a), Some(b)) = (qi.next(), qi.next()) {
			pairs.push((idx(*a, owners.len()), idx(*b, members.len())));
		}
	}
	for (o, mi) in pairs {
		let owner = &owners[o];
		let (is_method, name, desc) = &members[mi];
		let on = class_name(owner).map_err(|e| format!("harness: {e:#}"))?;
		let got: (String, String) = if *is_method {
			let r = rb
				.map_method(&on, &MethodName::try_from(js(name)).map_err(|e| format!("harness: {e:#}"))?, &MethodDescriptor::try_from(js(desc)).unwrap())
				.map_err(|e| format!("map_method({owner}.{name}{desc}) failed: {e:#}"))?;
			(r.name.as_inner().as_str().unwrap().to_string(), r.desc.as_inner().as_str().unwrap().to_string())
		} else {
			let r = rb
				.map_field(&on, &FieldName::try_from(js(name)).map_err(|e| format!("harness: {e:#}"))?, &FieldDescriptor::try_from(js(desc)).unwrap())
				.map_err(|e| format!("map_field({owner}.{name} {desc}) failed: {e:#}"))?;
			(r.name.as_inner().as_str().unwrap().to_string(), r.desc.as_inner().as_str().unwrap().to_string())
		};
		let dfs = reference.map_member(owner, name, desc, *is_method, Search::Dfs);
		let bfs = reference.map_member(owner, name, desc, *is_method, Search::Bfs);
		let found = reference.lookup(owner, name, desc, *is_method, Search::Dfs);
		if let Some((decl, _)) = &found {
			if decl != owner {
				through_super = true;
				obs.label("resolved_through_super");
				let owner_mapped = reference.class_mapped(owner);
				obs.label_if(!owner_mapped, "owner_unmapped");
			} else {
				obs.label("resolved_in_owner");
			}
		} else {
			obs.label("fallback_unchanged_name");
		}
		if dfs != bfs {
			obs.label("ambiguous_dfs_vs_nearest");
		}
		if got != dfs && got != bfs {
			let stop = reference.map_member(owner, name, desc, *is_method, Search::DfsStopAtUnmapped);
			if got == stop && obs.known("C06-unmapped-owner") {
				continue;
			}
			return Err(format!(
				"map_{}({owner}, {name}, {desc}) = {got:?}, expected {dfs:?}{}\nmappings = {m:?}\nfrom={} to={} inheritance={:?}",
				if *is_method { "method" } else { "field" },
				if dfs != bfs { format!(" or {bfs:?}") } else { String::new() },
				case.from,
				case.to,
				case.inh
			));
		}
	}

	// --- history on one remapper: a member that has no mapping, asked first, must not change the answer for a mapped member
	// asked afterwards - in particular not for one whose owner + name read the same when written one after the other
	// (`a` + `bc` / `ab` + `c`); and asking everything a second time gives the same answers
	{
		let ask = |owner: &str, is_method: bool, name: &str, desc: &str| -> Option<Result<(String, String), String>> {
			let on = class_name(owner).ok()?;
			if is_method {
				let n = MethodName::try_from(js(name)).ok()?;
				let d = MethodDescriptor::try_from(js(desc)).ok()?;
				Some(rb.map_method(&on, &n, &d).map(|r| (r.name.as_inner().as_str().unwrap().to_string(), r.desc.as_inner().as_str().unwrap().to_string())).map_err(|e| format!("{e:#}")))
			} else {
				let n = FieldName::try_from(js(name)).ok()?;
				let d = FieldDescriptor::try_from(js(desc)).ok()?;
				Some(rb.map_field(&on, &n, &d).map(|r| (r.name.as_inner().as_str().unwrap().to_string(), r.desc.as_inner().as_str().unwrap().to_string())).map_err(|e| format!("{e:#}")))
			}
		};
		let mut confusable = 0;
		for owner in owners.iter().take(12) {
			for (is_method, name, desc) in members.iter().take(12) {
				let expect = |o: &str, n: &str| {
					let (dfs, bfs) = (reference.map_member(o, n, desc, *is_method, Search::Dfs), reference.map_member(o, n, desc, *is_method, Search::Bfs));
					(dfs, bfs)
				};
				let oc: Vec<char> = owner.chars().collect();
				let nc: Vec<char> = name.chars().collect();
				let mut splits: Vec<(String, String)> = Vec::new();
				if oc.len() >= 2 {
					splits.push((oc[..oc.len() - 1].iter().collect(), format!("{}{name}", oc[oc.len() - 1])));
				}
				if nc.len() >= 2 && !name.starts_with('<') {
					splits.push((format!("{owner}{}", nc[0]), nc[1..].iter().collect()));
				}
				for (o2, n2) in splits {
					let Some(first) = ask(&o2, *is_method, &n2, desc) else { continue };
					let (d2, b2) = expect(&o2, &n2);
					match first {
						Ok(g) if g == d2 || g == b2 => {}
						Ok(g) => return Err(format!("map_{}({o2}, {n2}, {desc}) = {g:?}, expected {d2:?}", if *is_method { "method" } else { "field" })),
						Err(e) => return Err(format!("map_{}({o2}, {n2}, {desc}) failed: {e}", if *is_method { "method" } else { "field" })),
					}
					if let Some(r) = ask(owner, *is_method, name, desc) {
						let (d1, b1) = expect(owner, name);
						match r {
							Ok(g) if g == d1 || g == b1 => {}
							Ok(g) => return Err(format!("after asking for ({o2}, {n2}), map_{}({owner}, {name}, {desc}) = {g:?}, expected {d1:?}", if *is_method { "method" } else { "field" })),
							Err(e) => return Err(format!("after asking for ({o2}, {n2}), map_{}({owner}, {name}, {desc}) failed: {e}", if *is_method { "method" } else { "field" })),
						}
					}
					confusable += 1;
				}
			}
		}
		obs.label_if(confusable > 0, "history:unknown_member_with_the_same_owner+name_text_asked_first");
	}

	// --- X -> Y -> X is the identity on injectively named classes and their descriptors
	let back = q.remapper_a(to, from).map_err(|e| format!("{e:#}"))?;
	for c in m.classes.values() {
		if let (Some(f), Some(_)) = (&c.names[case.from], &c.names[case.to]) {
			let there = ra.map_class(&class_name(f).unwrap()).map_err(|e| format!("{e:#}"))?;
			let again = back.map_class(&there).map_err(|e| format!("{e:#}"))?;
			if again.as_inner() != f.as_str() {
				return Err(format!("map_class {f} -> {there} -> {again} is not the identity"));
			}
		}
	}
	let both_named = |c: &str| m.classes.values().find(|x| x.names[case.from].as_deref() == Some(c)).is_some_and(|x| x.names[case.to].is_some());
	let to_names: std::collections::BTreeSet<&str> = m.classes.values().filter_map(|c| c.names[case.to].as_deref()).collect();
	for d in &descs {
		// identity is only required where every class of the descriptor is named in both namespaces,
		// or is foreign to the mappings in both directions
		let ok = refops::class_segments(d).iter().all(|s| both_named(s) || (!reference.class_mapped(s) && !to_names.contains(s.as_str())));
		if !ok {
			continue;
		}
		let there = ra.map_field_desc(&FieldDescriptor::try_from(js(d)).unwrap()).map_err(|e| format!("{e:#}"))?;
		let again = back.map_field_desc(&there).map_err(|e| format!("{e:#}"))?;
		if again.as_inner() != d.as_str() {
			return Err(format!("map_field_desc {d} -> {:?} -> {:?} is not the identity", there.as_inner(), again.as_inner()));
		}
		obs.label("desc_round_trip");
	}
	// --- the inheritance graph translated to namespace Y (JarSuperProv::remap), and members mapped back through it
	let y_prov = JarSuperProv::remap(&ra, &vec![prov(&case.inh)?]).map_err(|e| format!("JarSuperProv::remap failed: {e:#}"))?;
	let mut inh_y: Vec<(String, Vec<String>)> = Vec::new();
	let mut collision = false;
	for (c, sup) in &case.inh {
		let c2 = reference.map_class(c);
		let mut sup2: Vec<String> = Vec::new();
		for x in sup {
			let x2 = reference.map_class(x);
			if sup2.contains(&x2) {
				collision = true;
			} else {
				sup2.push(x2);
			}
		}
		collision |= inh_y.iter().any(|(k, _)| *k == c2);
		inh_y.push((c2, sup2));
	}
	// a translated name that coincides with the name of one of its own (transitive) super types closes a cycle: not an
	// inheritance graph any more (the thorough tier met one at seed 1: the walk of the code under test does not end there)
	{
		let map: std::collections::BTreeMap<&str, &Vec<String>> = inh_y.iter().map(|(k, v)| (k.as_str(), v)).collect();
		fn cyclic<'a>(map: &std::collections::BTreeMap<&'a str, &'a Vec<String>>, node: &'a str, path: &mut Vec<&'a str>, done: &mut std::collections::BTreeSet<&'a str>) -> bool {
			if path.contains(&node) {
				return true;
			}
			if !done.insert(node) {
				return false;
			}
			path.push(node);
			let r = map.get(node).map_or(false, |sup| sup.iter().any(|s| cyclic(map, s.as_str(), path, done)));
			path.pop();
			r
		}
		let mut done = std::collections::BTreeSet::new();
		for (k, _) in &inh_y {
			if cyclic(&map, k.as_str(), &mut Vec::new(), &mut done) {
				collision = true;
			}
		}
	}
	if collision {
		// an unmapped name of X coincides with a Y name: the translated graph is ambiguous by nature
		obs.label("translated_graph_collision");
	} else {
		let got_y: Vec<(String, Vec<String>)> = y_prov
			.iter()
			.flat_map(|p| p.super_classes.iter())
			.map(|(k, v)| (k.as_inner().as_str().unwrap_or("?").to_string(), v.iter().map(|x| x.as_inner().as_str().unwrap_or("?").to_string()).collect()))
			.collect();
		if y_prov.len() != 1 || got_y != inh_y {
			return Err(format!("JarSuperProv::remap gives {got_y:?}, expected every class and super type translated in place: {inh_y:?}\nfrom={} to={} mappings = {m:?}", case.from, case.to));
		}
		obs.label("translated_graph");
		// X -> Y -> X on members: what the forward remapper answers is asked back through the translated graph
		let inh_y_map: Inheritance = inh_y.iter().cloned().collect();
		let ref_back = RefRemapper::new(m, case.to, case.from, &inh_y_map);
		let rb_back = q.remapper_b(to, from, &y_prov[0]).map_err(|e| format!("remapper_b (back) failed: {e:#}"))?;
		for (owner, sup) in case.inh.iter().take(6) {
			let _ = sup;
			let owner_y = reference.map_class(owner);
			let oy = class_name(&owner_y).map_err(|e| format!("harness: {e:#}"))?;
			for (is_method, name, desc) in members.iter().take(12) {
				let (n_y, d_y) = reference.map_member(owner, name, desc, *is_method, Search::Dfs);
				if n_y.is_empty() || reference.map_member(owner, name, desc, *is_method, Search::Bfs) != (n_y.clone(), d_y.clone()) {
					continue;
				}
				let want_dfs = ref_back.map_member(&owner_y, &n_y, &d_y, *is_method, Search::Dfs);
				let want_bfs = ref_back.map_member(&owner_y, &n_y, &d_y, *is_method, Search::Bfs);
				let got: (String, String) = if *is_method {
					let Ok(mn) = MethodName::try_from(js(&n_y)) else { continue };
					let r = rb_back.map_method(&oy, &mn, &MethodDescriptor::try_from(js(&d_y)).unwrap()).map_err(|e| format!("map_method back ({owner_y}.{n_y}{d_y}) failed: {e:#}"))?;
					(r.name.as_inner().as_str().unwrap().to_string(), r.desc.as_inner().as_str().unwrap().to_string())
				} else {
					let Ok(fname) = FieldName::try_from(js(&n_y)) else { continue };
					let r = rb_back.map_field(&oy, &fname, &FieldDescriptor::try_from(js(&d_y)).unwrap()).map_err(|e| format!("map_field back ({owner_y}.{n_y} {d_y}) failed: {e:#}"))?;
					(r.name.as_inner().as_str().unwrap().to_string(), r.desc.as_inner().as_str().unwrap().to_string())
				};
				if got != want_dfs && got != want_bfs {
					return Err(format!(
						"{owner}.{name} {desc} maps to {owner_y}.{n_y} {d_y}; asked back through the translated inheritance graph the answer is {got:?}, expected {want_dfs:?}\nmappings = {m:?}\nfrom={} to={} inheritance={:?} translated={inh_y:?}",
						case.from, case.to, case.inh
					));
				}
				obs.label(if got == (name.clone(), desc.clone()) { "member_round_trip:identity" } else { "member_round_trip:not_injective" });
			}
		}
	}
	obs.label(format!("ns={N},from={},to={}", case.from, case.to));
	obs.label_if(case.from != 0, "from_not_first");
	obs.nontrivial_if(through_super || two_segments);
	Ok(())
}

/// the convenience constructors of two-namespace sets must answer like remapper_a/b(0, 1) (dukenest and the jar
/// remapping of the build go through them)
fn first_to_second(case: &Case, obs: &mut Obs) -> PropResult {
	let m = &case.m;
	let q = to_quill::<2, Ns>(m, case.order).map_err(|e| format!("harness: {e:#}"))?;
	let inh_map: Inheritance = case.inh.iter().cloned().collect();
	let provider = prov(&case.inh)?;
	let ra = q.remapper_a_first_to_second().map_err(|e| format!("remapper_a_first_to_second failed: {e:#}"))?;
	let rb = q.remapper_b_first_to_second(&provider).map_err(|e| format!("remapper_b_first_to_second failed: {e:#}"))?;
	let reference = RefRemapper::new(m, 0, 1, &inh_map);
	for c in m.classes.values() {
		for col in 0..2 {
			let Some(name) = &c.names[col] else { continue };
			let cn = class_name(name).map_err(|e| format!("harness: {e:#}"))?;
			let exp = reference.map_class(name);
			for (which, got) in [("remapper_a_first_to_second", ra.map_class(&cn)), ("remapper_b_first_to_second", rb.map_class(&cn))] {
				let got = got.map_err(|e| format!("{which}.map_class({name}) failed: {e:#}"))?;
				if got.as_inner() != exp.as_str() {
					return Err(format!("{which}.map_class({name}) = {got}, expected {exp}\nmappings = {m:?}"));
				}
			}
		}
	}
	obs.label("first_to_second_constructors");
	Ok(())
}

fn dispatch(case: &Case, obs: &mut Obs) -> PropResult {
	match case.m.n() {
		2 => {
			first_to_second(case, obs)?;
			check::<2>(case, obs)
		}
		3 => check::<3>(case, obs),
		4 => check::<4>(case, obs),
		n => Err(format!("harness: unsupported namespace count {n}")),
	}
}

pub fn run(ctx: &mut Ctx) {
	ctx.rule = "mapping sets with 2..4 namespaces (class names injective per namespace, member keys shared across classes so that shadowing occurs, missing names) x every ordered pair from!=to x generated inheritance DAGs (mapped classes, unmapped intermediate classes, supers outside the graph, diamonds) x class, descriptor and member queries, compared with a reference remapper written from the statement; X->Y->X identity on classes and descriptors. Where depth-first declaration order and nearest-by-depth disagree either answer is accepted. Non-trivial = a member resolved through >=1 super type, or a descriptor with >=2 class segments that changes; distinct by hash of the serialised case".into();
	ctx.assume("inheritance graphs are acyclic (Java forbids cycles)");
	ctx.assume("within one class a (name, descriptor) pair names one member in every namespace");
	ctx.assume("class names are injective per namespace (otherwise the answer for a name is ambiguous by nature)");
	ctx.run_sub("remapper", ctx.tier.pick(96000, 1000000), strategy, dispatch);
}
