//! C10 — dummy-mapping filters remove exactly the placeholder entries.

use crate::engine::{Ctx, Obs, PropResult};
use crate::mapmodel::conv::{diff_from_quill, diff_to_quill, from_quill, to_quill};
use crate::mapmodel::gen::{draws, edit, mapset, order_seed, GenCfg, TargetStyle};
use crate::mapmodel::refops;
use crate::mapmodel::{Act, DiffSet, MapSet};
use proptest::prelude::*;
use serde::{Deserialize, Serialize};

struct Ns;

#[derive(Clone, Debug, Serialize, Deserialize)]
pub struct Case {
	pub m: MapSet,
	pub ns: usize,
	pub order: u64,
}

fn strategy() -> impl Strategy<Value = Case> {
	let cfg = GenCfg { ns_min: 2, ns_max: 3, p_missing: 15, style: TargetStyle::Arbitrary, max_classes: 6, backslash_docs: true, lone_surrogates: true, ..GenCfg::default() };
	(mapset(cfg), any::<u8>(), order_seed()).prop_map(|(mut m, ns, order)| {
		let ns = (ns as usize) % m.ns.len();
		// one case in five: a childless, comment-less class whose name only *contains* the placeholder package path - the path
		// twice in front of `C_`, or in front of another package - and one that really is a placeholder, for comparison
		if order % 5 == 0 {
			for (i, name) in ["net/minecraft/unmapped/net/minecraft/unmapped/C_5", "net/minecraft/unmapped/x/C_6", "x/net/minecraft/unmapped/C_7", "net/minecraft/unmapped/C_8"].iter().enumerate() {
				let mut names: crate::mapmodel::Names = vec![None; m.ns.len()];
				names[0] = Some(format!("rep/K{i}"));
				names[ns] = Some(name.to_string());
				m.classes.entry(names[0].clone().unwrap()).or_insert(crate::mapmodel::MClass { names, ..Default::default() });
			}
		}
		Case { m, ns, order }
	})
}

fn is_subset_unchanged(out: &MapSet, input: &MapSet) -> Result<(), String> {
	for (ck, c) in &out.classes {
		let ic = input.classes.get(ck).ok_or_else(|| format!("output invented class {ck}"))?;
		if c.names != ic.names || c.doc != ic.doc {
			return Err(format!("retained class {ck} was changed"));
		}
		for (fk, f) in &c.fields {
			if ic.fields.get(fk) != Some(f) {
				return Err(format!("retained field {fk:?} of {ck} was changed or invented"));
			}
		}
		for (mk, me) in &c.methods {
			let im = ic.methods.get(mk).ok_or_else(|| format!("output invented method {mk:?}"))?;
			if me.names != im.names || me.doc != im.doc {
				return Err(format!("retained method {mk:?} of {ck} was changed"));
			}
			for (pk, p) in &me.params {
				if im.params.get(pk) != Some(p) {
					return Err(format!("retained parameter {pk} of {mk:?} was changed or invented"));
				}
			}
		}
	}
	Ok(())
}

fn check_remove<const N: usize>(case: &Case, obs: &mut Obs) -> PropResult {
	let m = &case.m;
	let q = to_quill::<N, Ns>(m, case.order).map_err(|e| format!("harness: {e:#}"))?;
	let got = q.remove_dummy(&m.ns[case.ns]).map_err(|e| format!("remove_dummy failed: {e:#}"))?;
	let got_m = from_quill(&got).map_err(|e| format!("result inconsistent: {e:#}"))?;
	let expected = refops::remove_dummy(m, case.ns);
	if got_m != expected {
		return Err(format!("remove_dummy({}) differs from the documented rules\ninput    = {m:?}\nexpected = {expected:?}\ngot      = {got_m:?}", m.ns[case.ns]));
	}
	// laws that do not depend on the reference
	is_subset_unchanged(&got_m, m)?;
	let again = got.clone().remove_dummy(&m.ns[case.ns]).map_err(|e| format!("second remove_dummy failed: {e:#}"))?;
	if from_quill(&again).map_err(|e| format!("{e:#}"))? != got_m {
		return Err("remove_dummy is not idempotent".into());
	}
	let removed = m.count_entries() - got_m.count_entries();
	let placeholder_kept_for_child = got_m.classes.values().any(|c| {
		let ph = c.names[case.ns].as_deref().is_some_and(|n| n.starts_with("C_") || n.starts_with("net/minecraft/unmapped/C_"));
		(ph && (c.doc.is_some() || !c.fields.is_empty() || !c.methods.is_empty()))
			|| c.methods.values().any(|me| me.names[case.ns].as_deref().is_some_and(|n| n.starts_with("m_") || n == "<init>" || n == "<clinit>") && (me.doc.is_some() || !me.params.is_empty()))
			|| c.fields.values().any(|f| f.names[case.ns].as_deref().is_some_and(|n| n.starts_with("f_")) && f.doc.is_some())
	});
	obs.label_if(removed > 0, "something_removed");
	obs.label_if(placeholder_kept_for_child, "placeholder_kept_for_child_or_comment");
	obs.label(format!("ns_index={}", case.ns));
	let contains_not_prefix = m.classes.values().any(|c| {
		c.names[case.ns].as_deref().is_some_and(|n| n.contains("C_") && !n.starts_with("C_") && !n.starts_with("net/minecraft/unmapped/C_"))
			|| c.fields.values().any(|f| f.names[case.ns].as_deref().is_some_and(|n| n.contains("f_") && !n.starts_with("f_")))
	});
	obs.label_if(contains_not_prefix, "name_contains_prefix_inside");
	obs.nontrivial_if(removed > 0 && placeholder_kept_for_child);
	Ok(())
}

fn dispatch_remove(case: &Case, obs: &mut Obs) -> PropResult {
	match case.m.n() {
		2 => check_remove::<2>(case, obs),
		3 => check_remove::<3>(case, obs),
		n => Err(format!("harness: unsupported namespace count {n}")),
	}
}

// ---------------------------------------------------------------------------------------------

#[derive(Clone, Debug, Serialize, Deserialize)]
pub struct DiffCase {
	pub d: DiffSet,
	pub order: u64,
}

fn diff_strategy() -> impl Strategy<Value = DiffCase> {
	let cfg = GenCfg { ns_min: 2, ns_max: 2, p_missing: 10, style: TargetStyle::Arbitrary, max_classes: 5, backslash_docs: true, ..GenCfg::default() };
	(mapset(cfg), draws(), draws(), draws(), order_seed()).prop_map(|(base, s1, s2, s3, order)| {
		let a = edit(&base, 1, &s1);
		let b = edit(&base, 1, &s2);
		// diff of two related sets (all four actions at all levels), then sprinkle None nodes / Edit(x,x)
		let mut full_a = a.clone();
		let mut full_b = b.clone();
		fill_names(&mut full_a);
		fill_names(&mut full_b);
		// one case in six: the diff also adds a class with 40 fields, 40 methods (each with two parameters) - far more
		// additions than any per-run budget of a few dozen
		if s3.len() % 67 == 13 {
			let mut c = crate::mapmodel::MClass { names: vec![Some("bulk/Added".into()), Some("bulk/AddedNamed".into())], ..Default::default() };
			for k in 0..40usize {
				c.fields.insert(crate::mapmodel::MemberKey::new(&format!("bf{k}"), "I"), crate::mapmodel::MField { names: vec![Some(format!("bf{k}")), Some(format!("f_{k}"))], doc: None });
				let mut me = crate::mapmodel::MMethod { names: vec![Some(format!("bm{k}")), Some(if k % 2 == 0 { format!("m_{k}") } else { format!("named{k}") })], doc: None, params: Default::default() };
				for i in 0..2usize {
					me.params.insert(i, crate::mapmodel::MParam { names: vec![None, Some(format!("p_{i}"))], doc: None });
				}
				c.methods.insert(crate::mapmodel::MemberKey::new(&format!("bm{k}"), "(II)V"), me);
			}
			full_b.classes.insert("bulk/Added".into(), c.clone());
			// and 40 fields added to a class both sides have
			if let Some(shared) = full_b.classes.keys().find(|k| full_a.classes.contains_key(*k)).cloned() {
				let tc = full_b.classes.get_mut(&shared).unwrap();
				for k in 0..40usize {
					tc.fields.entry(crate::mapmodel::MemberKey::new(&format!("extra{k}"), "J")).or_insert(crate::mapmodel::MField { names: vec![Some(format!("extra{k}")), Some(format!("extraNamed{k}"))], doc: None });
				}
			}
		}
		let mut d = refops::diff(&full_a, &full_b).unwrap_or_default();
		let mut dr = crate::mapmodel::gen::Draws::new(&s3);
		for c in d.classes.values_mut() {
			if dr.pct(20) {
				c.act = Act::None;
			}
			for f in c.fields.values_mut() {
				if dr.pct(20) {
					f.act = Act::None;
				}
			}
			for m in c.methods.values_mut() {
				if dr.pct(20) {
					m.act = Act::None;
				}
				for p in m.params.values_mut() {
					if dr.pct(20) {
						p.act = Act::None;
					}
				}
			}
		}
		DiffCase { d, order }
	})
}

fn fill_names(m: &mut MapSet) {
	for c in m.classes.values_mut() {
		if c.names[1].is_none() {
			c.names[1] = c.names[0].clone();
		}
		for f in c.fields.values_mut() {
			if f.names[1].is_none() {
				f.names[1] = f.names[0].clone();
			}
		}
		for me in c.methods.values_mut() {
			if me.names[1].is_none() {
				me.names[1] = me.names[0].clone();
			}
			for (i, p) in me.params.iter_mut() {
				if p.names[1].is_none() {
					p.names[1] = Some(format!("p_{i}"));
				}
			}
		}
	}
}

fn check_insert(case: &DiffCase, obs: &mut Obs) -> PropResult {
	let q = diff_to_quill(&case.d, case.order).map_err(|e| format!("harness: {e:#}"))?;
	let got = q.insert_dummy_and_contract_inner_names().map_err(|e| format!("insert_dummy failed: {e:#}"))?;
	let got_d = diff_from_quill(&got).map_err(|e| format!("result inconsistent: {e:#}"))?;
	let expected = refops::insert_dummy(&case.d);
	if got_d != expected {
		return Err(format!("insert_dummy differs from the documented rules\ninput    = {:?}\nexpected = {expected:?}\ngot      = {got_d:?}", case.d));
	}
	// laws independent of the reference
	let mut removes = 0;
	for (ck, c) in &got_d.classes {
		let ic = case.d.classes.get(ck).ok_or_else(|| format!("output invented class {ck}"))?;
		if matches!(c.act, Act::Remove(_)) {
			return Err(format!("a removal of class {ck} survived"));
		}
		if let (Act::Remove(a), Act::Edit(x, y)) = (&ic.act, &c.act) {
			removes += 1;
			let simple = crate::mapmodel::split_inner(ck).map(|s| s.1).unwrap_or(ck);
			if x != a || y != simple {
				return Err(format!("removal of class {ck} became {:?}, expected edit back to {simple}", c.act));
			}
		}
		let childless = c.fields.is_empty() && c.methods.is_empty();
		if childless && !(c.act.is_change() || c.doc.is_change()) {
			return Err(format!("class node {ck} changes nothing and has no children but survived"));
		}
		if childless && matches!(c.act, Act::Add(_)) {
			return Err(format!("addition of class {ck} without children survived"));
		}
		for (fk, f) in &c.fields {
			let inf = ic.fields.get(fk).ok_or_else(|| format!("output invented field {fk:?}"))?;
			match (&inf.act, &f.act) {
				(_, Act::Add(_)) | (_, Act::Remove(_)) => return Err(format!("field {fk:?}: action {:?} survived", f.act)),
				(Act::Remove(a), Act::Edit(x, y)) => {
					removes += 1;
					if x != a || y != &fk.name {
						return Err(format!("removal of field {fk:?} became {:?}", f.act));
					}
				}
				_ => {}
			}
			if !(f.act.is_change() || f.doc.is_change()) {
				return Err(format!("field node {fk:?} changes nothing but survived"));
			}
		}
		for (mk, me) in &c.methods {
			let im = ic.methods.get(mk).ok_or_else(|| format!("output invented method {mk:?}"))?;
			if matches!(me.act, Act::Remove(_)) {
				return Err(format!("a removal of method {mk:?} survived"));
			}
			if let (Act::Remove(a), Act::Edit(x, y)) = (&im.act, &me.act) {
				removes += 1;
				if x != a || y != &mk.name {
					return Err(format!("removal of method {mk:?} became {:?}", me.act));
				}
			}
			if me.params.is_empty() && (!(me.act.is_change() || me.doc.is_change()) || matches!(me.act, Act::Add(_))) {
				return Err(format!("method node {mk:?} without children survived although it changes nothing or is an addition"));
			}
			for (pk, p) in &me.params {
				let ip = im.params.get(pk).ok_or_else(|| format!("output invented parameter {pk}"))?;
				match (&ip.act, &p.act) {
					(_, Act::Add(_)) | (_, Act::Remove(_)) => return Err(format!("parameter {pk}: action {:?} survived", p.act)),
					(Act::Remove(a), Act::Edit(x, y)) => {
						removes += 1;
						if x != a || y != &format!("p_{pk}") {
							return Err(format!("removal of parameter {pk} became {:?}", p.act));
						}
					}
					_ => {}
				}
				if !(p.act.is_change() || p.doc.is_change()) {
					return Err(format!("parameter node {pk} changes nothing but survived"));
				}
			}
		}
	}
	// nothing that still changes something after the removal->edit rewrite (other than a discarded
	// addition) may be dropped
	fn changes(act: &Act, doc: &Act, placeholder: &str) -> bool {
		let act_changes = match act {
			Act::Add(_) => return false,
			Act::Remove(a) => a != placeholder,
			a => a.is_change(),
		};
		act_changes || doc.is_change()
	}
	for (ck, ic) in &case.d.classes {
		let oc = got_d.classes.get(ck);
		let simple = crate::mapmodel::split_inner(ck).map(|s| s.1).unwrap_or(ck);
		if changes(&ic.act, &ic.doc, simple) && oc.is_none() {
			return Err(format!("class node {ck} changes something but was dropped"));
		}
		for (fk, f) in &ic.fields {
			if changes(&f.act, &f.doc, &fk.name) && !oc.is_some_and(|c| c.fields.contains_key(fk)) {
				return Err(format!("field node {fk:?} of {ck} changes something but was dropped"));
			}
		}
		for (mk, me) in &ic.methods {
			if changes(&me.act, &me.doc, &mk.name) && !oc.is_some_and(|c| c.methods.contains_key(mk)) {
				return Err(format!("method node {mk:?} of {ck} changes something but was dropped"));
			}
			for (pk, p) in &me.params {
				if changes(&p.act, &p.doc, &format!("p_{pk}")) && !oc.and_then(|c| c.methods.get(mk)).is_some_and(|m| m.params.contains_key(pk)) {
					return Err(format!("parameter node {pk} of {mk:?} changes something but was dropped"));
				}
			}
		}
	}
	let again = got.insert_dummy_and_contract_inner_names().map_err(|e| format!("second insert_dummy failed: {e:#}"))?;
	if diff_from_quill(&again).map_err(|e| format!("{e:#}"))? != got_d {
		return Err("insert_dummy is not idempotent".into());
	}
	let dropped = case.d.classes.len() - got_d.classes.len();
	obs.label_if(removes > 0, "removal_turned_into_edit");
	obs.label_if(dropped > 0, "class_node_dropped");
	obs.label_if(case.d.classes.keys().any(|k| crate::mapmodel::split_inner(k).is_some()), "nested_class_key");
	obs.nontrivial_if(removes > 0 && dropped > 0);
	Ok(())
}

pub fn run(ctx: &mut Ctx) {
	ctx.rule = "(i) mapping sets with 2..3 namespaces mixing placeholder names (C_, net/minecraft/unmapped/C_, f_, m_, p_, <init>, <clinit>), names merely containing a prefix, missing names and comments at every depth x every namespace index, compared with the documented rules plus subset/idempotence laws; (ii) diffs with all four actions at all levels compared with the documented diff-side rules plus survival/drop/idempotence laws. Non-trivial = (i) >=1 entry removed and >=1 placeholder entry retained because of a child or comment, (ii) >=1 removal turned into an edit and >=1 class node dropped; distinct by hash of the serialised case".into();
	ctx.run_sub("remove_dummy", ctx.tier.pick(48000, 2000000), strategy, dispatch_remove);
	ctx.run_sub("insert_dummy", ctx.tier.pick(48000, 2000000), diff_strategy, check_insert);
}
