//! C13 — client/server jar merge is a faithful, annotated union.

use crate::classfile::encode::{encode, Choices};
use crate::classfile::gen::{class_from_stream, class_stream};
use crate::classfile::model::*;
use crate::classfile::project::project;
use crate::engine::{idx, Ctx, Obs, PropResult};
use crate::jar::{build_jar, list_zip, Entry};
use crate::props::c01::first_diff;
use dukebox::storage::{ClassRepr, JarEntryEnum};
use proptest::prelude::*;
use serde::{Deserialize, Serialize};
use std::collections::{BTreeMap, BTreeSet};

const ENV: &str = "Lnet/fabricmc/api/Environment;";
const ENV_TYPE: &str = "Lnet/fabricmc/api/EnvType;";
const ENV_ITF: &str = "Lnet/fabricmc/api/EnvironmentInterface;";
const ENV_ITFS: &str = "Lnet/fabricmc/api/EnvironmentInterfaces;";

#[derive(Clone, Copy, Debug, PartialEq, Eq, Serialize, Deserialize)]
pub enum Presence {
	ClientOnly,
	ServerOnly,
	Identical,
	Different,
}

#[derive(Clone, Debug, Serialize, Deserialize)]
pub struct ListPlan {
	/// which pool elements the client has / the server has
	pub client: Vec<bool>,
	pub server: Vec<bool>,
	/// server order: 0 = pool order (compatible), otherwise a rotation / reversal of the server's list
	pub scramble: u8,
}

#[derive(Clone, Debug, Serialize, Deserialize)]
pub struct ClassPlan {
	pub stream: Vec<u8>,
	pub presence: Presence,
	pub fields: ListPlan,
	pub methods: ListPlan,
	pub interfaces: ListPlan,
}

#[derive(Clone, Debug, Serialize, Deserialize)]
pub struct Case {
	pub classes: Vec<ClassPlan>,
	/// resources: presence per resource 0 client, 1 server, 2 both equal, 3 both different
	pub resources: Vec<u8>,
	pub parsed: bool,
	/// both jars go through the zip layer before they are merged (entries then come with the sizes and check sums of the
	/// archive); the jars then also hold a class that differs between the sides in a few bytes only - same length, same CRC-32
	#[serde(default)]
	pub zip: bool,
}

fn list_plan(n: usize) -> impl Strategy<Value = ListPlan> {
	(proptest::collection::vec(prop_oneof![3 => Just(true), 1 => Just(false)], n), proptest::collection::vec(prop_oneof![3 => Just(true), 1 => Just(false)], n), prop_oneof![6 => Just(0u8), 1 => 1u8..4]).prop_map(|(client, server, scramble)| ListPlan { client, server, scramble })
}

fn strategy() -> impl Strategy<Value = Case> {
	let class = (class_stream(), prop_oneof![1 => Just(Presence::ClientOnly), 1 => Just(Presence::ServerOnly), 1 => Just(Presence::Identical), 3 => Just(Presence::Different)], list_plan(6), list_plan(6), list_plan(4))
		.prop_map(|(stream, presence, fields, methods, interfaces)| ClassPlan { stream, presence, fields, methods, interfaces });
	(proptest::collection::vec(class, 1..=7), proptest::collection::vec(0u8..4, 6), any::<bool>(), prop_oneof![2 => Just(false), 1 => Just(true)]).prop_map(|(classes, resources, parsed, zip)| Case { classes, resources, parsed: parsed && !zip, zip })
}

/// the last two sit in packages that merely *start with the characters* `net/minecraft`: bundled libraries like `com/lib/L`
pub const CLASS_ENTRY_NAMES: &[&str] = &["net/minecraft/A", "net/minecraft/sub/B", "C", "com/lib/L", "net/minecraft/D$1", "net/minecraftforge/fml/H", "net/minecraftx"];
const ITF_POOL: &[&str] = &["java/lang/Runnable", "net/minecraft/I1", "net/minecraft/I2", "x/I3"];

fn pick<T: Clone>(pool: &[T], mask: &[bool]) -> Vec<T> {
	pool.iter().enumerate().filter(|(i, _)| mask.get(*i).copied().unwrap_or(false)).map(|(_, x)| x.clone()).collect()
}

fn scramble<T: Clone>(v: Vec<T>, how: u8) -> Vec<T> {
	let mut v = v;
	match how {
		0 => {}
		1 => v.reverse(),
		2 => {
			if !v.is_empty() {
				v.rotate_left(1)
			}
		}
		_ => {
			if v.len() >= 2 {
				let n = v.len();
				v.swap(0, n - 1)
			}
		}
	}
	v
}

/// base class with pools of 6 distinct fields, 6 distinct methods; returns (client model, server model)
fn variants(k: usize, plan: &ClassPlan) -> (CClass, CClass) {
	let mut base = class_from_stream(&plan.stream, 6, 12);
	base.name = CLASS_ENTRY_NAMES[k].to_string();
	base.attrs.retain(|a| !matches!(a, Attr::Record(_) | Attr::PermittedSubclasses(_) | Attr::Module(_) | Attr::ModulePackages(_) | Attr::ModuleMainClass(_) | Attr::InnerClasses(_)));
	// distinct keys, at least six of each
	let mut seen = BTreeSet::new();
	base.fields.retain(|f| seen.insert((f.name.clone(), f.desc.clone())));
	let mut i = 0;
	while base.fields.len() < 6 {
		base.fields.push(CMember { access: 2, name: format!("pf{i}"), desc: "I".into(), attrs: vec![] });
		i += 1;
	}
	let mut seen = BTreeSet::new();
	base.methods.retain(|m| seen.insert((m.name.clone(), m.desc.clone())));
	let mut i = 0;
	while base.methods.len() < 6 {
		let code = Code { max_stack: 1, max_locals: 1, insns: vec![Insn::Bipush(i as i8), Insn::Simple(87), Insn::Simple(177)], exceptions: vec![], attrs: vec![] };
		base.methods.push(CMember { access: 1, name: format!("pm{i}"), desc: "()V".into(), attrs: vec![Attr::Code(code)] });
		i += 1;
	}
	// one class in four already carries side annotations of its own - on the class and on every second member, naming
	// CLIENT or SERVER whatever side the item will turn out to be on (an earlier merge, a hand-written annotation): the
	// mark of the merge is still due
	let pre = plan.stream.iter().fold(0u32, |a, b| a.wrapping_mul(31).wrapping_add(*b as u32));
	if pre % 4 == 0 {
		let side = |k: u32| if (pre >> 3).wrapping_add(k) % 2 == 0 { "SERVER" } else { "CLIENT" };
		base.attrs = with_annotation(&base.attrs, true, side_annotation(side(0)));
		for (k, m) in base.fields.iter_mut().chain(base.methods.iter_mut()).enumerate() {
			if k % 2 == 0 {
				m.attrs = with_annotation(&m.attrs, false, side_annotation(side(k as u32)));
			}
		}
	}
	let itfs: Vec<String> = ITF_POOL.iter().map(|s| s.to_string()).collect();
	let mut c = base.clone();
	let mut s = base.clone();
	c.fields = pick(&base.fields, &plan.fields.client);
	c.methods = pick(&base.methods, &plan.methods.client);
	c.interfaces = pick(&itfs, &plan.interfaces.client);
	s.fields = scramble(pick(&base.fields, &plan.fields.server), plan.fields.scramble);
	s.methods = scramble(pick(&base.methods, &plan.methods.server), plan.methods.scramble);
	s.interfaces = scramble(pick(&itfs, &plan.interfaces.server), plan.interfaces.scramble);
	(c, s)
}

fn crc32_table() -> [u32; 256] {
	let mut t = [0u32; 256];
	for i in 0..256u32 {
		let mut c = i;
		for _ in 0..8 {
			c = if c & 1 != 0 { 0xEDB8_8320 ^ (c >> 1) } else { c >> 1 };
		}
		t[i as usize] = c;
	}
	t
}

fn crc32(data: &[u8]) -> u32 {
	let t = crc32_table();
	!data.iter().fold(!0u32, |c, b| t[((c ^ *b as u32) & 0xff) as usize] ^ (c >> 8))
}

/// overwrites data[pos..pos + 4] so that crc32(data) == target
fn forge_crc32(data: &mut [u8], pos: usize, target: u32) {
	let t = crc32_table();
	// register in front of the four bytes
	let before = data[..pos].iter().fold(!0u32, |c, b| t[((c ^ *b as u32) & 0xff) as usize] ^ (c >> 8));
	// register the four bytes have to leave behind: run the tail backwards from the wanted end value
	let unstep = |c: u32, b: u8| -> u32 {
		let idx = (0..256usize).find(|i| t[*i] >> 24 == c >> 24).unwrap();
		((c ^ t[idx]) << 8) | (idx as u32 ^ b as u32)
	};
	let mut after = !target;
	for b in data[pos + 4..].iter().rev() {
		after = unstep(after, *b);
	}
	// four reverse steps over zero bytes give the register that equals `before ^ bytes`
	let mut c = after;
	for _ in 0..4 {
		c = unstep(c, 0);
	}
	let patch = (c ^ before).to_le_bytes();
	data[pos..pos + 4].copy_from_slice(&patch);
}

fn side_annotation(side: &str) -> Annotation {
	Annotation { ty: ENV.into(), pairs: vec![("value".into(), ElementValue::Enum { ty: ENV_TYPE.into(), name: side.into() })] }
}

/// adds `ann` to the (in)visible annotations of an attribute list
fn with_annotation(attrs: &[Attr], visible: bool, ann: Annotation) -> Vec<Attr> {
	let mut out = attrs.to_vec();
	for a in out.iter_mut() {
		if let Attr::Annotations { visible: v, list } = a {
			if *v == visible {
				list.push(ann);
				return out;
			}
		}
	}
	out.push(Attr::Annotations { visible, list: vec![ann] });
	out
}

/// the common elements appear in the same relative order on both sides
fn compatible<T: PartialEq>(a: &[T], b: &[T]) -> bool {
	let ca: Vec<&T> = a.iter().filter(|x| b.contains(x)).collect();
	let cb: Vec<&T> = b.iter().filter(|x| a.contains(x)).collect();
	ca == cb
}

fn check_order<T: PartialEq + Clone + std::fmt::Debug>(what: &str, got: &[T], client: &[T], server: &[T], obs: &mut Obs) -> PropResult {
	// union exactly once
	for (i, x) in got.iter().enumerate() {
		if got[..i].contains(x) {
			return Err(format!("{what}: {x:?} occurs twice in the merged class: {got:?}"));
		}
		if !client.contains(x) && !server.contains(x) {
			return Err(format!("{what}: {x:?} is on neither side"));
		}
	}
	for x in client.iter().chain(server.iter()) {
		if !got.contains(x) {
			return Err(format!("{what}: {x:?} is missing from the merged class (client {client:?}, server {server:?}, merged {got:?})"));
		}
	}
	let proj = |side: &[T]| -> Vec<T> { got.iter().filter(|x| side.contains(x)).cloned().collect() };
	if proj(client) != client {
		return Err(format!("{what}: client order {client:?} is not preserved in {got:?}"));
	}
	if compatible(client, server) {
		obs.label(format!("{what}:compatible_orders"));
		if proj(server) != server {
			return Err(format!("{what}: the orders of client {client:?} and server {server:?} are compatible, but the server order is not preserved in {got:?}"));
		}
	} else {
		obs.label(format!("{what}:scrambled_orders"));
	}
	Ok(())
}

fn check(case: &Case, obs: &mut Obs) -> PropResult {
	let ch = Choices::default();
	let mut client: Vec<(String, Entry)> = vec![("META-INF/MANIFEST.MF".into(), Entry::Other(b"Manifest-Version: 1.0\nX: client\n".to_vec())), ("net/".into(), Entry::Dir)];
	let mut server: Vec<(String, Entry)> = vec![("META-INF/MANIFEST.MF".into(), Entry::Other(b"Manifest-Version: 1.0\nX: server\n".to_vec())), ("net/".into(), Entry::Dir)];
	client.push(("META-INF/MOJANGCS.SF".into(), Entry::Other(b"sig".to_vec())));
	client.push(("META-INF/MOJANGCS.RSA".into(), Entry::Other(b"rsa".to_vec())));
	server.push(("META-INF/OTHER.SF".into(), Entry::Other(b"sig2".to_vec())));
	// signer aliases containing dots: the extension is what follows the *last* dot
	client.push(("META-INF/CODESIGN.V2.SF".into(), Entry::Other(b"sig3".to_vec())));
	server.push(("META-INF/MOJANG_C.1.RSA".into(), Entry::Other(b"rsa2".to_vec())));
	client.push(("META-INF/A.B.C.RSA".into(), Entry::Other(b"rsa3".to_vec())));
	server.push(("META-INF/A.B.C.RSA".into(), Entry::Other(b"rsa3".to_vec())));
	struct Info {
		presence: Presence,
		c: Option<(CClass, Vec<u8>)>,
		s: Option<(CClass, Vec<u8>)>,
	}
	let mut infos: BTreeMap<String, Info> = BTreeMap::new();
	for (k, plan) in case.classes.iter().enumerate().take(CLASS_ENTRY_NAMES.len()) {
		let (cm, sm) = variants(k, plan);
		let name = format!("{}.class", cm.name);
		let enc = |m: &CClass| encode(m, &ch).ok().map(|e| e.bytes);
		let (cb, sb) = match plan.presence {
			Presence::ClientOnly => (enc(&cm), None),
			Presence::ServerOnly => (None, enc(&sm)),
			Presence::Identical => {
				let b = enc(&cm);
				(b.clone(), b)
			}
			Presence::Different => (enc(&cm), enc(&sm)),
		};
		if cb.is_none() && sb.is_none() {
			obs.label("class_not_encodable");
			continue;
		}
		if plan.presence == Presence::Different && (cb.is_none() || sb.is_none()) {
			continue;
		}
		// what duke reads is the input
		let read = |b: &Vec<u8>| -> Result<CClass, String> { project(&duke::read_class(&mut std::io::Cursor::new(b)).map_err(|e| format!("duke::read_class rejected a well-formed class file: {e:#}"))?).map(|m| m.canon()).map_err(|e| format!("harness: {e}")) };
		let mut info = Info { presence: plan.presence, c: None, s: None };
		if let Some(b) = &cb {
			client.push((name.clone(), Entry::Class(b.clone())));
			info.c = Some((read(b)?, b.clone()));
		}
		if let Some(b) = &sb {
			server.push((name.clone(), Entry::Class(b.clone())));
			info.s = Some((read(b)?, if plan.presence == Presence::Identical { cb.clone().unwrap() } else { b.clone() }));
		}
		if plan.presence == Presence::Different && cb == sb {
			info.presence = Presence::Identical;
		}
		infos.insert(name, info);
	}
	// near misses of the signature-file rule (META-INF/*.SF, META-INF/*.RSA) must be kept like any other resource
	let res_names = ["assets/a.png", "META-INF/services/x.Provider", "pack.RSA", "assets/keys/MOJANGCS.SF", "META-INF/notice.SF.txt", "log4j2.xml"];
	let mut res_expect: BTreeMap<String, Option<Vec<u8>>> = BTreeMap::new();
	for (i, r) in case.resources.iter().enumerate().take(res_names.len()) {
		let n = res_names[i].to_string();
		let cdata = format!("client-{i}").into_bytes();
		let sdata = format!("server-{i}").into_bytes();
		match r {
			0 => {
				client.push((n.clone(), Entry::Other(cdata.clone())));
				res_expect.insert(n, Some(cdata));
			}
			1 => {
				server.push((n.clone(), Entry::Other(sdata.clone())));
				res_expect.insert(n, Some(sdata));
			}
			2 => {
				client.push((n.clone(), Entry::Other(cdata.clone())));
				server.push((n.clone(), Entry::Other(cdata.clone())));
				res_expect.insert(n, Some(cdata));
			}
			_ => {
				client.push((n.clone(), Entry::Other(cdata)));
				server.push((n.clone(), Entry::Other(sdata)));
				res_expect.insert(n, None); // which side wins is not stated
			}
		}
	}

	if case.zip {
		// two versions of one class that differ (the client has the field `pf0`, the server has `pg0`) but have the same
		// length and - four bytes of an unknown attribute of the server's version are chosen for it - the same CRC-32
		let name = "net/minecraft/SameSizeSameCrc.class".to_string();
		if !infos.contains_key(&name) {
			let model = |field: &str, pad: [u8; 8]| CClass { minor: 0, major: 52, access: 0x21, name: "net/minecraft/SameSizeSameCrc".into(), super_class: Some("java/lang/Object".into()), interfaces: vec![], fields: vec![CMember { access: 2, name: "both".into(), desc: "I".into(), attrs: vec![] }, CMember { access: 2, name: field.into(), desc: "I".into(), attrs: vec![] }], methods: vec![], attrs: vec![Attr::Unknown { name: "Pad".into(), bytes: pad.to_vec() }] };
			let marker = [0xCA, 0xFE, 0xF0, 0x0D, 0x11, 0x22, 0x33, 0x44];
			let cb = encode(&model("pf0", marker), &Choices::default()).map_err(|e| format!("harness: {e:?}"))?.bytes;
			let mut sb = encode(&model("pg0", marker), &Choices::default()).map_err(|e| format!("harness: {e:?}"))?.bytes;
			if let (true, Some(pos)) = (cb.len() == sb.len(), sb.windows(8).position(|w| w == marker)) {
				forge_crc32(&mut sb, pos + 4, crc32(&cb));
				if crc32(&sb) == crc32(&cb) && sb != cb {
					let read = |b: &Vec<u8>| -> Result<CClass, String> { project(&duke::read_class(&mut std::io::Cursor::new(b)).map_err(|e| format!("duke::read_class rejected a well-formed class file: {e:#}"))?).map(|m| m.canon()).map_err(|e| format!("harness: {e}")) };
					client.push((name.clone(), Entry::Class(cb.clone())));
					server.push((name.clone(), Entry::Class(sb.clone())));
					infos.insert(name, Info { presence: Presence::Different, c: Some((read(&cb)?, cb)), s: Some((read(&sb)?, sb)) });
					obs.label("differing_class_with_equal_size_and_crc32");
				}
			}
		}
	}
	if case.classes.len() % 4 == 1 {
		// a class with 300 methods on either side (more than 512 list entries together): the same methods, two of them swapped
		// on the server, five more only on the server, three only on the client
		let name = "net/minecraft/Wide.class".to_string();
		if !infos.contains_key(&name) {
			let method = |n: String| CMember { access: 1, name: n, desc: "()V".into(), attrs: vec![] };
			let mk = |methods: Vec<CMember>| CClass { minor: 0, major: 52, access: 0x0421, name: "net/minecraft/Wide".into(), super_class: Some("java/lang/Object".into()), interfaces: vec![], fields: vec![], methods: methods.into_iter().map(|mut m| { m.access = 0x0401; m }).collect(), attrs: vec![] };
			let mut cm: Vec<CMember> = (0..300).map(|i| method(format!("w{i}"))).collect();
			let mut sm = cm.clone();
			sm.swap(100, 200);
			for (k, at) in [10usize, 150, 151, 250, 299].iter().enumerate() {
				sm.insert(*at + k, method(format!("serverOnly{k}")));
			}
			for (k, at) in [0usize, 120, 299].iter().enumerate() {
				cm.insert(*at + k, method(format!("clientOnly{k}")));
			}
			let cb = encode(&mk(cm), &Choices::default()).map_err(|e| format!("harness: {e:?}"))?.bytes;
			let sb = encode(&mk(sm), &Choices::default()).map_err(|e| format!("harness: {e:?}"))?.bytes;
			let read = |b: &Vec<u8>| -> Result<CClass, String> { project(&duke::read_class(&mut std::io::Cursor::new(b)).map_err(|e| format!("duke::read_class rejected a well-formed class file: {e:#}"))?).map(|m| m.canon()).map_err(|e| format!("harness: {e}")) };
			client.push((name.clone(), Entry::Class(cb.clone())));
			server.push((name.clone(), Entry::Class(sb.clone())));
			infos.insert(name, Info { presence: Presence::Different, c: Some((read(&cb)?, cb)), s: Some((read(&sb)?, sb)) });
			obs.label("differing_class_with_more_than_512_list_entries");
		}
	}
	if case.zip && case.classes.len() % 4 == 0 {
		// a class of more than 1 MiB (an unknown attribute of 1.1 MB), the same on both sides: passed through byte-identical
		let name = "net/minecraft/MoreThanOneMiB.class".to_string();
		if !infos.contains_key(&name) {
			let big = CClass { minor: 0, major: 52, access: 0x21, name: "net/minecraft/MoreThanOneMiB".into(), super_class: Some("java/lang/Object".into()), interfaces: vec![], fields: vec![], methods: vec![], attrs: vec![Attr::Unknown { name: "Blob".into(), bytes: (0..1_100_000u32).map(|i| (i % 251) as u8).collect() }] };
			let b = encode(&big, &Choices::default()).map_err(|e| format!("harness: {e:?}"))?.bytes;
			let model = project(&duke::read_class(&mut std::io::Cursor::new(&b)).map_err(|e| format!("duke::read_class rejected a well-formed class file: {e:#}"))?).map(|m| m.canon()).map_err(|e| format!("harness: {e}"))?;
			client.push((name.clone(), Entry::Class(b.clone())));
			server.push((name.clone(), Entry::Class(b.clone())));
			infos.insert(name, Info { presence: Presence::Identical, c: Some((model.clone(), b.clone())), s: Some((model, b)) });
			obs.label("identical_class_of_more_than_1_MiB");
		}
	}
	let cj = build_jar(&client, case.parsed)?;
	let sj = build_jar(&server, false)?;
	let merged = if case.zip {
		obs.label("input_form:both_jars_as_zip_archives");
		let cz = cj.to_mem().map_err(|e| format!("harness: writing the client jar failed: {e:#}"))?;
		let sz = sj.to_mem().map_err(|e| format!("harness: writing the server jar failed: {e:#}"))?;
		dukebox::merge::merge(cz, sz)
	} else {
		dukebox::merge::merge(cj, sj)
	}
	.map_err(|e| format!("dukebox::merge::merge failed: {e:#}"))?;

	// expected entry names: union, each once, minus signature files and server-only bundled libraries
	let mut want: Vec<String> = Vec::new();
	let is_sig = |n: &str| n.starts_with("META-INF/") && (n.ends_with(".SF") || n.ends_with(".RSA"));
	for (n, _) in client.iter() {
		if !is_sig(n) && !want.contains(n) {
			want.push(n.clone());
		}
	}
	for (n, _) in server.iter() {
		let in_client = client.iter().any(|(c, _)| c == n);
		let bundled_library = n.ends_with(".class") && !n.starts_with("net/minecraft/") && n.contains('/');
		if !is_sig(n) && !in_client && !bundled_library && !want.contains(n) {
			want.push(n.clone());
		}
	}
	let got: Vec<String> = merged.entries.keys().cloned().collect();
	let (mut g2, mut w2) = (got.clone(), want.clone());
	g2.sort();
	w2.sort();
	if g2 != w2 {
		return Err(format!("entries of the merged jar are {got:?}, expected (as a set) {want:?}"));
	}

	let mut nontrivial = false;
	for (name, entry) in &merged.entries {
		match &entry.content {
			JarEntryEnum::Dir => {}
			JarEntryEnum::Other(data) => {
				if let Some(Some(exp)) = res_expect.get(name) {
					if data != exp {
						return Err(format!("resource {name} was changed by the merge"));
					}
				}
			}
			JarEntryEnum::Class(repr) => {
				let info = infos.get(name).ok_or_else(|| format!("unexpected class entry {name}"))?;
				let tree_model = |r: &ClassRepr| -> Result<CClass, String> {
					let t = match r {
						ClassRepr::Parsed { class } => class.clone(),
						ClassRepr::Vec { data } => duke::read_class(&mut std::io::Cursor::new(data)).map_err(|e| format!("{e:#}"))?,
					};
					project(&t).map(|m| m.canon()).map_err(|e| format!("harness: {e}"))
				};
				match info.presence {
					Presence::Identical => {
						obs.label("class:identical");
						use dukebox::storage::IsClass;
						let bytes = repr.write().map_err(|e| format!("{e:#}"))?;
						if case.parsed {
							// the client side was handed over as a tree: there are no client bytes to be identical to; the
							// class must still be the same class, without any mark
							let got = tree_model(repr)?;
							let exp = &info.c.as_ref().unwrap().0;
							if got != *exp {
								return Err(format!("class {name} is the same on both sides but changed in the merge: {}", first_diff(exp, &got)));
							}
						} else if bytes.as_ref() != info.c.as_ref().unwrap().1.as_slice() {
							return Err(format!("class {name} is identical on both sides but is not passed through byte-identical"));
						}
					}
					Presence::ClientOnly | Presence::ServerOnly => {
						let (side, input) = if info.presence == Presence::ClientOnly { ("CLIENT", &info.c.as_ref().unwrap().0) } else { ("SERVER", &info.s.as_ref().unwrap().0) };
						obs.label(format!("class:{side}_only"));
						let got = tree_model(repr)?;
						let mut exp = input.clone();
						exp.attrs = with_annotation(&exp.attrs, true, side_annotation(side));
						let exp = exp.canon();
						if got != exp {
							return Err(format!("one-sided class {name} must be the input class plus exactly one Environment({side}) mark: {}", first_diff(&exp, &got)));
						}
					}
					Presence::Different => {
						obs.label("class:merged");
						let c = &info.c.as_ref().unwrap().0;
						let s = &info.s.as_ref().unwrap().0;
						let got = tree_model(repr)?;
						let key = |m: &CMember| (m.name.clone(), m.desc.clone());
						let gk = |l: &[CMember]| l.iter().map(key).collect::<Vec<_>>();
						check_order("fields", &gk(&got.fields), &gk(&c.fields), &gk(&s.fields), obs).map_err(|e| format!("class {name}: {e}"))?;
						check_order("methods", &gk(&got.methods), &gk(&c.methods), &gk(&s.methods), obs).map_err(|e| format!("class {name}: {e}"))?;
						check_order("interfaces", &got.interfaces, &c.interfaces, &s.interfaces, obs).map_err(|e| format!("class {name}: {e}"))?;
						// the members themselves: shared unmarked, one-sided marked with their side
						for (what, gl, cl, sl) in [("field", &got.fields, &c.fields, &s.fields), ("method", &got.methods, &c.methods, &s.methods)] {
							for g in gl.iter() {
								let k = key(g);
								let ic = cl.iter().find(|m| key(m) == k);
								let is = sl.iter().find(|m| key(m) == k);
								let exp = match (ic, is) {
									(Some(m), Some(_)) => m.clone(),
									(Some(m), None) => CMember { attrs: with_annotation(&m.attrs, false, side_annotation("CLIENT")), ..m.clone() },
									(None, Some(m)) => CMember { attrs: with_annotation(&m.attrs, false, side_annotation("SERVER")), ..m.clone() },
									(None, None) => unreachable!(),
								};
								let mut e2 = exp.clone();
								crate::classfile::model::canon_attrs(&mut e2.attrs);
								if *g != e2 {
									let side = match (ic.is_some(), is.is_some()) {
										(true, true) => "shared (must be unmarked)",
										(true, false) => "client-only (must carry Environment(CLIENT))",
										_ => "server-only (must carry Environment(SERVER))",
									};
									return Err(format!("class {name}: {what} {}{} is {side}; expected {e2:?}\n got {g:?}", k.0, k.1));
								}
							}
						}
						// interface marks
						let c_only: BTreeSet<(String, String)> = c.interfaces.iter().filter(|i| !s.interfaces.contains(i)).map(|i| ("CLIENT".to_string(), format!("L{i};"))).collect();
						let s_only: BTreeSet<(String, String)> = s.interfaces.iter().filter(|i| !c.interfaces.contains(i)).map(|i| ("SERVER".to_string(), format!("L{i};"))).collect();
						let want_marks: BTreeSet<(String, String)> = c_only.union(&s_only).cloned().collect();
						let mut got_marks: BTreeSet<(String, String)> = BTreeSet::new();
						let mut n_itfs_ann = 0;
						let mut other_class_attrs: Vec<Attr> = Vec::new();
						for a in &got.attrs {
							if let Attr::Annotations { visible: false, list } = a {
								let mut rest = Vec::new();
								for ann in list {
									if ann.ty == ENV_ITFS {
										n_itfs_ann += 1;
										let Some((_, ElementValue::Array(items))) = ann.pairs.first() else { return Err(format!("class {name}: malformed EnvironmentInterfaces annotation {ann:?}")) };
										for it in items {
											let ElementValue::Annotation(inner) = it else { return Err(format!("class {name}: malformed EnvironmentInterfaces item {it:?}")) };
											if inner.ty != ENV_ITF {
												return Err(format!("class {name}: EnvironmentInterfaces item of type {}", inner.ty));
											}
											let mut side = None;
											let mut itf = None;
											for (n, v) in &inner.pairs {
												match (n.as_str(), v) {
													("value", ElementValue::Enum { ty, name }) if ty == ENV_TYPE => side = Some(name.clone()),
													("itf", ElementValue::Class(c)) => itf = Some(c.clone()),
													_ => return Err(format!("class {name}: unexpected EnvironmentInterface element {n}")),
												}
											}
											let (Some(side), Some(itf)) = (side, itf) else { return Err(format!("class {name}: incomplete EnvironmentInterface annotation {inner:?}")) };
											if !got_marks.insert((side, itf)) {
												return Err(format!("class {name}: an interface is marked twice"));
											}
										}
									} else {
										rest.push(ann.clone());
									}
								}
								if !rest.is_empty() {
									other_class_attrs.push(Attr::Annotations { visible: false, list: rest });
								}
							} else {
								other_class_attrs.push(a.clone());
							}
						}
						if n_itfs_ann > 1 || got_marks != want_marks {
							return Err(format!("class {name}: one-sided interfaces must be marked with their side: expected {want_marks:?}, got {got_marks:?}"));
						}
						// everything else of the class is the (equal) header of the inputs
						let mut exp_head = c.clone();
						exp_head.fields.clear();
						exp_head.methods.clear();
						exp_head.interfaces.clear();
						let mut got_head = got.clone();
						got_head.fields.clear();
						got_head.methods.clear();
						got_head.interfaces.clear();
						got_head.attrs = other_class_attrs;
						let (exp_head, got_head) = (exp_head.canon(), got_head.canon());
						if exp_head != got_head {
							return Err(format!("class {name}: the merged class header differs from the inputs: {}", first_diff(&exp_head, &got_head)));
						}
						let fc = c.fields.iter().filter(|m| !s.fields.iter().any(|x| key(x) == key(m))).count() + c.methods.iter().filter(|m| !s.methods.iter().any(|x| key(x) == key(m))).count();
						let fs = s.fields.iter().filter(|m| !c.fields.iter().any(|x| key(x) == key(m))).count() + s.methods.iter().filter(|m| !c.methods.iter().any(|x| key(x) == key(m))).count();
						let shared = c.fields.iter().filter(|m| s.fields.iter().any(|x| key(x) == key(m))).count() + c.methods.iter().filter(|m| s.methods.iter().any(|x| key(x) == key(m))).count();
						nontrivial |= fc >= 1 && fs >= 1 && shared >= 2;
					}
				}
			}
		}
	}
	// through the zip layer: every entry once, classes well-formed
	let mem = merged.to_mem().map_err(|e| format!("writing the merged jar failed: {e:#}"))?;
	let listed = list_zip(&mem.data)?;
	let mut names: Vec<&String> = listed.iter().map(|x| &x.0).collect();
	names.sort();
	let mut w3: Vec<&String> = want.iter().collect();
	w3.sort();
	if names != w3 {
		return Err(format!("the written merged jar lists {names:?}, expected {w3:?}"));
	}
	for (n, e) in &listed {
		if let Entry::Class(b) = e {
			crate::classfile::decode::decode(b).map_err(|e| format!("class {n} of the written merged jar is not structurally valid: {e}"))?;
		}
	}
	let _ = idx;
	obs.nontrivial_if(nontrivial);
	Ok(())
}

pub fn run(ctx: &mut Ctx) {
	crate::engine::silence_stderr();
	ctx.rule = "pairs of jars over up to five generated classes, each client-only / server-only / identical / different on the two sides; for a differing class the field, method and interface lists of the two sides are sub-selections of a common pool (so: interleavings, prefixes, suffixes, subsequences) with the server order optionally reversed / rotated / swapped (incompatible orders); equal headers and equal shared members; resources client-only / server-only / equal / different, manifest, directory entries, .SF/.RSA files, a server-only library class outside net/minecraft/. Oracle (validity predicates): entry set = union minus signature files minus server-only bundled libraries, each once (in memory and through the zip layer); one-sided class == input + exactly one Environment mark of its side; identical class byte-identical; merged class: members and interfaces = union exactly once, client order preserved, server order preserved when the common elements have the same relative order, one-sided members/interfaces marked with their side, shared ones unmarked, header unchanged. Non-trivial = a merged class with >=1 client-only, >=1 server-only and >=2 shared members; distinct by case hash".into();
	ctx.assume("headers (version, access, super class, class attributes) and shared members are equal on both sides; which side wins otherwise is not stated");
	ctx.assume("record components and permitted subclasses are not generated for classes that differ between the sides (the statement lists fields, methods and interfaces)");
	ctx.run_sub("merge_jars", ctx.tier.pick(36000, 600000), strategy, check);
}
