//! C12 — Enigma files and directories round-trip the mappings they can express.

use crate::engine::{Ctx, Obs, PropResult, Scratch};
use crate::mapmodel::conv::{from_quill, to_quill};
use crate::mapmodel::gen::{mapset, order_seed, GenCfg, TargetStyle};
use crate::mapmodel::{split_inner, text, MapSet};
use proptest::prelude::*;
use quill::tree::mappings::Mappings;
use quill::tree::names::Namespaces;
use serde::{Deserialize, Serialize};
use std::collections::{BTreeMap, BTreeSet};

struct Ns;

#[derive(Clone, Debug, Serialize, Deserialize)]
pub struct Case {
	pub m: MapSet,
	pub order1: u64,
	pub order2: u64,
}

fn strategy(outer_absent: bool) -> impl Strategy<Value = Case> {
	let cfg = GenCfg {
		ns_min: 2,
		ns_max: 2,
		p_missing: 20,
		style: TargetStyle::Extended,
		enigma_safe: true,
		injective: true,
		injective_members: false,
		max_classes: 7,
		p_nested: 55,
		outer_absent,
		backslash_docs: true, ..GenCfg::default()
	};
	(mapset(cfg), order_seed(), order_seed(), any::<u8>()).prop_map(|(mut m, order1, order2, tweak)| {
		// tokens that are special only in a particular position: `ACC:` is a modifier prefix, a target name that merely
		// contains or ends with it is an ordinary name (a tenth of the cases rename members that way)
		if tweak < 26 {
			let suffix = ["ACC:", "xACC:PUBLIC", "-ACC:", "COMMENT"][(tweak % 4) as usize];
			for c in m.classes.values_mut() {
				for n in c.fields.values_mut().map(|f| &mut f.names).chain(c.methods.values_mut().map(|me| &mut me.names)) {
					if let Some(t) = n[1].as_mut() {
						if !t.starts_with('<') {
							t.push_str(suffix);
						}
					}
				}
			}
		}
		// one case in eight: a chain of inner classes 5 ... 40 levels deep below the first top-level class, every level
		// present (indentation in the text = depth)
		if (26..58).contains(&tweak) {
			if let Some((key, dst)) = m.classes.iter().find(|(k, _)| !k.contains('$')).map(|(k, c)| (k.clone(), c.names[1].clone().unwrap_or_else(|| k.clone()))) {
				let depth = [5usize, 12, 15, 16, 17, 18, 20, 33, 40][(tweak % 9) as usize];
				let (mut key, mut dst) = (key, dst);
				for i in 1..=depth {
					key = format!("{key}$d{i}");
					dst = format!("{dst}$D{i}");
					let mut c = crate::mapmodel::MClass { names: vec![Some(key.clone()), Some(dst.clone())], ..Default::default() };
					if i == depth || i % 7 == 0 {
						c.fields.insert(crate::mapmodel::MemberKey::new("deep", "I"), crate::mapmodel::MField { names: vec![Some("deep".into()), Some(format!("deepNamed{i}"))], doc: Some("at the bottom".into()) });
					}
					m.classes.insert(key.clone(), c);
				}
			}
		}
		Case { m, order1, order2 }
	})
}

/// what the format can express: a constructor has no target name
fn norm(m: &MapSet) -> MapSet {
	let mut m = m.clone();
	for c in m.classes.values_mut() {
		for me in c.methods.values_mut() {
			if me.names[1].as_deref() == Some("<init>") {
				me.names[1] = None;
			}
		}
	}
	m
}

/// independent reading of the CLASS structure of enigma text: (full source name, depth) per class
fn class_structure(text: &str) -> Result<Vec<(String, usize)>, String> {
	let mut stack: Vec<String> = Vec::new();
	let mut out = Vec::new();
	for line in text.lines() {
		let depth = line.chars().take_while(|c| *c == '\t').count();
		let rest = &line[depth..];
		if let Some(r) = rest.strip_prefix("CLASS ") {
			let src = r.split(' ').next().unwrap_or("");
			if depth > stack.len() {
				return Err(format!("CLASS line indented deeper than its context: {line:?}"));
			}
			stack.truncate(depth);
			let full = match stack.last() {
				Some(p) => format!("{p}${src}"),
				None => src.to_string(),
			};
			stack.push(full.clone());
			out.push((full, depth));
		}
	}
	Ok(out)
}

fn orphan_present(m: &MapSet) -> bool {
	m.classes.keys().any(|k| split_inner(k).is_some_and(|(p, _)| !m.classes.contains_key(p)))
}

fn check_structure(m: &MapSet, texts: &[&str]) -> PropResult {
	let mut seen: BTreeSet<String> = BTreeSet::new();
	for t in texts {
		let classes = class_structure(t)?;
		for (full, depth) in classes {
			if !seen.insert(full.clone()) {
				return Err(format!("class {full} is written more than once"));
			}
			if !m.classes.contains_key(&full) {
				return Err(format!("text contains class {full} which is not a key of the set (keys: {:?})\n{t}", m.classes.keys().collect::<Vec<_>>()));
			}
			let parent_in_set = split_inner(&full).is_some_and(|(p, _)| m.classes.contains_key(p));
			if parent_in_set != (depth > 0) {
				return Err(format!("class {full}: nested in text = {}, source parent in set = {parent_in_set}", depth > 0));
			}
		}
	}
	for k in m.classes.keys() {
		if !seen.contains(k) {
			return Err(format!("class {k} is missing from the written text"));
		}
	}
	Ok(())
}

fn stream(case: &Case, obs: &mut Obs) -> PropResult {
	let m = &case.m;
	let expected = norm(m);
	let q1 = to_quill::<2, Ns>(m, case.order1).map_err(|e| format!("harness: {e:#}"))?;
	let q2 = to_quill::<2, Ns>(m, case.order2).map_err(|e| format!("harness: {e:#}"))?;
	let mut t1 = Vec::new();
	quill::enigma_file::write_all(&q1, &mut t1).map_err(|e| format!("write_all failed: {e:#}"))?;
	let mut t2 = Vec::new();
	quill::enigma_file::write_all(&q2, &mut t2).map_err(|e| format!("write_all failed: {e:#}"))?;
	if t1 != t2 {
		return Err(format!("output depends on insertion order:\n{}\n---\n{}", String::from_utf8_lossy(&t1), String::from_utf8_lossy(&t2)));
	}
	let text1 = String::from_utf8(t1.clone()).map_err(|_| "output is not UTF-8".to_string())?;
	let mut back: Mappings<2, Ns> = Mappings::from_namespaces([m.ns[0].as_str(), m.ns[1].as_str()]).map_err(|e| format!("{e:#}"))?;
	let orphan = orphan_present(m);
	// history: a read that fails (the text cut at two thirds, into a throw-away set) comes first
	if t1.len() > 12 {
		let mut scratch: Mappings<2, Ns> = Mappings::from_namespaces([m.ns[0].as_str(), m.ns[1].as_str()]).map_err(|e| format!("{e:#}"))?;
		let _ = crate::engine::no_panic(|| quill::enigma_file::read_into(&t1[..t1.len() * 2 / 3], &mut scratch).is_ok());
	}
	let read = quill::enigma_file::read_into(t1.as_slice(), &mut back);
	let structure = check_structure(m, &[&text1]);
	let result: PropResult = (|| {
		read.map_err(|e| format!("reading the written text failed: {e:#}\n{text1}"))?;
		let got = from_quill(&back).map_err(|e| format!("read result inconsistent: {e:#}"))?;
		if got != expected {
			return Err(format!("read(write(M)) != M\nM    = {expected:?}\nback = {got:?}\ntext:\n{text1}"));
		}
		structure
	})();
	if let Err(e) = result {
		if orphan && obs.known("C12-orphan-inner") {
			return Ok(());
		}
		return Err(e);
	}
	// the same through a sink that takes, and a source that hands out, only a few bytes per call
	let mut short = crate::engine::ShortWrites::new();
	quill::enigma_file::write_all(&q1, &mut short).map_err(|e| format!("write_all into a sink with short writes failed: {e:#}"))?;
	if short.out != t1 {
		return Err(format!("write_all() into a sink that takes 1..7 bytes per call delivered {} of {} bytes", short.out.len(), t1.len()));
	}
	let mut back_s: Mappings<2, Ns> = Mappings::from_namespaces([m.ns[0].as_str(), m.ns[1].as_str()]).map_err(|e| format!("{e:#}"))?;
	quill::enigma_file::read_into(crate::engine::ShortReads::new(&t1), &mut back_s).map_err(|e| format!("reading from a source with short reads failed: {e:#}"))?;
	if from_quill(&back_s).map_err(|e| format!("{e:#}"))? != expected {
		return Err("reading from a source with short reads gives another mapping set".into());
	}
	// harness-written enigma text of the same content reads to the same set
	let ht = text::enigma(&expected);
	let mut back2: Mappings<2, Ns> = Mappings::from_namespaces([m.ns[0].as_str(), m.ns[1].as_str()]).map_err(|e| format!("{e:#}"))?;
	quill::enigma_file::read_into(ht.as_bytes(), &mut back2).map_err(|e| format!("reading harness-written enigma text failed: {e:#}\n{ht}"))?;
	let got2 = from_quill(&back2).map_err(|e| format!("{e:#}"))?;
	if got2 != expected {
		return Err(format!("read(harness text) != M\nM = {expected:?}\nback = {got2:?}\ntext:\n{ht}"));
	}
	labels(m, obs, false);
	Ok(())
}

fn labels(m: &MapSet, obs: &mut Obs, dir: bool) {
	let nested = m.classes.keys().filter(|k| split_inner(k).is_some_and(|(p, _)| m.classes.contains_key(p))).count();
	let files = m.classes.len() - nested;
	let multi = m.all_docs().iter().any(|d| d.contains('\n'));
	obs.label_if(nested > 0, "nested_under_parent");
	obs.label_if(orphan_present(m), "inner_class_without_outer");
	obs.label_if(multi, "multi_line_comment");
	obs.label_if(m.all_docs().iter().any(|d| d.contains('#')), "comment_with_hash");
	obs.label_if(m.all_docs().iter().any(|d| d.split('\n').any(|l| l.is_empty())), "comment_with_blank_line");
	obs.label_if(m.classes.values().any(|c| c.names[1].is_none()), "class_without_target");
	obs.label_if(m.classes.values().any(|c| c.methods.keys().any(|k| k.name == "<init>")), "constructor");
	obs.label_if(m.classes.values().any(|c| c.methods.values().any(|x| x.params.values().any(|p| p.doc.is_some()))), "param_comment");
	obs.label_if(files >= 2, "two_or_more_files");
	let _ = dir;
	obs.nontrivial_if(nested > 0 && multi && files >= 2);
}

fn tree(path: &std::path::Path) -> Result<BTreeMap<String, String>, String> {
	fn walk(base: &std::path::Path, p: &std::path::Path, out: &mut BTreeMap<String, String>) -> Result<(), String> {
		for e in std::fs::read_dir(p).map_err(|e| e.to_string())? {
			let e = e.map_err(|e| e.to_string())?;
			let path = e.path();
			if path.is_dir() {
				walk(base, &path, out)?;
			} else {
				let rel = path.strip_prefix(base).unwrap().to_string_lossy().to_string();
				out.insert(rel, std::fs::read_to_string(&path).map_err(|e| e.to_string())?);
			}
		}
		Ok(())
	}
	let mut out = BTreeMap::new();
	walk(path, path, &mut out)?;
	Ok(out)
}

struct ScratchSub {
	_keep: std::path::PathBuf,
	path: std::path::PathBuf,
	_s: Scratch,
}

fn directory(case: &Case, obs: &mut Obs) -> PropResult {
	let m = &case.m;
	let expected = norm(m);
	let q1 = to_quill::<2, Ns>(m, case.order1).map_err(|e| format!("harness: {e:#}"))?;
	let q2 = to_quill::<2, Ns>(m, case.order2).map_err(|e| format!("harness: {e:#}"))?;
	let s1 = Scratch::new("c12a");
	let s2 = Scratch::new("c12b");
	// how the directory is spelled must not matter: plain, hidden (leading dot), with a blank, named like a mapping file,
	// ending in `.`, reached through `..`
	let spelling = ["", "", "", ".hidden", "with space", "a.mapping", "sub/.", "x/../y", ".a/.b", "enigma.d"][(case.order1 % 10) as usize];
	obs.label(format!("directory_spelled:{}", if spelling.is_empty() { "plain" } else { spelling }));
	let (s1, s2) = (ScratchSub { _keep: s1.path.clone(), path: s1.path.join(spelling), _s: s1 }, ScratchSub { _keep: s2.path.clone(), path: s2.path.join(spelling), _s: s2 });
	for s in [&s1, &s2] {
		for d in ["x", "y", "sub", ".a/.b"] {
			let _ = std::fs::create_dir_all(s._keep.join(d));
		}
		let _ = std::fs::create_dir_all(&s.path);
		if !s.path.is_dir() {
			return Err(format!("harness: cannot create scratch directory {:?}", s.path));
		}
	}
	// history: one case in three writes a longer version of the same classes (longer comments, one more field each: same
	// files, more text) into the first directory before the set itself - nothing of it may be left
	if case.order2 % 3 == 0 {
		let mut longer = m.clone();
		for c in longer.classes.values_mut() {
			c.doc = Some(format!("{}\nan earlier, longer version of this comment that is gone in the next write", c.doc.clone().unwrap_or_default()));
			c.fields.insert(crate::mapmodel::MemberKey::new("zzEarlier", "J"), crate::mapmodel::MField { names: vec![Some("zzEarlier".into()), Some("earlierOnly".into())], doc: Some("only in the earlier version".into()) });
		}
		let ql = to_quill::<2, Ns>(&longer, case.order2).map_err(|e| format!("harness: {e:#}"))?;
		quill::enigma_dir::write(&ql, &s1.path).map_err(|e| format!("enigma_dir::write (earlier version) failed: {e:#}"))?;
		obs.label("directory_written_twice:longer_version_first");
	}
	quill::enigma_dir::write(&q1, &s1.path).map_err(|e| format!("enigma_dir::write failed: {e:#}"))?;
	quill::enigma_dir::write(&q2, &s2.path).map_err(|e| format!("enigma_dir::write failed: {e:#}"))?;
	let t1 = tree(&s1.path)?;
	let t2 = tree(&s2.path)?;
	if t1 != t2 {
		return Err(format!("directory tree depends on insertion order: {:?} vs {:?}", t1.keys().collect::<Vec<_>>(), t2.keys().collect::<Vec<_>>()));
	}
	let orphan = orphan_present(m);
	let result: PropResult = (|| {
		let namespaces: Namespaces<2, Ns> = Namespaces::try_from([m.ns[0].clone(), m.ns[1].clone()]).map_err(|e| format!("{e:#}"))?;
		let back = quill::enigma_dir::read(&s1.path, namespaces).map_err(|e| format!("enigma_dir::read failed: {e:#}\nfiles: {:?}", t1))?;
		let got = from_quill(&back).map_err(|e| format!("read result inconsistent: {e:#}"))?;
		if got != expected {
			return Err(format!("read(write(M)) != M (directory)\nM    = {expected:?}\nback = {got:?}\nfiles: {t1:?}"));
		}
		let texts: Vec<&str> = t1.values().map(|s| s.as_str()).collect();
		check_structure(m, &texts)?;
		// one file per top-level class of the text
		for (name, content) in &t1 {
			let tops = class_structure(content)?.into_iter().filter(|(_, d)| *d == 0).count();
			if tops != 1 {
				return Err(format!("file {name} contains {tops} top-level classes"));
			}
			if !name.ends_with(".mapping") {
				return Err(format!("unexpected file {name}"));
			}
		}
		Ok(())
	})();
	if let Err(e) = result {
		if orphan && obs.known("C12-orphan-inner") {
			return Ok(());
		}
		return Err(e);
	}
	labels(m, obs, true);
	obs.label_if(t1.keys().any(|k| k.contains('/')), "file_in_package_directory");
	Ok(())
}

pub fn run(ctx: &mut Ctx) {
	ctx.rule = "two-namespace sets the format can express (nested target names follow the nesting, parameters have a target and no source name, names without whitespace/#, comments without TAB/VT/FF/CR, names injective so that file names are distinct), including inner classes whose outer class is absent, classes without target name, constructors, comments with blank lines / leading / trailing spaces / #; two insertion orders; single stream and directory tree on tmpfs; an independent indentation reader checks placement. Non-trivial = >=1 class nested under its parent, >=1 multi-line comment and >=2 files; distinct by hash of the serialised case".into();
	ctx.assume("expressible sets only: dst(nested X) = (dst(P) or src(P)) + '$' + simple when the source parent P is in the set; a constructor's target name is treated as absent");
	ctx.assume("names contain no whitespace or '#', targets do not start with 'ACC:'; comments contain no TAB/VT/FF/CR");
	ctx.assume("top-level file names (target name, else source name) are distinct");
	ctx.run_sub("stream", ctx.tier.pick(96000, 1000000), || strategy(false), stream);
	ctx.run_sub("stream_outer_absent", ctx.tier.pick(48000, 600000), || strategy(true), stream);
	ctx.run_sub("directory", ctx.tier.pick(7200, 60000), || strategy(true), directory);
}
