//! C08 — reordering namespaces is a faithful permutation.

use crate::engine::{Ctx, Obs, PropResult};
use crate::mapmodel::conv::{from_quill, to_quill};
use crate::mapmodel::gen::{mapset, order_seed, GenCfg, TargetStyle};
use crate::mapmodel::refops;
use crate::mapmodel::MapSet;
use proptest::prelude::*;
use serde::{Deserialize, Serialize};

struct Ns;
struct Ms;

#[derive(Clone, Debug, Serialize, Deserialize)]
pub struct Case {
	pub m: MapSet,
	pub order: u64,
}

fn strategy(injective: bool) -> impl Strategy<Value = Case> {
	let cfg = GenCfg { ns_min: 2, ns_max: 4, p_missing: if injective { 0 } else { 12 }, style: TargetStyle::Arbitrary, injective, max_classes: 5, lone_surrogates: true, ..GenCfg::default() };
	(mapset(cfg), order_seed(), any::<u8>()).prop_map(|(mut m, order, ns_draw)| {
		crate::mapmodel::gen::confusable_namespaces(&mut m, ns_draw);
		Case { m, order }
	})
}

fn permutations(n: usize) -> Vec<Vec<usize>> {
	fn go(cur: &mut Vec<usize>, n: usize, out: &mut Vec<Vec<usize>>) {
		if cur.len() == n {
			out.push(cur.clone());
			return;
		}
		for i in 0..n {
			if !cur.contains(&i) {
				cur.push(i);
				go(cur, n, out);
				cur.pop();
			}
		}
	}
	let mut out = Vec::new();
	go(&mut Vec::new(), n, &mut out);
	out
}

fn inverse(p: &[usize]) -> Vec<usize> {
	let mut inv = vec![0; p.len()];
	for (new, &old) in p.iter().enumerate() {
		inv[old] = new;
	}
	inv
}

fn check<const N: usize>(case: &Case, obs: &mut Obs) -> PropResult {
	let m = &case.m;
	let mut q = to_quill::<N, Ns>(m, case.order).map_err(|e| format!("harness: {e:#}"))?;
	// the comment of the set itself must come through untouched (the plain model has no slot for it)
	q.javadoc = Some(quill::tree::mappings::JavadocMapping("about this set\nsecond line".to_string()));
	let mut any_renaming_desc = false;
	for perm in permutations(N) {
		let names: Vec<&str> = perm.iter().map(|&o| m.ns[o].as_str()).collect();
		let arr: [&str; N] = names.clone().try_into().unwrap();
		let expected = refops::reorder(m, &perm);
		let got = q.reorder::<Ms>(arr);
		if let Ok(r) = &got {
			if r.javadoc != q.javadoc {
				return Err(format!("reorder to {names:?} changed the comment of the set to {:?}", r.javadoc));
			}
		}
		let got = got.map(|mut r| {
			r.javadoc = None;
			r
		});
		match (&expected, got) {
			(Err(why), Ok(r)) => {
				let r = from_quill(&r).map(|m| format!("{m:?}")).unwrap_or_else(|e| format!("<inconsistent: {e:#}>"));
				return Err(format!("reorder to {names:?} must fail ({why}) but returned {r}\ninput = {m:?}"));
			}
			(Err(_), Err(_)) => obs.label("expected_failure"),
			(Ok(_), Err(e)) => return Err(format!("reorder to {names:?} failed: {e:#}\ninput = {m:?}")),
			(Ok(exp), Ok(r)) => {
				let got = from_quill(&r).map_err(|e| format!("reorder result inconsistent (mis-keyed entry): {e:#}"))?;
				if &got != exp {
					return Err(format!("reorder to {names:?} differs from the permuted set\ninput    = {m:?}\nexpected = {exp:?}\ngot      = {got:?}"));
				}
				let identity = perm.iter().enumerate().all(|(i, &o)| i == o);
				if identity && &got != m {
					return Err("identity permutation changed the set".into());
				}
				// inverse law
				let inv = inverse(&perm);
				let inv_names: Vec<&str> = inv.iter().map(|&o| got.ns[o].as_str()).collect();
				let inv_arr: [&str; N] = inv_names.try_into().unwrap();
				let exp_back = refops::reorder(exp, &inv);
				match (exp_back, r.reorder::<Ns>(inv_arr)) {
					(Ok(eb), Ok(back)) => {
						let back = from_quill(&back).map_err(|e| format!("inverse reorder result inconsistent: {e:#}"))?;
						if back != eb {
							return Err(format!("inverse reorder differs from reference\nexpected = {eb:?}\ngot = {back:?}"));
						}
						// when class names are injective in both first namespaces the round trip is the identity
						if injective_classes(m, 0) && injective_classes(m, perm[0]) && all_named(m, perm[0]) && !external_collides(m, perm[0]) && back != *m {
							return Err(format!("reorder by {perm:?} then by its inverse is not the identity\ninput = {m:?}\nback  = {back:?}"));
						}
						obs.label("inverse_checked");
					}
					(Err(_), Err(_)) => obs.label("inverse_expected_failure"),
					(Ok(_), Err(e)) => return Err(format!("inverse reorder failed: {e:#}")),
					(Err(why), Ok(_)) => return Err(format!("inverse reorder must fail ({why}) but succeeded")),
				}
				if !identity && perm[0] != 0 {
					let renames = m.classes.values().any(|c| c.names[perm[0]].is_some() && c.names[perm[0]] != c.names[0]);
					let desc_mentions = m.classes.values().any(|c| {
						c.fields.keys().chain(c.methods.keys()).any(|k| refops::class_segments(&k.desc).iter().any(|s| m.classes.get(s).is_some_and(|t| t.names[perm[0]].is_some() && t.names[perm[0]] != t.names[0])))
					});
					if renames && desc_mentions {
						any_renaming_desc = true;
					}
				}
				obs.label("reordered");
			}
		}
	}
	obs.label(format!("ns={N}"));
	obs.nontrivial_if(any_renaming_desc);
	Ok(())
}

/// a class mentioned in a descriptor but not contained in the set carries the same name as some
/// class of the set has in namespace `ns`: translating back is ambiguous by nature
fn external_collides(m: &MapSet, ns: usize) -> bool {
	let names: std::collections::BTreeSet<&str> = m.classes.values().filter_map(|c| c.names[ns].as_deref()).collect();
	m.classes.values().any(|c| c.fields.keys().chain(c.methods.keys()).any(|k| refops::class_segments(&k.desc).iter().any(|s| !m.classes.contains_key(s) && names.contains(s.as_str()))))
}
fn injective_classes(m: &MapSet, ns: usize) -> bool {
	let mut seen = std::collections::BTreeSet::new();
	m.classes.values().all(|c| c.names[ns].as_ref().is_none_or(|n| seen.insert(n.clone())))
}
fn all_named(m: &MapSet, ns: usize) -> bool {
	m.classes.values().all(|c| c.names[ns].is_some() && c.fields.values().all(|f| f.names[ns].is_some()) && c.methods.values().all(|f| f.names[ns].is_some()))
}

fn dispatch(case: &Case, obs: &mut Obs) -> PropResult {
	match case.m.n() {
		2 => check::<2>(case, obs),
		3 => check::<3>(case, obs),
		4 => check::<4>(case, obs),
		n => Err(format!("harness: unsupported namespace count {n}")),
	}
}

pub fn run(ctx: &mut Ctx) {
	ctx.rule = "mapping sets with 2..4 namespaces x every permutation of the namespaces (enumerated per case), compared with a reference reorder; inverse and identity laws; failure required when the new first namespace lacks a class/field/method name or re-keying collides. Non-trivial = a non-identity permutation whose new first namespace renames a class that a member descriptor mentions; distinct by hash of the serialised case".into();
	ctx.assume("class names of one namespace are injective in the stratum that checks the round-trip identity (otherwise inversion is ambiguous by nature)");
	ctx.run_sub("reorder_injective", ctx.tier.pick(48000, 600000), || strategy(true), dispatch);
	ctx.run_sub("reorder_partial", ctx.tier.pick(48000, 600000), || strategy(false), dispatch);
}
