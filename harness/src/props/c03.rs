//! C03 — Tiny v2 files round-trip and are written canonically.

use crate::engine::{Ctx, Obs, PropResult};
use crate::mapmodel::conv::{from_quill, to_quill};
use crate::mapmodel::gen::{mapset, order_seed, GenCfg, TargetStyle};
use crate::mapmodel::{text, MapSet};
use proptest::prelude::*;
use serde::{Deserialize, Serialize};

#[derive(Clone, Debug, Serialize, Deserialize)]
pub struct Case {
	pub m: MapSet,
	pub order1: u64,
	pub order2: u64,
	pub order3: u64,
}

pub fn cfg(hostile_docs: bool) -> GenCfg {
	GenCfg { ns_min: 2, ns_max: 4, p_missing: 25, style: TargetStyle::Arbitrary, hostile_docs, weird_dollar: true, ..GenCfg::default() }
}

fn strategy(hostile_docs: bool) -> impl Strategy<Value = Case> {
	(mapset(cfg(hostile_docs)), order_seed(), order_seed(), order_seed()).prop_map(|(m, order1, order2, order3)| Case { m, order1, order2, order3 })
}

struct Ns;

fn round_trip<const N: usize>(case: &Case, obs: &mut Obs) -> PropResult {
	let m = &case.m;
	let q1 = to_quill::<N, Ns>(m, case.order1).map_err(|e| format!("harness: cannot build quill mappings: {e:#}"))?;
	let q2 = to_quill::<N, Ns>(m, case.order2).map_err(|e| format!("harness: cannot build quill mappings: {e:#}"))?;
	let t1 = quill::tiny_v2::write_string(&q1).map_err(|e| format!("write failed: {e:#}"))?;
	let t2 = quill::tiny_v2::write_string(&q2).map_err(|e| format!("write failed: {e:#}"))?;
	if t1 != t2 {
		return Err(format!("written text depends on insertion order:\n--- order {}\n{t1}\n--- order {}\n{t2}", case.order1, case.order2));
	}
	let r = quill::tiny_v2::read::<N, Ns>(t1.as_bytes()).map_err(|e| format!("reading the written text failed: {e:#}\n{t1}"))?;
	let back = from_quill(&r).map_err(|e| format!("read result inconsistent: {e:#}\n{t1}"))?;
	if &back != m {
		return Err(format!("read(write(M)) != M\nM    = {m:?}\nback = {back:?}\ntext:\n{t1}"));
	}
	let t3 = quill::tiny_v2::write_string(&r).map_err(|e| format!("re-write failed: {e:#}"))?;
	if t3 != t1 {
		return Err(format!("write(read(write(M))) differs from write(M):\n{t1}\n---\n{t3}"));
	}
	// text quill did not produce: same content, sibling sections in another order
	let ht = text::tiny(m, case.order3);
	let r2 = quill::tiny_v2::read::<N, Ns>(ht.as_bytes()).map_err(|e| format!("reading harness-written text failed: {e:#}\n{ht}"))?;
	let back2 = from_quill(&r2).map_err(|e| format!("read result inconsistent: {e:#}\n{ht}"))?;
	if &back2 != m {
		return Err(format!("read(harness text) != M\nM    = {m:?}\nback = {back2:?}\ntext:\n{ht}"));
	}
	let t4 = quill::tiny_v2::write_string(&r2).map_err(|e| format!("write failed: {e:#}"))?;
	if t4 != t1 {
		return Err(format!("canonical text differs for harness-ordered input:\n{t1}\n---\n{t4}"));
	}
	obs.label(format!("ns={N}"));
	obs.label_if(m.has_nested(), "nested_class");
	obs.label_if(m.has_middle_gap(), "middle_gap");
	obs.label_if(m.any_member_doc(), "member_comment");
	obs.label_if(m.classes.values().any(|c| c.doc.is_some()), "class_comment");
	obs.label_if(m.classes.values().any(|c| c.methods.values().any(|x| x.params.values().any(|p| p.doc.is_some()))), "param_comment");
	obs.label_if(m.classes.values().any(|c| c.methods.values().any(|x| x.params.values().any(|p| p.names[0].is_none()))), "param_without_src");
	obs.label_if(m.classes.keys().any(|k| !k.is_ascii()), "non_ascii_class");
	obs.label_if(m.all_docs().iter().any(|d| d.contains('\n')), "multiline_comment");
	obs.label_if(case.order1 != case.order2, "two_orders");
	obs.nontrivial_if(m.classes.len() >= 2 && m.has_nested() && m.any_doc() && case.order1 != case.order2);
	Ok(())
}

fn dispatch(case: &Case, obs: &mut Obs) -> PropResult {
	match case.m.n() {
		2 => round_trip::<2>(case, obs),
		3 => round_trip::<3>(case, obs),
		4 => round_trip::<4>(case, obs),
		n => Err(format!("harness: unsupported namespace count {n}")),
	}
}

pub fn run(ctx: &mut Ctx) {
	ctx.rule = "mapping sets with 2..4 namespaces built from index draws (nested classes with and without outer class, packages, unicode and placeholder-like names, missing cells, multi-line comments, parameters without source name) x two insertion orders x one line order; non-trivial = >=2 classes, >=1 nested class, >=1 comment and two different insertion orders; distinct by hash of the serialised case".into();
	ctx.assume("names are valid for their duke newtype, valid UTF-8 and contain no TAB/LF/CR (Tiny v2 without escaped-names cannot express them)");
	ctx.assume("top-level Mappings.javadoc is None (Tiny v2 has no such line)");
	let cases = ctx.tier.pick(24000, 2000000);
	ctx.run_sub("roundtrip", cases, || strategy(false), dispatch);
	let cases = ctx.tier.pick(12000, 1000000);
	ctx.run_sub("roundtrip_escapes", cases, || strategy(true), |case: &Case, obs: &mut Obs| {
		let r = dispatch(case, obs);
		let hostile = case.m.all_docs().iter().any(|d| d.contains('\\') || d.contains('\t') || d.contains('\r'));
		obs.label_if(hostile, "comment_needs_escaping");
		r
	});
}
