//! C03 — Tiny v2 files round-trip and are written canonically.

use crate::engine::{Ctx, Obs, PropResult};
use crate::mapmodel::conv::{from_quill, to_quill};
use crate::mapmodel::gen::{mapset, order_seed, GenCfg, TargetStyle};
use crate::mapmodel::{text, MapSet};
use proptest::prelude::*;
use serde::{Deserialize, Serialize};

#[derive(Clone, Debug, Serialize, Deserialize)]
pub struct Case {
	pub m: MapSet,
	pub order1: u64,
	pub order2: u64,
	pub order3: u64,
	/// the comment of the mapping set itself (`Mappings::javadoc`; the plain model has no slot for it)
	#[serde(default)]
	pub set_doc: Option<String>,
}

const SET_DOCS: &[&str] = &["about this set", "two\nlines", "tab\there \\ backslash", "", " leading and trailing ", "c\tnot a class line", "\u{1d518}\u{fc}"];

pub fn cfg(hostile_docs: bool) -> GenCfg {
	GenCfg { ns_min: 2, ns_max: 4, p_missing: 25, style: TargetStyle::Arbitrary, hostile_docs, weird_dollar: true, ..GenCfg::default() }
}

/// `a/B$1` -> `a/B$01`: a `0` in front of the first digit run (None when the name has no digit)
fn zero_variant(s: &str) -> Option<String> {
	let i = s.find(|c: char| c.is_ascii_digit())?;
	Some(format!("{}0{}", &s[..i], &s[i..]))
}

/// Near-twins: a class / field / method whose names differ from another entry's only by leading zeros of a digit run
/// (in every namespace: zero variant, or equal where there is no digit).  Orders that compare digit runs by value
/// tie on such pairs, so the written text then depends on the insertion order.
fn add_zero_twins(m: &mut MapSet, pick: u16) {
	let keys: Vec<String> = m.classes.keys().filter(|k| zero_variant(k).is_some()).cloned().collect();
	if let Some(k) = keys.get(crate::engine::idx(pick, keys.len().max(1))) {
		let twin_key = zero_variant(k).unwrap_or_default();
		if !m.classes.contains_key(&twin_key) {
			let mut twin = m.classes[k].clone();
			for (i, n) in twin.names.iter_mut().enumerate() {
				if let Some(x) = n {
					if i == 0 {
						*x = twin_key.clone();
					} else if let Some(z) = zero_variant(x) {
						*x = z;
					}
				}
			}
			twin.doc = None;
			m.classes.insert(twin_key, twin);
		}
	}
	// members of one class
	for c in m.classes.values_mut() {
		let fkeys: Vec<_> = c.fields.keys().filter(|k| zero_variant(&k.name).is_some()).cloned().collect();
		if let Some(fk) = fkeys.first() {
			let mut tk = fk.clone();
			tk.name = zero_variant(&fk.name).unwrap_or_default();
			if !c.fields.contains_key(&tk) {
				let mut f = c.fields[fk].clone();
				f.names[0] = Some(tk.name.clone());
				for n in f.names.iter_mut().skip(1).flatten() {
					if let Some(z) = zero_variant(n) {
						*n = z;
					}
				}
				c.fields.insert(tk, f);
			}
		}
	}
}

fn strategy(hostile_docs: bool) -> impl Strategy<Value = Case> {
	(mapset(cfg(hostile_docs)), order_seed(), order_seed(), order_seed(), any::<u16>(), any::<u16>()).prop_map(|(mut m, order1, order2, order3, tweak, doc)| {
		if tweak % 5 == 0 {
			add_zero_twins(&mut m, tweak);
		}
		crate::mapmodel::gen::confusable_namespaces(&mut m, (tweak >> 8) as u8);
		// one case in four carries a comment on the set itself
		let set_doc = if doc % 4 == 0 { Some(SET_DOCS[crate::engine::idx(doc, SET_DOCS.len())].to_string()) } else { None };
		Case { m, order1, order2, order3, set_doc }
	})
}

#[derive(Clone, Debug, Serialize, Deserialize)]
pub struct LargeCase {
	pub base: Case,
	pub copies: usize,
	pub doc_len: usize,
	pub level: u8,
}

struct Ns;

fn round_trip<const N: usize>(case: &Case, obs: &mut Obs) -> PropResult {
	let m = &case.m;
	let mut q1 = to_quill::<N, Ns>(m, case.order1).map_err(|e| format!("harness: cannot build quill mappings: {e:#}"))?;
	let mut q2 = to_quill::<N, Ns>(m, case.order2).map_err(|e| format!("harness: cannot build quill mappings: {e:#}"))?;
	let set_doc = case.set_doc.clone().map(quill::tree::mappings::JavadocMapping);
	q1.javadoc = set_doc.clone();
	q2.javadoc = set_doc.clone();
	obs.label(if set_doc.is_some() { "set_comment:yes" } else { "set_comment:no" });
	let t1 = quill::tiny_v2::write_string(&q1).map_err(|e| format!("write failed: {e:#}"))?;
	let t2 = quill::tiny_v2::write_string(&q2).map_err(|e| format!("write failed: {e:#}"))?;
	if t1 != t2 {
		return Err(format!("written text depends on insertion order:\n--- order {}\n{t1}\n--- order {}\n{t2}", case.order1, case.order2));
	}
	// history: a read that fails (the text cut in the middle of a line, and with its header damaged) comes first
	if t1.len() > 12 {
		let cut = t1.len() * 2 / 3;
		let cut = (cut..t1.len()).find(|i| t1.is_char_boundary(*i)).unwrap_or(t1.len());
		let _ = crate::engine::no_panic(|| quill::tiny_v2::read::<N, Ns>(t1[..cut].as_bytes()).is_ok());
		let _ = crate::engine::no_panic(|| quill::tiny_v2::read::<N, Ns>(t1[4..].as_bytes()).is_ok());
	}
	let r = quill::tiny_v2::read::<N, Ns>(t1.as_bytes()).map_err(|e| format!("reading the written text failed: {e:#}\n{t1}"))?;
	let back = from_quill(&r).map_err(|e| format!("read result inconsistent: {e:#}\n{t1}"))?;
	// the namespace check callers use after reading: holds for the namespaces written, fails for any other list
	{
		let names: Vec<&str> = m.ns.iter().map(|s| s.as_str()).collect();
		let right: [&str; N] = names.clone().try_into().map_err(|_| "harness: namespace count".to_string())?;
		if let Err(e) = r.info.namespaces.check_that(right) {
			return Err(format!("check_that({right:?}) fails on the set read back: {e:#}"));
		}
		let mut wrong = right;
		wrong.swap(0, N - 1);
		if r.info.namespaces.check_that(wrong).is_ok() {
			return Err(format!("check_that({wrong:?}) holds on a set whose namespaces are {right:?}"));
		}
		let mut wrong2 = right;
		wrong2[N - 1] = "somethingElse";
		if r.info.namespaces.check_that(wrong2).is_ok() {
			return Err(format!("check_that({wrong2:?}) holds on a set whose namespaces are {right:?}"));
		}
	}
	if r.javadoc != set_doc {
		return Err(format!("read(write(M)) lost or changed the comment of the mapping set: {:?} became {:?}\ntext:\n{t1}", set_doc, r.javadoc));
	}
	if &back != m {
		return Err(format!("read(write(M)) != M\nM    = {m:?}\nback = {back:?}\ntext:\n{t1}"));
	}
	// the same through a sink that takes, and a source that hands out, only a few bytes per call
	let mut short = crate::engine::ShortWrites::new();
	quill::tiny_v2::write(&q1, &mut short).map_err(|e| format!("write into a sink with short writes failed: {e:#}"))?;
	if short.out != t1.as_bytes() {
		return Err(format!("write() into a sink that takes 1..7 bytes per call delivered {} of {} bytes", short.out.len(), t1.len()));
	}
	let rs = quill::tiny_v2::read::<N, Ns>(crate::engine::ShortReads::new(t1.as_bytes())).map_err(|e| format!("reading from a source with short reads failed: {e:#}"))?;
	if from_quill(&rs).map_err(|e| format!("read result (short reads) inconsistent: {e:#}"))? != back || rs.javadoc != set_doc {
		return Err("reading from a source with short reads gives another mapping set".into());
	}
	let t3 = quill::tiny_v2::write_string(&r).map_err(|e| format!("re-write failed: {e:#}"))?;
	if t3 != t1 {
		return Err(format!("write(read(write(M))) differs from write(M):\n{t1}\n---\n{t3}"));
	}
	// text quill did not produce: same content, sibling sections in another order
	let mut ht = text::tiny(m, case.order3);
	if let Some(d) = &case.set_doc {
		// the set's own comment sits right after the header, one tab in (that is where quill's writer puts it)
		let at = ht.find('\n').map(|i| i + 1).unwrap_or(ht.len());
		ht.insert_str(at, &format!("\tc\t{}\n", text::esc(d)));
	}
	let r2 = quill::tiny_v2::read::<N, Ns>(ht.as_bytes()).map_err(|e| format!("reading harness-written text failed: {e:#}\n{ht}"))?;
	let back2 = from_quill(&r2).map_err(|e| format!("read result inconsistent: {e:#}\n{ht}"))?;
	if &back2 != m || r2.javadoc != set_doc {
		return Err(format!("read(harness text) != M\nM    = {m:?}\nback = {back2:?}\ntext:\n{ht}"));
	}
	let t4 = quill::tiny_v2::write_string(&r2).map_err(|e| format!("write failed: {e:#}"))?;
	if t4 != t1 {
		return Err(format!("canonical text differs for harness-ordered input:\n{t1}\n---\n{t4}"));
	}
	obs.label(format!("ns={N}"));
	obs.label_if(m.has_nested(), "nested_class");
	obs.label_if(m.has_middle_gap(), "middle_gap");
	obs.label_if(m.any_member_doc(), "member_comment");
	obs.label_if(m.classes.values().any(|c| c.doc.is_some()), "class_comment");
	obs.label_if(m.classes.values().any(|c| c.methods.values().any(|x| x.params.values().any(|p| p.doc.is_some()))), "param_comment");
	obs.label_if(m.classes.values().any(|c| c.methods.values().any(|x| x.params.values().any(|p| p.names[0].is_none()))), "param_without_src");
	obs.label_if(m.classes.keys().any(|k| !k.is_ascii()), "non_ascii_class");
	obs.label_if(m.all_docs().iter().any(|d| d.contains('\n')), "multiline_comment");
	obs.label_if(case.order1 != case.order2, "two_orders");
	obs.label_if(m.classes.keys().any(|k| zero_variant(k).is_some_and(|z| m.classes.contains_key(&z))), "classes_differing_by_leading_zero");
	obs.label_if(m.classes.values().any(|c| c.names.iter().flatten().any(|n| !n.is_empty() && n.chars().all(char::is_whitespace))), "whitespace_only_name");
	obs.nontrivial_if(m.classes.len() >= 2 && m.has_nested() && m.any_doc() && case.order1 != case.order2);
	Ok(())
}

fn dispatch(case: &Case, obs: &mut Obs) -> PropResult {
	match case.m.n() {
		2 => round_trip::<2>(case, obs),
		3 => round_trip::<3>(case, obs),
		4 => round_trip::<4>(case, obs),
		n => Err(format!("harness: unsupported namespace count {n}")),
	}
}

// ---------------------------------------------------------------------------------------------
// "reading never merges, loses or re-parents an entry": a text in which two sections under the same parent
// have the same key (class source name, member name + descriptor, parameter index) cannot be read without
// merging or losing one of them, so the reader has to refuse it.

#[derive(Clone, Debug, Serialize, Deserialize)]
pub struct DupCase {
	pub m: MapSet,
	pub order: u64,
	/// which section is duplicated
	pub pick: u16,
	/// 0 exact copy of the section with its children, 1 the section line alone, 2 copy with other target names
	pub variant: u8,
	/// false: directly behind the original section, true: behind the last section of the same parent
	pub at_end: bool,
}

fn indent_of(l: &str) -> usize {
	l.bytes().take_while(|b| *b == b'\t').count()
}

fn duplicates(case: &DupCase, obs: &mut Obs) -> PropResult {
	let text = text::tiny(&case.m, case.order);
	let lines: Vec<&str> = text.lines().collect();
	// section lines: classes (c at indent 0), fields/methods (indent 1), parameters (indent 2); comments are `c` at indent >= 1
	let sections: Vec<usize> = (1..lines.len())
		.filter(|i| {
			let ind = indent_of(lines[*i]);
			let kind = lines[*i][ind..].split('\t').next().unwrap_or("");
			matches!((ind, kind), (0, "c") | (1, "f") | (1, "m") | (2, "p"))
		})
		.collect();
	if sections.is_empty() {
		return Ok(());
	}
	let at = sections[crate::engine::idx(case.pick, sections.len())];
	let ind = indent_of(lines[at]);
	let block_end = (at + 1..lines.len()).find(|j| indent_of(lines[*j]) <= ind).unwrap_or(lines.len());
	let parent_end = if ind == 0 { lines.len() } else { (at + 1..lines.len()).find(|j| indent_of(lines[*j]) < ind).unwrap_or(lines.len()) };
	let mut copy: Vec<String> = match case.variant {
		1 => vec![lines[at].to_string()],
		_ => lines[at..block_end].iter().map(|l| l.to_string()).collect(),
	};
	if case.variant == 2 {
		// same key (the cells up to and including the source name), other names in the last column
		copy[0].push('x');
	}
	let insert_at = if case.at_end { parent_end } else { block_end };
	let mut out: Vec<String> = lines[..insert_at].iter().map(|l| l.to_string()).collect();
	out.extend(copy);
	out.extend(lines[insert_at..].iter().map(|l| l.to_string()));
	let dup_text = out.join("\n") + "\n";
	let kind = ["class", "member", "parameter"][ind];
	let n = case.m.n();
	let result = match n {
		2 => quill::tiny_v2::read::<2, Ns>(dup_text.as_bytes()).map(|m| from_quill(&m)),
		3 => quill::tiny_v2::read::<3, Ns>(dup_text.as_bytes()).map(|m| from_quill(&m)),
		4 => quill::tiny_v2::read::<4, Ns>(dup_text.as_bytes()).map(|m| from_quill(&m)),
		n => return Err(format!("harness: unsupported namespace count {n}")),
	};
	match result {
		Err(_) => {
			obs.label(format!("duplicate_{kind}_refused"));
			obs.label(format!("variant{}{}", case.variant, if case.at_end { ":at_end_of_parent" } else { ":adjacent" }));
			obs.nontrivial();
			Ok(())
		}
		Ok(_) => Err(format!("a text with two {kind} sections of the same key under one parent (line {}: {:?}) was read instead of refused: one of them was merged or lost\ntext:\n{dup_text}", at + 1, lines[at])),
	}
}

pub fn run(ctx: &mut Ctx) {
	ctx.rule = "mapping sets with 2..4 namespaces built from index draws (nested classes with and without outer class, packages, unicode and placeholder-like names, missing cells, multi-line comments, parameters without source name) x two insertion orders x one line order; plus (duplicate_sections_refused) harness-written texts in which one class / member / parameter section is repeated under its parent (whole block, line alone, or with other target names; adjacent or at the end of the parent) and must be refused, because any Ok result merges or loses an entry; non-trivial = >=2 classes, >=1 nested class, >=1 comment and two different insertion orders; distinct by hash of the serialised case".into();
	ctx.assume("names are valid for their duke newtype, valid UTF-8 and contain no TAB/LF/CR (Tiny v2 without escaped-names cannot express them)");
	ctx.assume("top-level Mappings.javadoc is None (Tiny v2 has no such line)");
	let cases = ctx.tier.pick(72000, 2000000);
	ctx.run_sub("roundtrip", cases, || strategy(false), dispatch);
	let cases = ctx.tier.pick(36000, 1000000);
	ctx.run_sub("roundtrip_escapes", cases, || strategy(true), |case: &Case, obs: &mut Obs| {
		let r = dispatch(case, obs);
		let hostile = case.m.all_docs().iter().any(|d| d.contains('\\') || d.contains('\t') || d.contains('\r'));
		obs.label_if(hostile, "comment_needs_escaping");
		r
	});
	// sets and lines beyond the buffer sizes readers and writers like to use: the same laws on a set replicated to
	// 200-1500 classes (64 KiB - 1 MiB of text), one of whose comments is 20-260 KiB long (one line of text)
	ctx.run_sub(
		"large_sets",
		ctx.tier.pick(96, 2000),
		|| (strategy(false), 200usize..1500, prop_oneof![Just(0usize), 20_000usize..70_000, 65_000usize..66_500, 66_500usize..260_000], any::<u8>()).prop_map(|(base, copies, doc_len, level)| LargeCase { base, copies, doc_len, level }),
		|case: &LargeCase, obs: &mut Obs| {
			let mut big = case.base.clone();
			let originals: Vec<(String, crate::mapmodel::MClass)> = case.base.m.classes.iter().map(|(k, c)| (k.clone(), c.clone())).collect();
			if originals.is_empty() {
				return Ok(());
			}
			'outer: for k in 0..case.copies {
				for (key, c) in &originals {
					if big.m.classes.len() >= case.copies {
						break 'outer;
					}
					// nested classes keep their outer class: the suffix goes on the outermost name
					let rename = |s: &str| match s.split_once('$') {
						Some((outer, rest)) => format!("{outer}_{k}${rest}"),
						None => format!("{s}_{k}"),
					};
					let mut c = c.clone();
					for n in c.names.iter_mut().flatten() {
						*n = rename(n);
					}
					big.m.classes.insert(rename(key), c);
				}
			}
			if case.doc_len > 0 {
				let line = "a long comment line with a tab\t, a backslash \\ and some text \u{e4}\u{f6}\u{fc}";
				let mut doc = String::with_capacity(case.doc_len + 100);
				while doc.len() < case.doc_len {
					doc.push_str(line);
					doc.push('\n');
				}
				let first = big.m.classes.values_mut().next().unwrap();
				match case.level % 3 {
					1 if !first.fields.is_empty() => first.fields.values_mut().next().unwrap().doc = Some(doc),
					2 if !first.methods.is_empty() => first.methods.values_mut().next().unwrap().doc = Some(doc),
					_ => first.doc = Some(doc),
				}
			}
			obs.label(format!("classes>={}", [1000, 500, 200, 0].iter().find(|t| big.m.classes.len() >= **t).unwrap()));
			obs.label(format!("longest_line:{}", match case.doc_len { 0 => "short", 1..=65_535 => "<64KiB", 65_536..=66_499 => "just_over_64KiB", _ => ">65KiB" }));
			obs.nontrivial_if(true);
			dispatch(&big, obs)
		},
	);
	ctx.run_sub(
		"duplicate_sections_refused",
		ctx.tier.pick(36000, 600000),
		|| (mapset(cfg(false)), order_seed(), any::<u16>(), 0u8..3, any::<bool>()).prop_map(|(m, order, pick, variant, at_end)| DupCase { m, order, pick, variant, at_end }),
		duplicates,
	);
}
