//! C03 — Tiny v2 files round-trip and are written canonically.

use crate::engine::{Ctx, Obs, PropResult};
use crate::mapmodel::conv::{from_quill, to_quill};
use crate::mapmodel::gen::{mapset, order_seed, GenCfg, TargetStyle};
use crate::mapmodel::{text, MapSet};
use proptest::prelude::*;
use serde::{Deserialize, Serialize};

#[derive(Clone, Debug, Serialize, Deserialize)]
pub struct Case {
	pub m: MapSet,
	pub order1: u64,
	pub order2: u64,
	pub order3: u64,
}

pub fn cfg(hostile_docs: bool) -> GenCfg {
	GenCfg { ns_min: 2, ns_max: 4, p_missing: 25, style: TargetStyle::Arbitrary, hostile_docs, weird_dollar: true, ..GenCfg::default() }
}

fn strategy(hostile_docs: bool) -> impl Strategy<Value = Case> {
	(mapset(cfg(hostile_docs)), order_seed(), order_seed(), order_seed()).prop_map(|(m, order1, order2, order3)| Case { m, order1, order2, order3 })
}

struct Ns;

fn round_trip<const N: usize>(case: &Case, obs: &mut Obs) -> PropResult {
	let m = &case.m;
	let q1 = to_quill::<N, Ns>(m, case.order1).map_err(|e| format!("harness: cannot build quill mappings: {e:#}"))?;
	let q2 = to_quill::<N, Ns>(m, case.order2).map_err(|e| format!("harness: cannot build quill mappings: {e:#}"))?;
	let t1 = quill::tiny_v2::write_string(&q1).map_err(|e| format!("write failed: {e:#}"))?;
	let t2 = quill::tiny_v2::write_string(&q2).map_err(|e| format!("write failed: {e:#}"))?;
	if t1 != t2 {
		return Err(format!("written text depends on insertion order:\n--- order {}\n{t1}\n--- order {}\n{t2}", case.order1, case.order2));
	}
	let r = quill::tiny_v2::read::<N, Ns>(t1.as_bytes()).map_err(|e| format!("reading the written text failed: {e:#}\n{t1}"))?;
	let back = from_quill(&r).map_err(|e| format!("read result inconsistent: {e:#}\n{t1}"))?;
	if &back != m {
		return Err(format!("read(write(M)) != M\nM    = {m:?}\nback = {back:?}\ntext:\n{t1}"));
	}
	let t3 = quill::tiny_v2::write_string(&r).map_err(|e| format!("re-write failed: {e:#}"))?;
	if t3 != t1 {
		return Err(format!("write(read(write(M))) differs from write(M):\n{t1}\n---\n{t3}"));
	}
	// text quill did not produce: same content, sibling sections in another order
	let ht = text::tiny(m, case.order3);
	let r2 = quill::tiny_v2::read::<N, Ns>(ht.as_bytes()).map_err(|e| format!("reading harness-written text failed: {e:#}\n{ht}"))?;
	let back2 = from_quill(&r2).map_err(|e| format!("read result inconsistent: {e:#}\n{ht}"))?;
	if &back2 != m {
		return Err(format!("read(harness text) != M\nM    = {m:?}\nback = {back2:?}\ntext:\n{ht}"));
	}
	let t4 = quill::tiny_v2::write_string(&r2).map_err(|e| format!("write failed: {e:#}"))?;
	if t4 != t1 {
		return Err(format!("canonical text differs for harness-ordered input:\n{t1}\n---\n{t4}"));
	}
	obs.label(format!("ns={N}"));
	obs.label_if(m.has_nested(), "nested_class");
	obs.label_if(m.has_middle_gap(), "middle_gap");
	obs.label_if(m.any_member_doc(), "member_comment");
	obs.label_if(m.classes.values().any(|c| c.doc.is_some()), "class_comment");
	obs.label_if(m.classes.values().any(|c| c.methods.values().any(|x| x.params.values().any(|p| p.doc.is_some()))), "param_comment");
	obs.label_if(m.classes.values().any(|c| c.methods.values().any(|x| x.params.values().any(|p| p.names[0].is_none()))), "param_without_src");
	obs.label_if(m.classes.keys().any(|k| !k.is_ascii()), "non_ascii_class");
	obs.label_if(m.all_docs().iter().any(|d| d.contains('\n')), "multiline_comment");
	obs.label_if(case.order1 != case.order2, "two_orders");
	obs.nontrivial_if(m.classes.len() >= 2 && m.has_nested() && m.any_doc() && case.order1 != case.order2);
	Ok(())
}

fn dispatch(case: &Case, obs: &mut Obs) -> PropResult {
	match case.m.n() {
		2 => round_trip::<2>(case, obs),
		3 => round_trip::<3>(case, obs),
		4 => round_trip::<4>(case, obs),
		n => Err(format!("harness: unsupported namespace count {n}")),
	}
}

// ---------------------------------------------------------------------------------------------
// "reading never merges, loses or re-parents an entry": a text in which two sections under the same parent
// have the same key (class source name, member name + descriptor, parameter index) cannot be read without
// merging or losing one of them, so the reader has to refuse it.

#[derive(Clone, Debug, Serialize, Deserialize)]
pub struct DupCase {
	pub m: MapSet,
	pub order: u64,
	/// which section is duplicated
	pub pick: u16,
	/// 0 exact copy of the section with its children, 1 the section line alone, 2 copy with other target names
	pub variant: u8,
	/// false: directly behind the original section, true: behind the last section of the same parent
	pub at_end: bool,
}

fn indent_of(l: &str) -> usize {
	l.bytes().take_while(|b| *b == b'\t').count()
}

fn duplicates(case: &DupCase, obs: &mut Obs) -> PropResult {
	let text = text::tiny(&case.m, case.order);
	let lines: Vec<&str> = text.lines().collect();
	// section lines: classes (c at indent 0), fields/methods (indent 1), parameters (indent 2); comments are `c` at indent >= 1
	let sections: Vec<usize> = (1..lines.len())
		.filter(|i| {
			let ind = indent_of(lines[*i]);
			let kind = lines[*i][ind..].split('\t').next().unwrap_or("");
			matches!((ind, kind), (0, "c") | (1, "f") | (1, "m") | (2, "p"))
		})
		.collect();
	if sections.is_empty() {
		return Ok(());
	}
	let at = sections[crate::engine::idx(case.pick, sections.len())];
	let ind = indent_of(lines[at]);
	let block_end = (at + 1..lines.len()).find(|j| indent_of(lines[*j]) <= ind).unwrap_or(lines.len());
	let parent_end = if ind == 0 { lines.len() } else { (at + 1..lines.len()).find(|j| indent_of(lines[*j]) < ind).unwrap_or(lines.len()) };
	let mut copy: Vec<String> = match case.variant {
		1 => vec![lines[at].to_string()],
		_ => lines[at..block_end].iter().map(|l| l.to_string()).collect(),
	};
	if case.variant == 2 {
		// same key (the cells up to and including the source name), other names in the last column
		copy[0].push('x');
	}
	let insert_at = if case.at_end { parent_end } else { block_end };
	let mut out: Vec<String> = lines[..insert_at].iter().map(|l| l.to_string()).collect();
	out.extend(copy);
	out.extend(lines[insert_at..].iter().map(|l| l.to_string()));
	let dup_text = out.join("\n") + "\n";
	let kind = ["class", "member", "parameter"][ind];
	let n = case.m.n();
	let result = match n {
		2 => quill::tiny_v2::read::<2, Ns>(dup_text.as_bytes()).map(|m| from_quill(&m)),
		3 => quill::tiny_v2::read::<3, Ns>(dup_text.as_bytes()).map(|m| from_quill(&m)),
		4 => quill::tiny_v2::read::<4, Ns>(dup_text.as_bytes()).map(|m| from_quill(&m)),
		n => return Err(format!("harness: unsupported namespace count {n}")),
	};
	match result {
		Err(_) => {
			obs.label(format!("duplicate_{kind}_refused"));
			obs.label(format!("variant{}{}", case.variant, if case.at_end { ":at_end_of_parent" } else { ":adjacent" }));
			obs.nontrivial();
			Ok(())
		}
		Ok(_) => Err(format!("a text with two {kind} sections of the same key under one parent (line {}: {:?}) was read instead of refused: one of them was merged or lost\ntext:\n{dup_text}", at + 1, lines[at])),
	}
}

pub fn run(ctx: &mut Ctx) {
	ctx.rule = "mapping sets with 2..4 namespaces built from index draws (nested classes with and without outer class, packages, unicode and placeholder-like names, missing cells, multi-line comments, parameters without source name) x two insertion orders x one line order; plus (duplicate_sections_refused) harness-written texts in which one class / member / parameter section is repeated under its parent (whole block, line alone, or with other target names; adjacent or at the end of the parent) and must be refused, because any Ok result merges or loses an entry; non-trivial = >=2 classes, >=1 nested class, >=1 comment and two different insertion orders; distinct by hash of the serialised case".into();
	ctx.assume("names are valid for their duke newtype, valid UTF-8 and contain no TAB/LF/CR (Tiny v2 without escaped-names cannot express them)");
	ctx.assume("top-level Mappings.javadoc is None (Tiny v2 has no such line)");
	let cases = ctx.tier.pick(24000, 2000000);
	ctx.run_sub("roundtrip", cases, || strategy(false), dispatch);
	let cases = ctx.tier.pick(12000, 1000000);
	ctx.run_sub("roundtrip_escapes", cases, || strategy(true), |case: &Case, obs: &mut Obs| {
		let r = dispatch(case, obs);
		let hostile = case.m.all_docs().iter().any(|d| d.contains('\\') || d.contains('\t') || d.contains('\r'));
		obs.label_if(hostile, "comment_needs_escaping");
		r
	});
	ctx.run_sub(
		"duplicate_sections_refused",
		ctx.tier.pick(12000, 600000),
		|| (mapset(cfg(false)), order_seed(), any::<u16>(), 0u8..3, any::<bool>()).prop_map(|(m, order, pick, variant, at_end)| DupCase { m, order, pick, variant, at_end }),
		duplicates,
	);
}
