//! Verification harness for feather-build-rs (property-based testing / fuzzing).
#![allow(clippy::type_complexity)]

pub mod classfile;
pub mod engine;
pub mod jar;
pub mod mapmodel;
pub mod props;
pub mod sandbox;
