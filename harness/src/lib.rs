//! Verification harness for feather-build-rs (property-based testing / fuzzing).
#![allow(clippy::type_complexity)]

pub mod classfile;
pub mod corpus;
pub mod engine;
pub mod fuzzrun;
pub mod jar;
pub mod mapmodel;
pub mod props;
pub mod sandbox;

// ---------------------------------------------------------------------------------------------
// Two source files of the binary crate `feather-build-rs` are compiled into the harness unchanged.
// They refer to these items of their crate root.

pub struct Official;
pub struct Intermediary;
pub struct Named;

pub mod download {
	pub mod versions_manifest {
		#[derive(Debug, Clone, PartialEq, Hash, Eq)]
		pub struct MinecraftVersion(pub String);
	}
}

#[allow(dead_code, unused_imports, unused_variables, clippy::all)]
#[path = "/repo/src/specialized_methods/mod.rs"]
pub mod specialized_methods;

#[allow(dead_code, unused_imports, unused_variables, clippy::all)]
#[path = "/repo/src/version_graph.rs"]
pub mod version_graph;
