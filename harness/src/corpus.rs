//! The vendored corpus: classes compiled once with the image's javac 17 from /verif/corpus/java
//! (sources next to the classes; the checks never invoke javac).

use std::path::{Path, PathBuf};

fn walk(dir: &Path, out: &mut Vec<PathBuf>) {
	let Ok(rd) = std::fs::read_dir(dir) else { return };
	let mut entries: Vec<PathBuf> = rd.filter_map(|e| e.ok().map(|e| e.path())).collect();
	entries.sort();
	for p in entries {
		if p.is_dir() {
			walk(&p, out);
		} else if p.extension().is_some_and(|x| x == "class") {
			out.push(p);
		}
	}
}

/// (path relative to the corpus root, bytes), sorted
pub fn load() -> Vec<(String, Vec<u8>)> {
	let root = Path::new(crate::engine::VERIF).join("corpus").join("classes");
	let mut files = Vec::new();
	walk(&root, &mut files);
	files
		.into_iter()
		.filter_map(|p| {
			let rel = p.strip_prefix(&root).ok()?.to_string_lossy().to_string();
			std::fs::read(&p).ok().map(|b| (rel, b))
		})
		.collect()
}
