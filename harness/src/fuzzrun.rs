//! Coverage-guided campaigns (libFuzzer through cargo-fuzz) for the thorough tiers.
//! The semantic oracle lives inside each target (harness/fuzz/fuzz_targets); a crash artifact is
//! turned into an ordinary replay file of the owning check.

use crate::engine::{Ctx, Scratch, VERIF};
use serde_json::{json, Value};
use std::path::{Path, PathBuf};
use std::process::{Command, Stdio};

pub struct Outcome {
	pub executions: u64,
	/// (kind: crash / oom / timeout, input)
	pub artifacts: Vec<(String, Vec<u8>)>,
	pub note: Option<String>,
	pub seconds: u64,
}

/// Runs `target` for `seconds` from the given seed inputs (fork mode over `ctx.threads` processes).
/// A missing toolchain or a failing build is reported in `note` (the deterministic part of the check stands on its own).
pub fn campaign(ctx: &Ctx, target: &str, seconds: u64, seeds: &[Vec<u8>], max_len: usize) -> Outcome {
	// VERIF_FUZZ_SECONDS lengthens (or shortens) every campaign, e.g. for a long background run
	let seconds = std::env::var("VERIF_FUZZ_SECONDS").ok().and_then(|s| s.trim().parse().ok()).unwrap_or(seconds);
	let mut out = Outcome { executions: 0, artifacts: Vec::new(), note: None, seconds };
	let fuzz_dir = Path::new(VERIF).join("harness").join("fuzz");
	let corpus = Scratch::new("fuzzcorpus");
	let art = Scratch::new("fuzzart");
	for (i, s) in seeds.iter().enumerate() {
		let _ = std::fs::write(corpus.path.join(format!("seed{i:04}")), s);
	}
	let lock = fuzz_dir.join("Cargo.lock");
	if !lock.exists() {
		let _ = std::fs::copy(Path::new(VERIF).join("harness").join("Cargo.lock"), &lock);
	}
	let build = Command::new("cargo").args(["+nightly", "fuzz", "build", target]).current_dir(&fuzz_dir).env("CARGO_NET_OFFLINE", "true").stdout(Stdio::null()).stderr(Stdio::piped()).output();
	match build {
		Ok(o) if o.status.success() => {}
		Ok(o) => {
			let e = String::from_utf8_lossy(&o.stderr);
			out.note = Some(format!("cargo fuzz build {target} failed: {}", e.lines().rev().take(4).collect::<Vec<_>>().join(" | ")));
			return out;
		}
		Err(e) => {
			out.note = Some(format!("cargo +nightly fuzz is not available: {e}"));
			return out;
		}
	}
	let forks = ctx.threads.clamp(1, 16);
	let run = Command::new("cargo")
		.args(["+nightly", "fuzz", "run", target])
		.arg(&corpus.path)
		.arg("--")
		.arg(format!("-artifact_prefix={}/", art.path.display()))
		.arg(format!("-max_total_time={seconds}"))
		.arg(format!("-fork={forks}"))
		.arg(format!("-seed={}", (ctx.seed % 0x7fff_ffff).max(1)))
		.arg(format!("-max_len={max_len}"))
		.args(["-len_control=0", "-timeout=20", "-rss_limit_mb=4096", "-malloc_limit_mb=1024", "-ignore_crashes=0", "-ignore_ooms=0", "-ignore_timeouts=1"])
		.current_dir(&fuzz_dir)
		.env("CARGO_NET_OFFLINE", "true")
		.env("RUST_LIB_BACKTRACE", "0")
		.env("RUST_BACKTRACE", "0")
		.stdout(Stdio::null())
		.stderr(Stdio::piped())
		.output();
	let Ok(run) = run else {
		out.note = Some("could not start cargo fuzz run".into());
		return out;
	};
	let err = String::from_utf8_lossy(&run.stderr);
	// fork mode prints "#<runs>: cov: ..." lines
	for l in err.lines() {
		if let Some(rest) = l.strip_prefix('#') {
			if let Some((n, tail)) = rest.split_once(':') {
				if tail.contains("cov:") {
					if let Ok(n) = n.trim().parse::<u64>() {
						out.executions = out.executions.max(n);
					}
				}
			}
		}
		if let Some(rest) = l.strip_prefix("stat::number_of_executed_units:") {
			if let Ok(n) = rest.trim().parse::<u64>() {
				out.executions = out.executions.max(n);
			}
		}
	}
	if let Ok(rd) = std::fs::read_dir(&art.path) {
		let mut files: Vec<PathBuf> = rd.filter_map(|e| e.ok().map(|e| e.path())).collect();
		files.sort();
		for f in files {
			let name = f.file_name().and_then(|n| n.to_str()).unwrap_or("").to_string();
			let kind = name.split('-').next().unwrap_or("").to_string();
			if let Ok(b) = std::fs::read(&f) {
				out.artifacts.push((kind, b));
			}
		}
	}
	if out.executions == 0 && out.artifacts.is_empty() {
		out.note = Some(format!("campaign produced no statistics: {}", err.lines().rev().take(3).collect::<Vec<_>>().join(" | ")));
	}
	out
}

/// records the campaign in the evidence and turns artifacts into violations via `replay_case`
/// (which builds the JSON case of sub-check `sub` from the raw input and says whether it really fails in-process)
pub fn report(ctx: &mut Ctx, sub: &str, target: &str, o: Outcome, replay_case: &dyn Fn(&[u8]) -> (Value, Result<(), String>)) {
	let mut entry = json!({"target": target, "engine": "libFuzzer (cargo-fuzz), fork mode", "seconds": o.seconds, "executions": o.executions, "artifacts": o.artifacts.len()});
	if let Some(n) = &o.note {
		entry["note"] = json!(n);
	}
	let list = ctx.extra.entry("fuzz_campaigns".to_string()).or_insert_with(|| json!([]));
	if let Some(a) = list.as_array_mut() {
		a.push(entry);
	}
	ctx.add_label(sub, &format!("libfuzzer:{target}:executions"), o.executions);
	for (kind, input) in o.artifacts {
		if kind == "timeout" {
			ctx.inconclusive.push(format!("libFuzzer target {target}: an input of {} bytes ran longer than 20 s", input.len()));
			continue;
		}
		let (case, verdict) = replay_case(&input);
		match verdict {
			Err(reason) => ctx.report_violation(sub, &format!("found by libFuzzer target {target} ({kind}): {reason}"), &case),
			Ok(()) if kind == "oom" => ctx.report_violation(sub, &format!("found by libFuzzer target {target}: an input of {} bytes made a single allocation request above 1 GiB", input.len()), &case),
			Ok(()) => ctx.inconclusive.push(format!("libFuzzer target {target} saved a {kind} artifact of {} bytes that does not fail when replayed in-process", input.len())),
		}
	}
}
