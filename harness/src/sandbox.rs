//! Sandbox for totality checks (C16): a counting global allocator, in-process panic capture, and a
//! parent/child protocol so that stack overflows, aborts and hangs of a case are observed as the
//! death of a child process instead of taking the check down.

use std::alloc::{GlobalAlloc, Layout, System};
use std::cell::Cell;
use std::io::{BufRead, BufReader, Write};
use std::process::{Command, Stdio};
use std::sync::mpsc;
use std::time::Duration;

pub struct CountingAlloc;

thread_local! {
	static MAX_REQUEST: Cell<usize> = const { Cell::new(0) };
}

/// requests above this are refused (the process aborts): nothing legitimate in a check needs it, and it
/// keeps a runaway allocation from touching real memory
const REFUSE_ABOVE: usize = 1 << 36;

fn note(size: usize) {
	let _ = MAX_REQUEST.try_with(|m| {
		if size > m.get() {
			m.set(size);
		}
	});
}

unsafe impl GlobalAlloc for CountingAlloc {
	unsafe fn alloc(&self, l: Layout) -> *mut u8 {
		note(l.size());
		if l.size() > REFUSE_ABOVE {
			return std::ptr::null_mut();
		}
		System.alloc(l)
	}
	unsafe fn alloc_zeroed(&self, l: Layout) -> *mut u8 {
		note(l.size());
		if l.size() > REFUSE_ABOVE {
			return std::ptr::null_mut();
		}
		System.alloc_zeroed(l)
	}
	unsafe fn realloc(&self, p: *mut u8, l: Layout, new_size: usize) -> *mut u8 {
		note(new_size);
		if new_size > REFUSE_ABOVE {
			return std::ptr::null_mut();
		}
		System.realloc(p, l, new_size)
	}
	unsafe fn dealloc(&self, p: *mut u8, l: Layout) {
		System.dealloc(p, l)
	}
}

/// resets the per-thread maximum and returns the previous value
pub fn reset_max_request() -> usize {
	MAX_REQUEST.with(|m| m.replace(0))
}
pub fn max_request() -> usize {
	MAX_REQUEST.with(|m| m.get())
}

/// "memory unrelated to the input size", made deterministic: one request larger than this
pub fn alloc_limit(input_len: usize) -> usize {
	64 * input_len + (16 << 20)
}

#[derive(Clone, Debug, PartialEq, Eq, serde::Serialize, serde::Deserialize)]
pub enum Verdict {
	/// value or clean error
	Fine,
	Panic { site: String, message: String },
	Alloc { request: usize, input_len: usize },
	/// the child died while running the case (stack overflow, abort, refused allocation)
	Crash { signal: String },
	/// no progress within the time limit: inconclusive, never a violation
	Watchdog,
}

/// normalises a panic description into a signature: file name + message with digits collapsed
pub fn signature(site: &str, message: &str) -> String {
	let file = site.rsplit('/').next().unwrap_or(site).split(':').next().unwrap_or(site);
	let mut msg = String::new();
	let mut last_digit = false;
	for c in message.chars().take(80) {
		if c.is_ascii_digit() {
			if !last_digit {
				msg.push('#');
			}
			last_digit = true;
		} else {
			msg.push(c);
			last_digit = false;
		}
	}
	format!("{file}|{msg}")
}

/// Runs one case in-process: panics are caught, the largest allocation request is measured.
pub fn run_guarded(input_len: usize, f: impl FnOnce()) -> Verdict {
	reset_max_request();
	let r = crate::engine::no_panic(f);
	let req = max_request();
	match r {
		Err(desc) => {
			// "panic at <site>: <message>"
			let rest = desc.strip_prefix("panic at ").unwrap_or(&desc);
			let (site, message) = rest.split_once(": ").unwrap_or((rest, ""));
			Verdict::Panic { site: site.to_string(), message: message.to_string() }
		}
		Ok(()) if req > alloc_limit(input_len) => Verdict::Alloc { request: req, input_len },
		Ok(()) => Verdict::Fine,
	}
}

// ---------------------------------------------------------------------------------------------
// parent side

pub struct ChildReport {
	/// (case index, verdict) for every case that was not Fine
	pub findings: Vec<(u64, Verdict)>,
	/// the final statistics line of every child incarnation (JSON)
	pub stats: Vec<serde_json::Value>,
	pub executed: u64,
}

/// Runs shard `shard` of `nshards` in child processes of the current executable:
/// `<exe> <args...> --child <shard> <nshards> <start>`.  The child prints `S <i>` before case i,
/// `R <i> <verdict json>` for a non-fine verdict, `E <stats json>` at the end.
pub fn run_shard(args: &[String], shard: usize, nshards: usize, stall: Duration) -> ChildReport {
	let exe = std::env::current_exe().expect("current exe");
	let mut report = ChildReport { findings: Vec::new(), stats: Vec::new(), executed: 0 };
	let mut start: u64 = 0;
	let mut restarts = 0;
	loop {
		let mut child = Command::new(&exe)
			.args(args)
			.arg("--child")
			.arg(shard.to_string())
			.arg(nshards.to_string())
			.arg(start.to_string())
			.stdin(Stdio::null())
			.stdout(Stdio::piped())
			.stderr(Stdio::null())
			.spawn()
			.expect("spawn child");
		let stdout = child.stdout.take().expect("child stdout");
		let (tx, rx) = mpsc::channel::<String>();
		let reader = std::thread::spawn(move || {
			for line in BufReader::new(stdout).lines() {
				let Ok(line) = line else { break };
				if tx.send(line).is_err() {
					break;
				}
			}
		});
		let mut current: Option<u64> = None;
		let mut finished = false;
		let mut timed_out = false;
		loop {
			match rx.recv_timeout(stall) {
				Ok(line) => {
					if let Some(i) = line.strip_prefix("S ") {
						current = i.trim().parse().ok();
						report.executed += 1;
					} else if let Some(rest) = line.strip_prefix("R ") {
						if let Some((i, js)) = rest.split_once(' ') {
							if let (Ok(i), Ok(v)) = (i.parse::<u64>(), serde_json::from_str::<Verdict>(js)) {
								report.findings.push((i, v));
							}
						}
					} else if let Some(js) = line.strip_prefix("E ") {
						if let Ok(v) = serde_json::from_str(js) {
							report.stats.push(v);
						}
						finished = true;
					}
				}
				Err(mpsc::RecvTimeoutError::Timeout) => {
					timed_out = true;
					let _ = child.kill();
					break;
				}
				Err(mpsc::RecvTimeoutError::Disconnected) => break,
			}
		}
		let status = child.wait();
		let _ = reader.join();
		if finished {
			return report;
		}
		// the child died (or hung) while running `current`
		let Some(i) = current else {
			report.findings.push((u64::MAX, Verdict::Crash { signal: format!("child died before its first case: {status:?}") }));
			return report;
		};
		if timed_out {
			report.findings.push((i, Verdict::Watchdog));
		} else {
			use std::os::unix::process::ExitStatusExt;
			let sig = status.ok().and_then(|s| s.signal()).map(|s| format!("signal {s}")).unwrap_or_else(|| "exit".to_string());
			report.findings.push((i, Verdict::Crash { signal: sig }));
		}
		start = i + 1;
		restarts += 1;
		if restarts > 2000 {
			report.findings.push((u64::MAX, Verdict::Crash { signal: "more than 2000 child restarts".into() }));
			return report;
		}
	}
}

/// child side helper: prints protocol lines unbuffered
pub struct ChildOut {
	out: std::io::Stdout,
}

impl Default for ChildOut {
	fn default() -> Self {
		ChildOut { out: std::io::stdout() }
	}
}

impl ChildOut {
	pub fn start(&mut self, i: u64) {
		let _ = writeln!(self.out, "S {i}");
		let _ = self.out.flush();
	}
	pub fn verdict(&mut self, i: u64, v: &Verdict) {
		let _ = writeln!(self.out, "R {i} {}", serde_json::to_string(v).unwrap_or_default());
		let _ = self.out.flush();
	}
	pub fn end(&mut self, stats: &serde_json::Value) {
		let _ = writeln!(self.out, "E {stats}");
		let _ = self.out.flush();
	}
}
