#!/bin/bash
# Background sweeps (exploration only, never evidence): meant for
#   vp run --with-repo --timeout 6h -- tools/bg_sweep.sh <tier> "<seeds>" [ids...]
# Runs in a snapshot of /verif (cwd) against the snapshot of /repo in $VP_RUN_REPO, so that edits and
# mutation runs in /verif and /repo do not disturb it.  Absolute paths in the snapshot's harness are
# re-pointed with sed; nothing in /verif or /repo is touched.
set -u
tier="${1:-thorough}"; seeds="${2:-2 3}"; shift 2 || true
ids="${*:-C01 C02 C03 C04 C05 C06 C07 C08 C09 C10 C11 C12 C13 C14 C15 C16 C17 C18 C19 C20}"
ROOT="$(pwd)"; REPO="${VP_RUN_REPO:-/repo}"
grep -rlE '/verif|/repo' harness/Cargo.toml harness/.cargo/config.toml harness/src harness/fuzz/Cargo.toml harness/fuzz/fuzz_targets check 2>/dev/null | while read -r f; do
  sed -i -e "s#\"/repo#\"$REPO#g" -e "s#/verif#$ROOT#g" "$f"
done
export CARGO_NET_OFFLINE=true
( cd harness && cargo build --offline --bin check 2>&1 | tail -2 )
for s in $seeds; do for id in $ids; do
  t0=$(date +%s)
  out=$(VERIF_SEED=$s "$ROOT/harness/target/debug/check" "$id" --tier "$tier" 2>&1); rc=$?
  echo "== $id tier=$tier seed=$s rc=$rc $(( $(date +%s)-t0 ))s :: $(echo "$out" | tail -1)"
  if [ $rc -ne 0 ]; then echo "$out" | grep -E 'VIOLATION|sub-check|INCONCLUSIVE' | head -20; fi
done; done
echo "replay files kept under $ROOT/replays/*/fail-*.json:"; ls "$ROOT"/replays/*/fail-*.json 2>/dev/null
