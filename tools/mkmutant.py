#!/usr/bin/env python3
"""usage: mkmutant.py NAME FILE OLD NEW  — replaces the first occurrence of OLD by NEW in /repo/FILE,
checks that the workspace still compiles, saves `git diff` as /verif/mutants/NAME.diff and reverts."""
import sys, subprocess
name, path, old, new = sys.argv[1:5]
p = '/repo/' + path
s = open(p).read()
if old not in s:
    sys.exit(f"pattern not found in {path}")
open(p, 'w').write(s.replace(old, new, 1))
r = subprocess.run("cd /repo && cargo check --workspace --offline 2>&1 | grep -E '^error' -A6 | head -20", shell=True, capture_output=True, text=True)
diff = subprocess.run(['git', '-C', '/repo', 'diff'], capture_output=True, text=True).stdout
subprocess.run(['git', '-C', '/repo', 'checkout', '--', '.'])
if r.stdout.strip():
    sys.exit("mutant does not compile:\n" + r.stdout)
open(f'/verif/mutants/{name}.diff', 'w').write(diff)
print("saved", name)
