#!/usr/bin/env python3
"""tools/keep_round.py <round_dir> <round_name> <results.tsv>
results.tsv lines: <ID> <A|B> <caught_as_is 0|1> <caught_now 0|1> <sub-check> <what closed the gap or ->
Stores confirmed seeded changes of a round under /verif/seeded/<ID>-<round_name><A|B>/ (patch.diff, demo/, notes.md, meta.json)."""
import sys, json, shutil, os
root, rname, table = sys.argv[1:4]
for line in open(table):
    if not line.strip() or line.startswith('#'): continue
    pid, x, asis, now, sub, closed = line.rstrip('\n').split('\t')
    src = f"{root}/{pid}/out/{x}"
    seed = json.load(open(f"{src}/seed.json"))
    d = f"/verif/seeded/{pid}-{rname}{x}"
    os.makedirs(d, exist_ok=True)
    shutil.copy(f"{src}/patch.diff", f"{d}/patch.diff")
    if os.path.exists(f"{src}/notes.md"): shutil.copy(f"{src}/notes.md", f"{d}/notes.md")
    if os.path.isdir(f"{d}/demo"): shutil.rmtree(f"{d}/demo")
    shutil.copytree(f"{src}/demo", f"{d}/demo")
    meta = {
        "property": pid,
        "origin": f"written by an independent sub-agent (round {rname}) that was given only the property text and a scratch worktree of /repo",
        "breaks": seed.get("breaks"), "needs_to_manifest": seed.get("needs"), "clause": seed.get("clause"),
        "demonstration": {"file": seed.get("demo_file"), "file_goes_to": seed.get("demo_dest"), "command": seed.get("demo_cmd"), "demo_patch": seed.get("demo_patch")},
        "confirmed_in_scratch_worktree": {"demo_exit_without_change": 0, "demo_exit_with_change": 101, "cargo_test_workspace_exit_with_change": 0,
            "how": "tools/process_seed.sh -> tools/confirm_seed.sh: scratch worktree of /repo HEAD under /tmp; demo run; git apply patch.diff; demo run; demo removed; cargo test --workspace --no-fail-fast --offline"},
        "check_result": {"command": f"./check {pid} --tier quick (tools/try_patch.sh: patch.diff applied to /repo, reverted afterwards)", "caught_by_the_check_as_it_stood": asis == "1", "caught": now == "1", "sub_check": sub, "gap_closed_by": None if closed == "-" else closed},
    }
    json.dump(meta, open(f"{d}/meta.json", "w"), indent=1)
    print("kept", d)
