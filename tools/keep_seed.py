#!/usr/bin/env python3
"""tools/keep_seed.py <seed_out_dir> <dest_id e.g. C09-A> <property> <demo_dest_rel> <demo_cmd> <caught 0|1> <sub-check> <breaks> <needs>
Stores a confirmed seeded change under /verif/seeded/<dest_id>/ (patch.diff, demo/, notes.md, meta.json)."""
import sys, json, shutil, os
src, dest_id, prop, demo_dest, demo_cmd, caught, sub, breaks, needs = sys.argv[1:10]
d = f"/verif/seeded/{dest_id}"
os.makedirs(d, exist_ok=True)
shutil.copy(f"{src}/patch.diff", f"{d}/patch.diff")
if os.path.exists(f"{src}/notes.md"): shutil.copy(f"{src}/notes.md", f"{d}/notes.md")
if os.path.isdir(f"{d}/demo"): shutil.rmtree(f"{d}/demo")
shutil.copytree(f"{src}/demo", f"{d}/demo")
meta = {
 "property": prop,
 "origin": "written by an independent sub-agent (third round) that was given only the property text and a scratch worktree of /repo",
 "breaks": breaks,
 "needs_to_manifest": needs,
 "demonstration": {"file_goes_to": demo_dest, "command": demo_cmd},
 "confirmed_in_scratch_worktree": {"demo_exit_without_change": 0, "demo_exit_with_change": 101, "cargo_test_workspace_exit_with_change": 0,
   "how": "tools/confirm_seed.sh: scratch worktree of /repo HEAD under /tmp; demo run; git apply patch.diff; demo run; demo removed; cargo test --workspace --no-fail-fast --offline"},
 "check_result": {"command": f"./check {prop} --tier quick (tools/try_patch.sh: patch.diff applied to /repo, reverted afterwards)", "exit": 1 if caught == "1" else 0, "caught": caught == "1", "sub_check": sub},
}
json.dump(meta, open(f"{d}/meta.json", "w"), indent=1)
print("kept", d)
