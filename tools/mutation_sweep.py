#!/usr/bin/env python3
"""Systematic sensitivity sweep: small syntactic mutations of the anchored source files, each run against
the quick tier of the check(s) that own the file.  Works on private copies (a scratch worktree of /repo and
a re-pointed copy of the harness under /tmp/msweep), never on /repo or /verif themselves.

usage: tools/mutation_sweep.py <group> [--max N] [--seed S] [--out FILE]
       groups are listed in GROUPS below (file list + check ids)
Output: one JSON line per mutant {file, line, op, before, after, result: killed|survived|nocompile|inconclusive, by}
Survivors are triaged by hand (equivalent mutant / outside the property / gap) in /verif/mutants/sweep/TRIAGE.md.
"""
import json, os, random, re, subprocess, sys, shutil, time

ROOT = os.environ.get("MSWEEP_ROOT", "/tmp/msweep")
REPO = f"{ROOT}/repo"
VERIF = f"{ROOT}/verif"

GROUPS = {
    "C01": (["duke/src/class_reader.rs", "duke/src/class_reader/pool.rs", "duke/src/class_reader/labels.rs"], ["C01", "C17"]),
    "C02": (["duke/src/simple_class_writer.rs", "duke/src/simple_class_writer/pool.rs", "duke/src/simple_class_writer/labels.rs"], ["C02"]),
    "C03": (["quill/src/tiny_v2.rs", "quill/src/lines.rs"], ["C03", "C04"]),
    "C04": (["quill/src/action/apply_diff.rs", "quill/src/action/diff_mappings.rs", "quill/src/tiny_v2_diff.rs", "quill/src/tree/mappings_diff/action.rs"], ["C04", "C09", "C10"]),
    "C05": (["src/version_graph.rs"], ["C05"]),
    "C06": (["quill/src/remapper.rs"], ["C06", "C15", "C08"]),
    "C07": (["dukebox/src/remap.rs"], ["C07"]),
    "C08": (["quill/src/action/reorder.rs"], ["C08"]),
    "C09": (["quill/src/action/merge.rs"], ["C09"]),
    "C10": (["quill/src/action/remove_dummy.rs", "quill/src/action/insert_dummy.rs"], ["C10"]),
    "C11": (["quill/src/action/extend_inner_class_names.rs"], ["C11"]),
    "C12": (["quill/src/enigma_file.rs", "quill/src/enigma_dir.rs"], ["C12"]),
    "C13": (["dukebox/src/merge.rs"], ["C13"]),
    "C14": (["dukenest/src/nester_jar.rs", "dukenest/src/nester_run.rs", "dukenest/src/nests_mapper_run.rs", "dukenest/src/io.rs"], ["C14"]),
    "C15": (["src/specialized_methods/mod.rs"], ["C15"]),
    "C17": (["duke/src/tree/class.rs", "duke/src/tree/field.rs", "duke/src/tree/method.rs", "duke/src/tree/method/code.rs", "duke/src/tree/record.rs"], ["C17", "C02", "C01", "C18", "C11"]),
    "C18": (["duke/src/tree/descriptor.rs", "duke/src/tree/mod.rs"], ["C18", "C02"]),
    "C19": (["maven_dependency_resolver/src/lib.rs", "maven_dependency_resolver/src/maven_pom_done.rs", "maven_dependency_resolver/src/tree.rs", "maven_dependency_resolver/src/coord.rs"], ["C19"]),
    "C20": (["raw_class_file/src/lib.rs", "raw_class_file/src/macros.rs"], ["C20"]),
    "Q1": (["quill/src/tree/mappings.rs", "quill/src/tree/mod.rs", "quill/src/tree/mappings_diff.rs", "quill/src/tree/names.rs"], ["C03", "C04", "C09", "C08", "C11", "C06"]),
    "J1": (["dukebox/src/storage/parsed.rs", "dukebox/src/storage/zip_impls.rs", "dukebox/src/storage/opened_jar.rs", "dukebox/src/storage/lazy_class_file.rs", "dukebox/src/storage/jar_entry.rs", "dukebox/src/storage/zip_mem_unnamed.rs", "dukebox/src/storage/zip_mem_named.rs", "dukebox/src/storage/is_class.rs"], ["C07", "C13", "C14", "C15"]),
    "D1": (["duke/src/jstring.rs", "duke/src/lib.rs", "duke/src/class_constants.rs", "duke/src/tree/annotation.rs", "duke/src/tree/type_annotation.rs", "duke/src/tree/module.rs", "duke/src/tree/version.rs"], ["C01", "C02", "C18", "C17"]),
    "V1": (["duke/src/visitor/implementations/tree.rs", "duke/src/visitor/simple/class.rs", "duke/src/visitor/implementations/unit_tuple.rs", "duke/src/visitor/class.rs", "duke/src/visitor/method.rs", "duke/src/visitor/method/code.rs"], ["C17", "C01", "C15"]),
}

OPS = [
    ("eq->ne", re.compile(r" == "), " != "),
    ("ne->eq", re.compile(r" != "), " == "),
    ("le->lt", re.compile(r" <= "), " < "),
    ("ge->gt", re.compile(r" >= "), " > "),
    ("lt->le", re.compile(r" < "), " <= "),
    ("gt->ge", re.compile(r" > "), " >= "),
    ("and->or", re.compile(r" && "), " || "),
    ("or->and", re.compile(r" \|\| "), " && "),
    ("plus1->0", re.compile(r"\+ 1\b"), "+ 0"),
    ("minus1->0", re.compile(r"- 1\b"), "- 0"),
    ("plus->minus", re.compile(r" \+ (?=[a-z_(])"), " - "),
    ("true->false", re.compile(r"\btrue\b"), "false"),
    ("false->true", re.compile(r"\bfalse\b"), "true"),
    ("rev-removed", re.compile(r"\.rev\(\)"), ""),
    ("not-removed", re.compile(r"\bif !(?=[a-z_(])"), "if "),
    ("is_some->is_none", re.compile(r"\.is_some\(\)"), ".is_none()"),
    ("is_none->is_some", re.compile(r"\.is_none\(\)"), ".is_some()"),
    ("first->last", re.compile(r"\.first\(\)"), ".last()"),
    ("last->first", re.compile(r"\.last\(\)"), ".first()"),
    ("rsplit->split", re.compile(r"\.rsplit_once\("), ".split_once("),
    ("split->rsplit", re.compile(r"(?<![r_])split_once\("), "rsplit_once("),
    ("starts->ends", re.compile(r"\.starts_with\("), ".ends_with("),
    ("remap-removed", re.compile(r"\.remap\(remapper\)\?"), ""),
    ("remap-cn-removed", re.compile(r"\.remap_with_class_name\(remapper, [a-z_&.]+\)\?"), ""),
    ("int+1", re.compile(r"(?<![\w.\"'])(\d{1,3})(?=[,;)\] ]|$)"), None),  # small integer literal n -> n+1
    ("stmt-deleted", None, None),  # a single-line call statement removed
]

STMT = re.compile(r"^\s*(?!let |return|break|continue|use |pub |fn |mod |const |static |type |impl |#|//|assert|debug_assert|eprintln|println|bail!|unreachable|panic!|todo!)[a-zA-Z_][\w.:]*(\.[\w]+)*\(.*\)\??;\s*(//.*)?$")


def strip_comment(line):
    i = line.find("//")
    return line if i < 0 else line[:i]


def sites(path):
    text = open(path).read().split("\n")
    out = []
    in_test = False
    in_block = False
    for ln, line in enumerate(text):
        if in_block:
            if "*/" in line:
                in_block = False
            continue
        if line.strip().startswith("/*") and "*/" not in line:
            in_block = True
            continue
        code = strip_comment(line)
        if re.search(r"#\[cfg\(test\)\]", code):
            in_test = True  # test modules sit at the end of the files
        if in_test or not code.strip():
            continue
        s = code.strip()
        if s.startswith(("#", "use ", "//", "assert", "debug_assert", "eprintln", "println", "log::", "warn!", "info!", "trace!")):
            continue
        if "bail!(" in s or "anyhow!(" in s or ".context(" in s or "with_context(" in s or "format!(" in s:
            # messages only; comparisons on such lines are rare and string edits are not semantic
            pass
        for name, rx, repl in OPS:
            if name == "stmt-deleted":
                if STMT.match(line) and not any(k in line for k in ("bail!", "anyhow!")):
                    out.append((ln, name, 0, line, re.sub(r"\S.*$", "{}", line, count=1)))
                continue
            for k, m in enumerate(rx.finditer(code)):
                if '"' in code[: m.start()] and code[: m.start()].count('"') % 2 == 1:
                    continue  # inside a string literal
                if name == "int+1":
                    n = int(m.group(1))
                    new = code[: m.start(1)] + str(n + 1) + code[m.end(1):]
                else:
                    new = code[: m.start()] + repl + code[m.end():]
                out.append((ln, name, k, line, new + line[len(code):]))
    return text, out


def sh(cmd, cwd=None, timeout=900, env=None):
    # own session, so that a timeout kills the whole process group (a mutant may loop forever)
    import signal
    p = subprocess.Popen(cmd, shell=True, cwd=cwd, stdout=subprocess.PIPE, stderr=subprocess.STDOUT, text=True, env=env, start_new_session=True)
    try:
        out, _ = p.communicate(timeout=timeout)
        return p.returncode, out
    except subprocess.TimeoutExpired:
        try:
            os.killpg(p.pid, signal.SIGKILL)
        except ProcessLookupError:
            pass
        p.wait()
        return 124, "timeout"


def setup():
    os.makedirs(ROOT, exist_ok=True)
    if not os.path.isdir(REPO):
        rc, out = sh(f"git -C /repo worktree add -q --detach {REPO} HEAD")
        assert rc == 0, out
    sh(f"git -C {REPO} checkout -q --detach $(git -C /repo rev-parse HEAD) && git -C {REPO} checkout -q -- .")
    if os.path.isdir(VERIF):
        # keep the build output, refresh the sources
        sh(f"rsync -a --delete --exclude target --exclude .git /verif/ {VERIF}/")
    else:
        sh(f"rsync -a --exclude target --exclude .git /verif/ {VERIF}/")
    sh(
        f"grep -rlE '/verif|/repo' harness/Cargo.toml harness/.cargo/config.toml harness/src check | while read -r f; do "
        f"sed -i -e 's#\"/repo#\"{REPO}#g' -e 's#/verif#{VERIF}#g' \"$f\"; done",
        cwd=VERIF,
    )
    rc, out = sh("cargo build --offline --bin check 2>&1 | tail -3", cwd=f"{VERIF}/harness", timeout=3000)
    print("setup build:", out.strip().split("\n")[-1], flush=True)


def main():
    group = sys.argv[1]
    args = sys.argv[2:]
    mx = int(args[args.index("--max") + 1]) if "--max" in args else 60
    seed = int(args[args.index("--seed") + 1]) if "--seed" in args else 1
    out_path = args[args.index("--out") + 1] if "--out" in args else f"/verif/mutants/sweep/{group}.jsonl"
    os.makedirs(os.path.dirname(out_path), exist_ok=True)
    files, checks = GROUPS[group]
    setup()
    env = dict(os.environ, CARGO_NET_OFFLINE="true", VERIF_SEED="1")
    allsites = []
    texts = {}
    for f in files:
        p = f"{REPO}/{f}"
        if not os.path.exists(p):
            continue
        text, ss = sites(p)
        texts[f] = text
        allsites += [(f,) + s for s in ss]
    done = set()
    if os.path.exists(out_path):
        for l in open(out_path):
            try:
                r = json.loads(l)
                done.add((r["file"], r["line"], r["op"], r.get("k", 0)))
            except Exception:
                pass
    rng = random.Random(seed)
    rng.shuffle(allsites)
    todo = [s for s in allsites if (s[0], s[1] + 1, s[2], s[3]) not in done][:mx]
    if "--retry-survivors" in args:
        # run the logged survivors again (after a check was strengthened or the group's check list grew); the report uses the latest record
        last = {}
        for l in open(out_path):
            r = json.loads(l)
            last[(r["file"], r["line"], r["op"], r.get("k", 0))] = r["result"]
        want = {k for k, v in last.items() if v in ("survived", "inconclusive")}
        todo = [s for s in allsites if (s[0], s[1] + 1, s[2], s[3]) in want]
    print(f"{group}: {len(allsites)} sites, {len(done)} done before, running {len(todo)}", flush=True)
    with open(out_path, "a") as log:
        for f, ln, op, k, before, after in todo:
            p = f"{REPO}/{f}"
            text = list(texts[f])
            text[ln] = after
            open(p, "w").write("\n".join(text))
            t0 = time.time()
            rc, out = sh("cargo build --offline --bin check 2>&1 | tail -30", cwd=f"{VERIF}/harness", timeout=1200, env=env)
            result, by = None, None
            if "error" in out and "Finished" not in out:
                result = "nocompile"
            else:
                result = "survived"
                for c in checks:
                    rc, o = sh(f"{VERIF}/harness/target/debug/check {c} --tier quick", cwd=VERIF, timeout=600, env=env)
                    if rc == 1:
                        result, by = "killed", c
                        m = re.search(r"sub-check ([\w/]+)", o)
                        if m:
                            by = f"{c}/{m.group(1)}"
                        break
                    if rc != 0:
                        result, by = "inconclusive", f"{c} rc={rc}"
            open(p, "w").write("\n".join(texts[f]))
            sh(f"rm -f {VERIF}/replays/*/fail-*.json")
            rec = {"file": f, "line": ln + 1, "op": op, "k": k, "before": before.strip(), "after": after.strip(), "result": result, "by": by, "secs": round(time.time() - t0, 1)}
            log.write(json.dumps(rec) + "\n")
            log.flush()
            print(json.dumps(rec), flush=True)
    sh(f"git -C {REPO} checkout -q -- .")


if __name__ == "__main__":
    main()
