#!/usr/bin/env python3
"""Writes /verif/mutants/sweep/TRIAGE.md from the sweep logs and triage.json; lists untriaged survivors."""
import json, glob, collections, os
tri = json.load(open('/verif/mutants/sweep/triage.json'))
prefix_rules = [
 ("maven_dependency_resolver/src/tree.rs", 140, 175, "outside", "tree pretty-printer (Display of the dependency tree), not part of the resolved list"),
 ("maven_dependency_resolver/src/coord.rs", 165, 185, "outside", "timestamped-snapshot directory rule (to_snapshot_version); the statement's subset is literal versions, the URL layout is not part of it"),
 ("maven_dependency_resolver/src/coord.rs", 70, 100, "outside", "download URL layout (make_url), not part of the resolved list or of Display/parse"),
 ("maven_dependency_resolver/src/coord.rs", 245, 295, "equivalent", "artifact-handler table columns (language, added to classpath, includes dependencies) that nothing reads"),
 ("quill/src/enigma_file.rs", 82, 82, "equivalent", "line number in an error text"),
 ("dukenest/src/io.rs", 18, 18, "equivalent", "line number in an error text"),
 ("duke/src/tree/version.rs", 1, 80, "outside", "named version constants (V1_8, V17, ...): nothing on the paths of the listed properties reads them, versions travel as numbers"),
]
out = ["# Mutation sweep: results and triage of survivors", "", "Produced by tools/mutation_sweep.py (quick tier of the owning checks, seed 1); survivors triaged by hand in triage.json.", ""]
untri = []
tot = collections.Counter()
for f in sorted(glob.glob('/verif/mutants/sweep/*.jsonl')):
    rs = list({(r['file'], r['line'], r['op'], r.get('k', 0)): r for r in (json.loads(l) for l in open(f))}.values())  # latest record per mutant
    c = collections.Counter(r['result'] for r in rs)
    tot.update(c)
    g = os.path.basename(f)[:-6]
    out.append(f"## {g}: {len(rs)} mutants — {c.get('killed',0)} killed, {c.get('survived',0)+c.get('inconclusive',0)} survived, {c.get('nocompile',0)} did not compile")
    for r in rs:
        if r['result'] in ('survived', 'inconclusive'):
            key = f"{r['file']}:{r['line']}:{r['op']}:{r.get('k',0)}"
            t = tri.get(key)
            if not t:
                for p, lo, hi, cl, note in prefix_rules:
                    if r['file'] == p and lo <= r['line'] <= hi: t = [cl, note]
            if not t:
                if r['before'].startswith('f.write_str(') or r['before'].startswith('d.finish()'):
                    t = ["outside", "Debug output"]
                elif r['before'] in ('has_synthetic_attribute: false,', 'has_deprecated_attribute: false,'):
                    t = ["equivalent", "default of a constructor that the reader / builder overwrites"]
            if not t:
                untri.append(key + " | " + r['before'][:100] + " => " + r['after'][:100]); t = ["UNTRIAGED", ""]
            out.append(f"* `{r['file']}:{r['line']}` {r['op']}: `{r['before'][:90]}` → `{r['after'][:90]}` — **{t[0]}**: {t[1]}")
    out.append("")
out.insert(3, f"Total: {sum(tot.values())} mutants, {tot.get('killed',0)} killed, {tot.get('survived',0)+tot.get('inconclusive',0)} survived, {tot.get('nocompile',0)} did not compile.")
open('/verif/mutants/sweep/TRIAGE.md', 'w').write("\n".join(out) + "\n")
print("\n".join(untri) if untri else "all survivors triaged")
