#!/bin/bash
# Sensitivity testing: apply each patch in /verif/mutants (or /verif/seeded/*/patch.diff) to /repo's
# working tree, run the quick check of the property it targets, expect exit 1, revert.
# usage: tools/run_mutants.sh [pattern]
cd /verif
pat="${1:-}"
status=0
if [ -n "$(git -C /repo status --porcelain --untracked-files=no)" ]; then echo "/repo working tree not clean"; exit 2; fi
for f in mutants/*.diff seeded/*/patch.diff; do
  [ -f "$f" ] || continue
  case "$f" in *"$pat"*) ;; *) continue;; esac
  if [[ "$f" == mutants/* ]]; then id=$(basename "$f" | cut -d- -f1); else id=$(python3 -c "import json,sys;print(json.load(open('$(dirname $f)/meta.json'))['property'])"); fi
  if ! git -C /repo apply --check "/verif/$f" 2>/dev/null; then echo "SKIP  $f (does not apply)"; continue; fi
  git -C /repo apply "/verif/$f"
  out=$(./check "$id" --tier quick 2>/dev/null); rc=$?
  git -C /repo checkout -- . ; git -C /repo clean -fdq -e target 2>/dev/null
  rm -f replays/$id/fail-*.json
  if [ $rc -eq 1 ]; then echo "CAUGHT $f ($id) $(echo "$out" | grep -m1 'sub-check' | cut -c1-110)"; else echo "MISSED $f ($id) rc=$rc"; status=1; fi
done
exit $status
