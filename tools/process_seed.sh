#!/bin/bash
# tools/process_seed.sh <round_dir e.g. /tmp/seed6> <ID> <A|B> [tier]
# confirms a sub-agent's change in a scratch worktree (tools/confirm_seed.sh), then tries it against the check (tools/try_patch.sh)
set -u
root="$1"; id="$2"; x="$3"; tier="${4:-quick}"
d="$root/$id/out/$x"
[ -f "$d/seed.json" ] || { echo "$id-$x: no seed.json"; exit 2; }
j() { python3 -c "import json,sys; v=json.load(open('$d/seed.json')).get(sys.argv[1]); print(v if v else '')" "$1"; }
demo_file=$(j demo_file); demo_dest=$(j demo_dest); demo_cmd=$(j demo_cmd); demo_patch=$(j demo_patch)
extra=""; [ -n "$demo_patch" ] && extra="$d/demo/$demo_patch"
echo "== $id-$x: $(j breaks)"
if [ -n "$demo_patch" ] && [ -z "$demo_file" -o "$demo_file" = "$demo_patch" ]; then
  # demo is only a patch: give confirm_seed a dummy file
  echo "// placeholder" > /tmp/seed_placeholder.rs; demo_src=/tmp/seed_placeholder.rs; demo_dest=".seed_placeholder"
else demo_src="$d/demo/$demo_file"; fi
/verif/tools/confirm_seed.sh "$d" "$demo_src" "$demo_dest" "$demo_cmd" "$extra" | tail -2
/verif/tools/try_patch.sh "$d/patch.diff" "$id" "$tier"
