#!/bin/bash
# tools/try_patch.sh <patch> <ID> [tier]: apply patch to /repo, run the check, revert. Prints CAUGHT/MISSED.
cd /verif
p="$1"; id="$2"; tier="${3:-quick}"
if [ -n "$(git -C /repo status --porcelain --untracked-files=no)" ]; then echo "/repo working tree not clean"; exit 2; fi
git -C /repo apply "$p" || { echo "does not apply"; exit 2; }
out=$(./check "$id" --tier "$tier" 2>/dev/null); rc=$?
git -C /repo checkout -- . ; git -C /repo clean -fdq -e target 2>/dev/null
rm -f replays/$id/fail-*.json; git checkout -q -- evidence/$id.json
if [ $rc -eq 1 ]; then echo "CAUGHT $p ($id)"; echo "$out" | grep -m3 -A3 'sub-check' | cut -c1-300; else echo "MISSED $p ($id) rc=$rc"; echo "$out" | tail -3; fi
