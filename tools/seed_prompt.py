#!/usr/bin/env python3
"""tools/seed_prompt.py <round_dir e.g. /tmp/seed7> <ID> [n_changes]
Creates <round_dir>/<ID>/{wt (scratch worktree of /repo HEAD), out/A, out/B...} and prints the prompt for a fresh sub-agent.
The prompt contains the property (as given in properties.jsonl), the list of earlier seeded changes to the repository for
that property ("do not repeat": descriptions of changes to /repo, nothing about /verif), and the delivery format."""
import sys, json, os, glob, subprocess
root, pid = sys.argv[1], sys.argv[2]
n = int(sys.argv[3]) if len(sys.argv) > 3 else 2
letters = "ABCDEFGH"[:n]
prop = None
for l in open('/verif/properties.jsonl'):
    p = json.loads(l)
    if p['id'] == pid: prop = p
assert prop
base = f"{root}/{pid}"
os.makedirs(base, exist_ok=True)
for x in letters: os.makedirs(f"{base}/out/{x}/demo", exist_ok=True)
wt = f"{base}/wt"
if not os.path.isdir(wt):
    subprocess.check_call(["git", "-C", "/repo", "worktree", "add", "-q", "--detach", wt, "HEAD"])
earlier = []
for m in sorted(glob.glob(f"/verif/seeded/{pid}*/meta.json")):
    j = json.load(open(m))
    b = j.get("breaks")
    if b: earlier.append("- " + " ".join(str(b).split()))
prompt = f"""You are helping to evaluate how well a verification effort protects a Rust code base. Your job is to play a careless-but-plausible maintainer: write realistic changes to the repository that BREAK one stated semantic property while everything a normal developer would look at stays green.

The repository (zeichenreihe/feather-build-rs: a Rust workspace for Java class-file reading/writing (duke, raw_class_file), jar handling (dukebox, dukenest), Minecraft mapping-file tooling (quill), a Maven resolver, and a binary crate in src/) is checked out for you as a private scratch git worktree at

    {wt}

Work ONLY inside that directory and inside {base}/out/. Do NOT read or write /repo or /verif (or anything under them) and do not look for other copies of verification material; your work must be independent. There is no network: always pass --offline to cargo (CARGO_NET_OFFLINE=true). The existing test suite is run with `cargo test --workspace --no-fail-fast --offline` from the worktree root (47 tests, all passing now).

THE PROPERTY (given, fixed):

{json.dumps(prop, indent=1, ensure_ascii=False)}

WHAT TO DELIVER: {n} independent changes ({', '.join(letters)}), each a small, realistic-looking modification of the repository's non-test source code (a refactoring slip, an "optimisation", a fast path, a well-meant hardening, a wrong boundary, a copy-paste slip, state kept from one item to the next, an ordering/aliasing assumption, two sites that each look fine alone...), such that with the change applied:
  1. the workspace still compiles (no new warnings turned errors) and `cargo test --workspace --no-fail-fast --offline` still passes completely, unedited;
  2. the property above is violated for SOME inputs / histories, but NOT for the ones ordinary use or small simple inputs would exercise at once. The violation must need something specific to manifest: an unusual but legal input, a size beyond a threshold, two features that must coincide, a particular order of operations or insertion, a multi-step sequence, state carried over between items, aliasing, a legal-but-rare encoding, a boundary value. Prefer triggers that a random generator of small inputs would rarely hit by accident, and prefer code paths and clauses of the property that the earlier changes listed below did NOT touch (read the anchored files and the code around them widely before choosing; the less obvious the site, the better). Each of your {n} changes must attack a different clause / code path from the others.
  3. it must be a genuine violation of the property AS STATED (not merely of something you would find desirable), on inputs inside the domain the property quantifies over.
Experience from earlier rounds: changes whose trigger was merely "a small unusual input" were nearly always noticed. The ones that stayed unnoticed longest needed (a) a structure that is legal but that no ordinary producer emits (duplicated or shared entries, an entry in an unusual state such as present-but-unnamed, a name that shares a prefix or a half with another), (b) an exact limit of the format or a size beyond an internal threshold (depth, count, length) that only a deliberately built input reaches, (c) an API entry point, option, or input form that ordinary callers do not use but that is public and covered by the property, or (d) history: something that only goes wrong on the second use of an object, after a failed operation, or when two operations are combined. Aim there.
Do not special-case a magic constant name or a literal "if input == X" trap — the change should look like something a maintainer could really commit and a reviewer could wave through.

EARLIER CHANGES (already known for this property — do not repeat these or close variants of them):
{chr(10).join(earlier) if earlier else '- (none)'}

FOR EACH CHANGE X in {{{', '.join(letters)}}} write into {base}/out/X/ :
  * patch.diff   — `git diff` of the change alone against the worktree's HEAD (source change only; NOT the demonstration). It must apply with `git apply` to a clean checkout of HEAD.
  * demo/<file>  — a demonstration that PASSES (exit 0) on the pristine tree and FAILS (non-zero exit) with patch.diff applied. Normally one integration-test file, e.g. demo/seed_demo_x.rs to be copied to <crate>/tests/seed_demo_x.rs and run with `cargo test -p <crate> --offline --test seed_demo_x` (crates: duke, quill, dukebox, dukenest, raw_class_file, maven_dependency_resolver; check each crate's Cargo.toml for the dev-dependencies you may use — you cannot add crates that are not already in the workspace's Cargo.lock). For code living in the binary crate (src/…, e.g. src/version_graph.rs, src/specialized_methods) the demonstration may be a test module file plus a small demo/demo.patch that wires it in (e.g. adds `#[cfg(test)] mod seed_demo_x;`); the demo patch must apply both with and without patch.diff.
  * notes.md     — what the change is, why it looks plausible, why the suite does not notice, the exact trigger, what the demo does.
  * seed.json    — {{"breaks": "<one or two sentences: what goes wrong>", "needs": "<what is needed for it to manifest>", "clause": "<the clause of the property statement that is violated, quoted>", "demo_file": "<file name inside demo/>", "demo_dest": "<path relative to the worktree root where demo_file is copied>", "demo_cmd": "<command run from the worktree root>", "demo_patch": "<file name inside demo/ of the wiring patch, or null>"}}

VERIFY YOURSELF before delivering, for each change: (a) pristine tree + demo → demo command exits 0; (b) tree + patch.diff + demo → demo command exits non-zero because of an assertion about the property (not a compile error); (c) tree + patch.diff without the demo → `cargo test --workspace --no-fail-fast --offline` passes completely. Build output may stay in {wt}/target. When you are done leave the worktree's tracked files exactly at HEAD with no stray files (`git -C {wt} checkout -- . && git -C {wt} status --short` shows nothing apart from target/), and do not remove the worktree.

Finish with a short report: for each change one line saying what it breaks and what it needs to manifest, and the results of (a), (b), (c). If you could only produce one convincing change, deliver that one and say so — a convincing change is worth more than two weak ones.
"""
print(prompt)
