#!/bin/bash
# tools/sweep_batch.sh <root-suffix> <group[:max[:retry]]>...   runs sweeps one after another in a private root
n="$1"; shift
export MSWEEP_ROOT=/tmp/msweep$n
for spec in "$@"; do
  IFS=: read -r g mx retry <<<"$spec"
  if [ "$retry" = "retry" ]; then python3 /verif/tools/mutation_sweep.py "$g" --retry-survivors; else python3 /verif/tools/mutation_sweep.py "$g" --max "${mx:-60}"; fi
done
git -C /repo worktree remove --force $MSWEEP_ROOT/repo; rm -rf $MSWEEP_ROOT
