#!/usr/bin/env python3
"""Regenerates /verif/MANIFEST.json from the table below (kept next to the checks so the two stay in sync)."""
import json, subprocess

CHECKS = {
 "C03": dict(
   technique="property-based testing (proptest): round trip, order-independence and fixed-point laws against an independent plain mapping model",
   text="Generated-input exploration: tens of thousands of generated mapping sets (2-4 namespaces) are written by quill, re-read and compared with the generating model (ground truth), across insertion orders and harness-written line orders; holds on everything explored, no exhaustiveness claimed.",
   note="Trusted: the harness model/conversion (from_quill fails on mis-keyed entries), proptest. Assumes names valid for the duke newtypes without TAB/LF/CR. The comment of the set itself (Mappings::javadoc) takes part in every round trip since the sixth seeded round.",
   ref="DESIGN.md §4 C03"),
}

CHECKS.update({
 "C04": dict(
   technique="property-based testing (proptest): reference apply model (exact result or refusal), diff/apply inverse law directly and through .tinydiff text, exhaustive 4x3 action table",
   text="Generated-input exploration: generated diffs (every action x absent/unnamed/matching/mismatching target at all five levels, 2- and 3-namespace targets) are applied by quill and by a reference model written from the statement; generated pairs (A,B) check apply(diff(A,B),A)==B directly and through harness-written .tinydiff text (pairs with entries lacking the target name may be refused by diff(); an answer must still take A to B); the 12-cell option table is enumerated; the comment of the set itself and the name of the target namespace are diffed / edited like every other value (matching, mismatching and colliding stated values). Holds on everything explored.",
   note="Trusted: reference apply/diff in the harness, harness tinydiff writer. Assumes target namespace index >=1, parameters without source names and non-empty comments for the inverse law (inexpressible in a diff). Unspecified nodes (None on absent target, children below a removal) accept either outcome.",
   ref="DESIGN.md §4 C04"),
 "C08": dict(
   technique="property-based testing (proptest) with per-case enumeration of all namespace permutations: reference reorder, inverse and identity laws",
   text="Generated-input exploration: each generated set (2-4 namespaces) is reordered by every permutation and compared with a reference permutation model incl. descriptor re-expression and required failures; inverse/identity laws checked on injective sets. Holds on everything explored.",
   note="Trusted: reference reorder and descriptor rewriter in the harness. Round-trip identity only asserted where class names are injective per namespace and no external descriptor class collides.",
   ref="DESIGN.md §4 C08"),
 "C09": dict(
   technique="property-based testing (proptest): reference join model plus projection law and key-union predicate",
   text="Generated-input exploration: pairs derived from a common base by independent edit scripts are merged by quill and by a reference join; projections onto (s,a) and (s,b) must give back A and B; conflicting comments / parameter source names / first namespaces must be reported. Holds on everything explored.",
   note="Trusted: reference merge/projection in the harness.",
   ref="DESIGN.md §4 C09"),
 "C10": dict(
   technique="property-based testing (proptest): reference filters from the documented rules plus subset, survival and idempotence laws",
   text="Generated-input exploration: sets and diffs mixing placeholder and real names at every depth are filtered by quill and by reference implementations of the documented rules; independent laws (output subset unchanged, idempotence, no surviving removal/addition, no dropped changing node) are checked on the same cases. Holds on everything explored.",
   note="Trusted: harness reference of the documented rules.",
   ref="DESIGN.md §4 C10"),
 "C11": dict(
   technique="property-based testing (proptest): reference extension/contraction, contract-after-extend inverse law, required failure on missing outer class",
   text="Generated-input exploration: sets with nesting depth 0-4, packages, missing names and missing outer classes in any non-first namespace are extended/contracted by quill and by a reference; inverse law on simple stored names. Holds on everything explored.",
   note="Trusted: harness reference incl. the last-$ split rule. Unnamed nested classes with a missing outer class accept either outcome.",
   ref="DESIGN.md §4 C11"),
})

CHECKS.update({
 "C06": dict(
   technique="property-based testing (proptest): reference remapper over generated inheritance DAGs, descriptor shape/segment oracle, X->Y->X round trip",
   text="Generated-input exploration: remappers built by quill from generated sets (2-4 namespaces, every from/to pair) are queried for classes, field/method/return/array descriptors and members over generated inheritance graphs (unmapped intermediate owners, diamonds, shadowing) and compared with a reference remapper written from the statement; inheritance chains of up to 1000 classes; JarSuperProv::remap must give the graph translated in place, and every member answer is asked back through it (X->Y->X). Holds on everything explored.",
   note="Trusted: harness reference remapper. Acyclic inheritance, class names injective per namespace, one member per (name,descriptor) and class; where depth-first order and nearest-by-depth disagree either answer is accepted.",
   ref="DESIGN.md §4 C06"),
 "C12": dict(
   technique="property-based testing (proptest): write/read round trip (stream and directory on tmpfs), placement predicate via an independent indentation reader, insertion-order determinism",
   text="Generated-input exploration: expressible two-namespace sets are written by quill as one stream and as a directory tree, re-read and compared with the generating model; an independent reader of the CLASS structure checks exactly-once placement and nesting; two insertion orders must give identical bytes/trees; harness-written enigma text reads to the same set. Holds on everything explored.",
   note="Trusted: harness model, harness enigma writer and indentation reader; tmpfs scratch directories. Only sets the format can express (see assumptions in the evidence file).",
   ref="DESIGN.md §4 C12"),
})

CHECKS.update({
 "C01": dict(
   technique="property-based testing (proptest) + coverage-guided fuzzing (libFuzzer, thorough tier): generated class models encoded by an independent encoder under generated encoding choices; reference-model oracle plus metamorphic relation across encodings; differential against an independent strict decoder on a javac-compiled corpus",
   text="Generated-input exploration: the generating model is ground truth; the tree duke reads is projected into the same model (opcodes, flag bits, table layouts re-derived from JVMS in the harness) and must be equal, for two independent encodings of every class (pool permutation, junk entries, attribute order, short/wide instruction forms, switch paddings, frame forms). Holds on everything explored apart from the listed known findings.",
   note="Trusted: harness model/encoder/decoder/projection (self-checked per case: decode(encode(m))==m), duke::verif accessors. Only defined flag bits, valid Unicode, names valid for duke's types.",
   ref="DESIGN.md §4 C01"),
})

CHECKS.update({
 "C02": dict(
   technique="property-based testing (proptest) + coverage-guided fuzzing (libFuzzer target c02_rewrite, thorough tier): read-write-decode round trip through an independent strict JVMS decoder, with an instruction alignment oracle for widened jumps; constructed branch-geometry generator around the 16-bit limits; trees after renaming; javac corpus",
   text="Generated-input exploration: every tree duke reads from generated classes (all encodings) and from geometry classes (jumps laid out at 32767+-8 / -32768+-8 whose spans grow when ldc becomes ldc_w, nested so that widening cascades, switches behind stretched regions, code sizes around 65535, locals around 255/256) is written by duke; the output must pass the harness's strict decoder and decode to the projection of the tree under an alignment that accepts only the inverted-if/goto_w trampoline; an Err is accepted only for methods that cannot fit. Holds on everything explored apart from the listed known finding (frames are not written).",
   note="Trusted: harness encoder/decoder/projection/alignment. Trees come from reading valid files only (Label is not constructible outside duke). Err between the exact and the worst-case size is accepted.",
   ref="DESIGN.md §4 C02"),
})

CHECKS.update({
 "C20": dict(
   technique="property-based testing (proptest): byte round trip of encoder-produced class files, value round trip of directly generated raw values, independent JVMS layout walker over the written bytes, differential cross-reading by the strict decoder and duke",
   text="Generated-input exploration: well-formed class files from the harness encoder (all encodings, every attribute kind the crate models) must satisfy write(read(b)) == b and length() == |b|; raw ClassFile values generated directly must satisfy |to_bytes()| == length(), read(write(v)) == v, and their written bytes must be consumed exactly by an independent layout walker using JVMS count widths and attribute_length; re-written files are cross-read by the strict decoder and duke; stack map frames (kind, offset_delta, counts, verification types), constant pool tags and element value tags of the raw value are compared by meaning with what the independent walker reads from the bytes. Holds on everything explored apart from the listed known finding (pools with long/double).",
   note="Trusted: harness encoder/decoder and the layout walker. While finding C20-long-double-pool-slots is open, cases whose pool holds a Long/Double are counted and excluded (3/4 of the cases are generated without them).",
   ref="DESIGN.md §4 C20"),
})

CHECKS.update({
 "C18": dict(
   technique="bounded-exhaustive enumeration plus property-based testing (proptest): independent JVMS 4.2/4.3 recogniser as reference model, print/parse inverse laws, split/join inverse laws",
   text="Exhaustive over bounded string spaces (every string up to length 6 - thorough: 7 - over the 16-symbol descriptor alphabet for the three descriptor parsers; every string up to length 5 over the name alphabet and up to length 4 over the descriptor alphabet for the seven name predicates and the inner-class split/join), exploration beyond the bound (generated structures up to 255 dimensions, long and non-ASCII names, single-edit neighbours of members). Accept iff member, parsed structure == reference structure, write(parse(s)) == s, parse(write(t)) == t.",
   note="Trusted: the harness recogniser (written from JVMS 4.2.1, 4.2.2, 4.3.2, 4.3.3). Exhaustive only inside the stated bounds.",
   ref="DESIGN.md §4 C18"),
})

CHECKS.update({
 "C17": dict(
   technique="property-based testing (proptest): reference restriction of the full read by interest mask and decline plan, stream-position invariant over concatenated files, replay/read differential",
   text="Generated-input exploration: streams of 1-3 generated class files plus trailing bytes are read by successive calls on one cursor into the tree builder, (), mask-configurable tree visitors (duke feature verif) and a SimpleClassVisitor written in the harness; what a visitor receives must equal the restriction of the full read by its mask and decline plan, the cursor must sit exactly at the end of the k-th file after the k-th read, replaying a tree reproduces it, and replaying into a masked visitor equals reading into it. Holds on everything explored.",
   note="Trusted: harness projection and restriction function, duke::verif::masked wrappers (thin delegation to the existing tree visitors). Expectations derive from duke's own full read. Whether ClassInterests.fields/methods are honoured is not asserted.",
   ref="DESIGN.md §4 C17"),
})

CHECKS.update({
 "C16": dict(
   category="fault_enumeration",
   technique="structure-aware fault enumeration / mutation fuzzing in sandboxed child processes, plus coverage-guided libFuzzer campaigns (targets c16_bytes, c16_text) in the thorough tier: every structural field of generated valid files set to boundary values, truncations, index redirection, hand-assembled hostile files, token/line/byte mutations of valid text; oracle = only a value or a clean Err (panic site, child death, allocation request measured by a counting allocator)",
   text="Fault enumeration: hundreds of thousands (thorough: millions) of deterministically enumerated malformed inputs derived from valid class files, tiny/tinydiff/enigma/nests text and descriptor strings are given to duke::read_class (+write_class on acceptance), read_class_multi into (), quill's four text readers, Nests::read and the three descriptor parsers inside sandboxed children; a panic, the death of the child (stack overflow, abort) or a single allocation request beyond 64x input + 16 MiB is a violation, a stall is inconclusive. Holds on everything enumerated after the recorded fixes.",
   note="Trusted: harness encoder field map, sandbox (counting global allocator, catch_unwind, child protocol). 'Never loops forever' is only observable as a watchdog expiry (exit 2).",
   ref="DESIGN.md §4 C16"),
})

CHECKS.update({
 "C07": dict(
   technique="property-based testing (proptest): reference renamer over an independent class model applying the remapper's own answers at ~50 JVMS position kinds; jar-level predicates through the zip layer; strict decoder for well-formedness",
   text="Generated-input exploration: jars of generated classes with manifest, directory and resource entries (given as bytes, parsed trees or a zip archive) are remapped by dukebox with quill remappers built from mapping sets generated over the names the classes use (members declared in super types inside the jar); a reference renamer written from JVMS applies the remapper's own answers to each input class and must equal both the remapped tree and the class re-read from the written jar; entry names, non-class bytes and structural validity are checked on the reopened jar; the remapper's answers themselves are cross-checked against an independent reference remapper over the mapping model and the jar's inheritance (jars with inheritance chains of up to 400 classes); jars whose methods need widened jumps when written (30-65 KB geometry classes, an 83 KB javac class) are compared through the instruction alignment of C02; generic signatures and simple inner names must be unchanged or carry the remapper's class names. Holds on everything explored apart from the listed known findings (module data and record components dropped, frames lost when written).",
   note="Trusted: harness model/projection/renamer, strict decoder. Not compared: annotation element names, variable/parameter names, indy/condy names (the remapper gives no answer for them). Generic signatures and simple inner names: original or renamed text accepted, nothing else. Unknown attributes must come out byte-identical.",
   ref="DESIGN.md §4 C07"),
})

CHECKS.update({
 "C13": dict(
   technique="property-based testing (proptest): validity predicates over the merged jar (union exactly once, side marks, order preservation under compatible orders, byte identity) computed from the generating member pools",
   text="Generated-input exploration: pairs of jars over generated classes that are client-only, server-only, identical or different on the two sides; the member and interface lists of a differing class are sub-selections of a common pool, with the server order optionally made incompatible; resources, manifest, signature files, directory entries and a bundled server library are included. The merged jar (in memory and through the zip layer) must satisfy the stated union / marking / ordering / pass-through predicates exactly. Holds on everything explored.",
   note="Trusted: harness model/projection, the predicates. Headers and shared members are equal on both sides (which side wins otherwise is not stated); record components / permitted subclasses are not generated for differing classes.",
   ref="DESIGN.md §4 C13"),
})

CHECKS.update({
 "C14": dict(
   technique="property-based testing (proptest): reference acceptance rule and transitive naming, reference renamer for the rewritten references and synthesized attributes, apply/undo inverse law, differential agreement between the jar and the mappings implementation, reference derivation for translated nests",
   text="Generated-input exploration: jars of generated classes that reference each other, nests tables of all three kinds with chains, missing enclosing classes, absent classes, fitting and non-fitting enclosing methods, derived/custom/invalid inner names (built directly and through Nests::read), and two-namespace mappings over the same classes are given to nest_jar (with and without renaming), apply_nests_to_mappings, undo_nests_to_mappings and remap_nests; results are compared with a reference written from the statement and the two implementations of the naming are cross-checked. Holds on everything explored.",
   note="Trusted: harness reference naming/acceptance, reference renamer, mapping model. All classes of the mappings carry a target name; nests are acyclic; target-side class names after apply are not asserted.",
   ref="DESIGN.md §4 C14"),
})

CHECKS.update({
 "C15": dict(
   technique="property-based testing (proptest): reference bridge predicate written from the statement plus an independent reference remapper for the inherited name; exact comparison of the produced mapping set with input + expected entries; differential on the detected pairs",
   text="Generated-input exploration: main jars of five classes with generated delegate/synthetic method pairs covering true bridges (flagged, unflagged-but-compatible, covariant/erased/super-typed positions, delegate in the super class) and near misses (private/static/final, arity, unrelated or primitive types, zero / two distinct calls, non-synthetic), with calamus and named mapping sets that name or omit the classes, bridges (in their class or a super class) and delegates; /repo/src/specialized_methods/mod.rs is compiled into the harness unchanged. The detected pairs and the produced mappings must equal the reference exactly. Holds on everything explored.",
   note="Trusted: harness reference predicate and reference remapper (C06's), mapping model. Where a super type of the delegate's type lies outside the jar the statement does not decide compatibility: either outcome accepted (counted). At most one bridge per delegate and class.",
   ref="DESIGN.md §4 C15"),
})

CHECKS.update({
 "C05": dict(
   technique="property-based testing (proptest): model-based oracle (each version's mappings derived by generated edit scripts; files are harness-written diffs between the models), metamorphic relation over file-creation order, negative predicates for malformed directories",
   text="Generated-input exploration: rooted version graphs (chains, trees, diamonds, client~server names) whose per-version mappings derive from their parents by generated edit scripts are written as root .tiny + parent#child .tinydiff files in two generated creation orders on tmpfs; /repo/src/version_graph.rs (compiled into the harness unchanged) must find every version under its name / both halves (version names spelled like the Feather repository's: dots, dashes, prefixes of each other) and report exactly extend(model of that version), also where entries lack the target name and gain it on a later edge; get_all, is_root_then_get_mappings and get_diff must agree with get and with the edge files; malformed directories (no root, two roots - also under names sharing a half -, cycles, unreachable and unknown versions) must be refused. Holds on everything explored.",
   note="Trusted: harness mapping model, diff/extend references (C04/C11's), harness tiny/tinydiff writers. Listing orders other than what tmpfs yields for the generated creation orders are not reachable without owning read_dir.",
   ref="DESIGN.md §4 C05"),
})

CHECKS.update({
 "C19": dict(
   technique="property-based testing (proptest): reference resolver written from Maven's documented rules over generated POM universes served in memory; Display/parse round-trip laws",
   text="Generated-input exploration: acyclic POM universes inside the supported subset (libraries in several versions, parent chains, BOM imports incl. BOMs that inherit management from their own parents, dependency paths of up to 300 artifacts, managed versions/scopes/optional flags, all scopes, classifier and test-jar variants, several repositories serving subsets) are rendered to POM XML, served by an in-memory Downloader and resolved by get_maven_dependencies; the full result list (coordinate, scope, repository, breadth-first order) must equal a reference resolver written from Maven's dependency-mechanism documentation; every result and generated coordinates must survive printing and re-parsing. Holds on everything explored.",
   note="Trusted: harness reference resolver (effective POM, scope table, nearest-wins mediation), XML renderer. Real Maven cannot run offline. Supported subset only; a child neither re-declares nor manages a dependency its parent chain declares.",
   ref="DESIGN.md §4 C19"),
})

NOT_YET = {
}


# sentences appended to the level text: what rounds seven and eight of the seeded changes added (DESIGN.md 12.5, 12.6)
EXTRA = {
 "C01": " Encodings include used duplicate constants, non-zero switch padding (version >= 51), descriptors at the 255-slot limit, line number tables beyond 65535 entries; a read that fails (the same file cut short) precedes every read. Call sites sharing large bootstrap methods, bootstrap arguments differing only in the sign of zero, module names with escapes, a label at every bytecode offset.",
 "C02": " A write that fails half way (a buffer that is too small) precedes every write; tables beyond 65535 entries may be split or refused. Sub-check pool_size_limit enumerates input pools of 65529-65535 slots, written as read and after a renaming that adds one constant (valid up to 65535 slots, refusal beyond).",
 "C03": " Sub-check large_sets repeats the laws on sets of 200-1500 classes (64 KiB - 1 MiB of text) with single lines of up to 260 KiB; namespace names that are equal up to case / prefixes of each other.",
 "C04": " Targets much larger than the diff (80+ untouched entries per level), comments differing only in the kind of white space, comments with backslashes. Diff texts of tens of KiB.",
 "C06": " Method descriptors with hundreds of array dimensions in total; on one remapper an unknown member whose owner+name text equals a mapped member's (other split) is asked first.",
 "C07": " An equal jar is remapped twice with one remapper. Seven seeded changes of the ninth round are recorded as not caught (DESIGN 12.7: C05-R9A, C07-R9A, C08-R9A/B, C09-R9B, C16-R9A, C17-R9A).",
 "C08": " Namespace names equal up to ASCII case / prefixes of each other / with blanks; names holding unpaired surrogates.",
 "C09": " Names holding unpaired surrogates (built in memory).",
 "C10": " Names holding unpaired surrogates (built in memory); comments with backslashes. Diffs with 160+ additions; class names that merely contain the placeholder package path.",
 "C11": " Names holding unpaired surrogates (built in memory).",
 "C12": " Inner-class chains 5-40 levels deep; comments with backslashes; the directory is handed over under ten spellings (hidden, blank, trailing '.', through '..'). Comments with Unicode white space; a longer version of the same classes written into the directory first.",
 "C13": " Both jars also as zip archives, holding a differing class of equal size and equal (forged) CRC-32 on the two sides; classes and members that already carry side annotations. An identical class of more than 1 MiB; a differing class with more than 512 list entries and swapped shared members.",
 "C14": " A class named exactly like another listed class's nested name, inner names holding '$'; the inner name recorded in the InnerClasses entry is compared with the table; undo asserted whenever the renaming is one-to-one.",
 "C15": " Synthetic methods calling the same name and descriptor in the super class (visibility bridges); bridges whose own entry is unnamed while an ancestor names them. Bridges inside interfaces; synthetic methods without code.",
 "C16": " A quarter of the class seeds spell member names with unpaired surrogates; switch tables ending at i32::MAX. An unknown element followed by 100000 deeper-indented lines in every text format; a valid method with a label at every bytecode offset.",
 "C17": " The masked and () reads are repeated on a Read+Seek stream that hands out 1-5 bytes per call.",
 "C18": " Sub-check lookalike_code_points: every code point sharing its low byte with a descriptor character (quick: a sixteenth of the pages above U+2FFF) at every position kind.",
 "C19": " Management lists of 64-200 entries; an artifact returning deep in a dependency line with another classifier / type / as a rival. test-jar dependencies with explicit classifiers; the same roots resolved twice with one downloader.",
 "C20": " A write into a buffer that is too small precedes every write. Sub-check full_constant_pool: pools of 65531-65535 slots.",
}

def main():
    props = [json.loads(l) for l in open('/verif/properties.jsonl')]
    checks = []
    na = []
    for p in props:
        pid = p['id']
        if pid in CHECKS:
            c = CHECKS[pid]
            checks.append({
                "property_id": pid,
                "quick_cmd": f"./check {pid} --tier quick",
                "thorough_cmd": f"./check {pid} --tier thorough",
                "evidence_file": f"/verif/evidence/{pid}.json",
                "replay_cmd_template": f"./check {pid} --replay {{path}}",
                "engine": "fbverif",
                "level_claimed": {"category": c.get("category", "exploration"), "text": c["text"] + EXTRA.get(p["id"], ""), "design_ref": c["ref"]},
                "level_note": c["note"],
                "technique": c["technique"],
            })
        else:
            na.append({"property_id": pid, "reason": NOT_YET.get(pid, "check not built yet in this round (planned in DESIGN.md §8); not claimed")})
    hooks_commits = subprocess.run(["git", "-C", "/repo", "log", "--format=%h %s", "--grep=^verif hook"], capture_output=True, text=True).stdout.split("\n")
    hooks_commits = [l.split()[0] for l in hooks_commits if l.strip()]
    m = {
        "version": 1,
        "setup_cmd": "cd /verif/harness && CARGO_NET_OFFLINE=true cargo build --offline --bin check",
        "hooks": {
            "guard": "cargo feature `verif` of crate duke (off by default)",
            "enable": "the harness depends on duke by path with features=[\"verif\"]; every ./check run rebuilds /repo's working tree with it",
            "baseline_off_cmd": "cd /repo && cargo test --workspace --no-fail-fast --offline",
            "source_commits": hooks_commits,
            "add_only": True,
        },
        "engines": [{"name": "fbverif", "path": "/verif/harness", "serves_properties": sorted(CHECKS), "kind_free_text": "Rust binary driving proptest 1.11 from a fixed seed, sharded over 16 threads; shrinks failures to replay files; evidence writer; known-findings masks"}],
        "checks": checks,
        "not_applicable": na,
        "notes": "Known findings: /verif/known_findings.json. Replays: /verif/replays/<id>/. VERIF_SEED selects the proptest seed (default 1).",
    }
    json.dump(m, open('/verif/MANIFEST.json', 'w'), indent=1)
    print("claimed", len(checks), "not claimed", len(na))

main()
