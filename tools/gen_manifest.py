#!/usr/bin/env python3
"""Regenerates /verif/MANIFEST.json from the table below (kept next to the checks so the two stay in sync)."""
import json, subprocess

CHECKS = {
 "C03": dict(
   technique="property-based testing (proptest): round trip, order-independence and fixed-point laws against an independent plain mapping model",
   text="Generated-input exploration: tens of thousands of generated mapping sets (2-4 namespaces) are written by quill, re-read and compared with the generating model (ground truth), across insertion orders and harness-written line orders; holds on everything explored, no exhaustiveness claimed.",
   note="Trusted: the harness model/conversion (from_quill fails on mis-keyed entries), proptest. Assumes names valid for the duke newtypes without TAB/LF/CR; top-level javadoc unused.",
   ref="DESIGN.md §4 C03"),
}

NOT_YET = {
}

def main():
    props = [json.loads(l) for l in open('/verif/properties.jsonl')]
    checks = []
    na = []
    for p in props:
        pid = p['id']
        if pid in CHECKS:
            c = CHECKS[pid]
            checks.append({
                "property_id": pid,
                "quick_cmd": f"./check {pid} --tier quick",
                "thorough_cmd": f"./check {pid} --tier thorough",
                "evidence_file": f"/verif/evidence/{pid}.json",
                "replay_cmd_template": f"./check {pid} --replay {{path}}",
                "engine": "fbverif",
                "level_claimed": {"category": c.get("category", "exploration"), "text": c["text"], "design_ref": c["ref"]},
                "level_note": c["note"],
                "technique": c["technique"],
            })
        else:
            na.append({"property_id": pid, "reason": NOT_YET.get(pid, "check not built yet in this round (planned in DESIGN.md §8); not claimed")})
    hooks_commits = subprocess.run(["git", "-C", "/repo", "log", "--format=%h %s", "--grep=^verif hook"], capture_output=True, text=True).stdout.split("\n")
    hooks_commits = [l.split()[0] for l in hooks_commits if l.strip()]
    m = {
        "version": 1,
        "setup_cmd": "cd /verif/harness && CARGO_NET_OFFLINE=true cargo build --offline --bin check",
        "hooks": {
            "guard": "cargo feature `verif` of crate duke (off by default)",
            "enable": "the harness depends on duke by path with features=[\"verif\"]; every ./check run rebuilds /repo's working tree with it",
            "baseline_off_cmd": "cd /repo && cargo test --workspace --no-fail-fast --offline",
            "source_commits": hooks_commits,
            "add_only": True,
        },
        "engines": [{"name": "fbverif", "path": "/verif/harness", "serves_properties": sorted(CHECKS), "kind_free_text": "Rust binary driving proptest 1.11 from a fixed seed, sharded over 16 threads; shrinks failures to replay files; evidence writer; known-findings masks"}],
        "checks": checks,
        "not_applicable": na,
        "notes": "Known findings: /verif/known_findings.json. Replays: /verif/replays/<id>/. VERIF_SEED selects the proptest seed (default 1).",
    }
    json.dump(m, open('/verif/MANIFEST.json', 'w'), indent=1)
    print("claimed", len(checks), "not claimed", len(na))

main()
