#!/bin/bash
# Confirms a seeded change in a scratch worktree of /repo (never in /repo itself):
#   tools/confirm_seed.sh <seed_dir with patch.diff> <demo_src_file> <dest_rel_path> "<cargo command>" [extra_patch_for_demo]
# Steps: fresh tree at /repo HEAD; demo without change (expect 0); apply patch; demo (expect !=0);
# remove demo; cargo test --workspace --no-fail-fast --offline (expect 0).  Prints three exit codes.
set -u
seed="$1"; demo="$2"; dest="$3"; cmd="$4"; extra="${5:-}"
WT=/tmp/confirm_wt
export CARGO_NET_OFFLINE=true
if [ ! -d $WT ]; then git -C /repo worktree add -q --detach $WT HEAD || exit 2; fi
cd $WT || exit 2
git checkout -q --detach "$(git -C /repo rev-parse HEAD)"; git checkout -q -- .; git clean -fdq -e target
mkdir -p "$(dirname "$dest")"; cp "$demo" "$dest"
[ -n "$extra" ] && git apply "$extra"
eval "$cmd" > /tmp/confirm_without.log 2>&1; a=$?
if ! git apply "$seed/patch.diff"; then echo "PATCH DOES NOT APPLY"; exit 2; fi
eval "$cmd" > /tmp/confirm_with.log 2>&1; b=$?
rm -f "$dest"; [ -n "$extra" ] && git apply -R "$extra"
cargo test --workspace --no-fail-fast --offline > /tmp/confirm_suite.log 2>&1; c=$?
passed=$(grep -E "^test result" /tmp/confirm_suite.log | awk '{s+=$4} END{print s}')
git checkout -q -- .; git clean -fdq -e target
echo "demo_without=$a demo_with=$b suite_with=$c suite_passed=$passed"
[ $a -eq 0 ] && [ $b -ne 0 ] && [ $c -eq 0 ] && echo CONFIRMED || echo NOT-CONFIRMED
